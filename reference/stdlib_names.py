#!/usr/bin/env python3
"""
Which (module, name) pairs exist in the stdlib source trees of 3.7 .. 3.12 - parsed statically.
Writes reference/stdlib_names.json for the pairs the package imports; `--check` re-extracts and diffs.
"""
import ast
import json
import os
import sys

HERE = os.path.dirname(os.path.abspath(__file__))
PYENV = "/root/.pyenv/versions"
TREES = {"3.7": "3.7.16", "3.8": "3.8.18", "3.9": "3.9.18", "3.10": "3.10.13", "3.11": "3.11.7", "3.12": "3.12.1"}
BUILTIN_MODULES = {"sys", "math", "itertools", "builtins", "marshal", "time", "_thread", "gc", "errno", "atexit", "posix"}


def module_file(v, mod):
    base = os.path.join(PYENV, TREES[v], "lib", f"python{v}")
    p = os.path.join(base, *mod.split("."))
    if os.path.isfile(p + ".py"):
        return p + ".py"
    if os.path.isfile(os.path.join(p, "__init__.py")):
        return os.path.join(p, "__init__.py")
    return None


def defined_names(path):
    tree = ast.parse(open(path, encoding="utf-8").read())
    out = set()
    for n in ast.walk(tree):
        if isinstance(n, (ast.FunctionDef, ast.ClassDef, ast.AsyncFunctionDef)):
            out.add(n.name)
        elif isinstance(n, ast.Assign):
            for t in n.targets:
                for x in ast.walk(t):
                    if isinstance(x, ast.Name):
                        out.add(x.id)
        elif isinstance(n, ast.AnnAssign) and isinstance(n.target, ast.Name):
            out.add(n.target.id)
        elif isinstance(n, (ast.Import, ast.ImportFrom)):
            for a in n.names:
                out.add((a.asname or a.name).split(".")[0])
    return out


def lookup(v, mod, name):
    if not os.path.isdir(os.path.join(PYENV, TREES[v])):
        return None
    if mod.split(".")[0] in BUILTIN_MODULES:
        return True  # C modules: present in every supported version (math.isnan/isinf, sys.version_info, itertools.chain)
    f = module_file(v, mod)
    if f is None:
        return False
    if name is None:
        return True
    if module_file(v, mod + "." + name):
        return True
    names = defined_names(f)
    if name in names:
        return True
    # star re-exports (e.g. math-like shims): from _x import *
    return False


def collect_pairs(repo="/repo"):
    pairs = set()
    pkg = os.path.join(repo, "code_data")
    for fn in sorted(os.listdir(pkg)):
        if not fn.endswith(".py") or fn.endswith("_test.py") or fn.startswith("_test"):
            continue
        tree = ast.parse(open(os.path.join(pkg, fn)).read())
        for n in ast.walk(tree):
            if isinstance(n, ast.Import):
                for a in n.names:
                    pairs.add((a.name, None))
            elif isinstance(n, ast.ImportFrom) and n.level == 0 and n.module:
                for a in n.names:
                    pairs.add((n.module, a.name))
    return sorted(pairs, key=lambda x: (x[0], x[1] or ""))


def build(repo="/repo"):
    table = {}
    for mod, name in collect_pairs(repo):
        key = mod + (":" + name if name else "")
        table[key] = {v: lookup(v, mod, name) for v in TREES}
    return table


if __name__ == "__main__":
    t = build()
    path = os.path.join(HERE, "stdlib_names.json")
    if "--check" in sys.argv:
        old = json.load(open(path))
        drift = sorted(k for k in t if k in old and old[k] != t[k] and None not in t[k].values())
        print("stdlib name table drift:", drift or "none")
        sys.exit(2 if drift else 0)
    json.dump(t, open(path, "w"), indent=1, sort_keys=True)
    for k, v in t.items():
        if not all(v.values()):
            print(k, v)
    print("wrote", path, len(t), "pairs")
