"""
Thorough tier = the quick rules (already run) plus
  (a) re-extraction of the CPython contract tables from the stdlib source trees and comparison with the committed copies,
  (b) the checker self-validation corpus for this property (selftest/mutants.py): behaviour-breaking edits of the current tree that
      must fire, behaviour-preserving rewrites that must stay silent - scratch copies in a mkdtemp dir, removed afterwards.
(a) and (b) are evidence about the checker, never about /repo: they cannot turn exit 0 into exit 1.
"""
from __future__ import annotations

import os
import subprocess
import sys

from .model import AnalysisError

VERIF = os.path.dirname(os.path.dirname(os.path.abspath(__file__)))


def run(an, rep, mod):
    # (a) reference drift
    drift = {}
    for script in ("reference/extract.py", "reference/stdlib_names.py"):
        r = subprocess.run([sys.executable, os.path.join(VERIF, script), "--check"], capture_output=True, text=True, timeout=300)
        drift[script] = (r.returncode, r.stdout.strip().splitlines()[-1] if r.stdout.strip() else r.stderr.strip()[-200:])
        if r.returncode == 2:
            raise AnalysisError(f"reference tables drifted from the stdlib sources ({script}): {drift[script][1]}")
    rep.extra["reference_check"] = {k: v[1] for k, v in drift.items()}
    # (b) self-validation corpus
    sys.path.insert(0, VERIF)
    from selftest import run as st
    out, n_ok, n_fail, n_skip = st.main(repo=an.prog.repo, only=[rep.pid], quiet=True)
    from selftest.mutants import M
    rep.extra["selftest"] = {
        "edits": len(out), "as_expected": n_ok, "not_as_expected": n_fail, "skipped": n_skip,
        "must_fire": sum(1 for i, s, d in out if M[i]["kind"] == "fire"),
        "must_stay_silent": sum(1 for i, s, d in out if M[i]["kind"] == "silent"),
        "failures": [{"edit": M[i]["old"][:80], "detail": d[:300]} for i, s, d in out if s == "FAIL"],
        "skipped_edits": [M[i]["old"][:80] for i, s, d in out if s == "SKIPPED"],
    }
    for i, s, d in out:
        if s == "FAIL":
            print(f"SELFTEST-WEAKNESS property={rep.pid}: edit #{i} ({M[i]['kind']}) not handled as expected: {d[:200]}")
    print(f"thorough: reference tables in sync; self-validation corpus {n_ok}/{len(out)} as expected ({n_skip} skipped)")
