# 3.7 - 3.9: a hand-altered co_lnotab with an odd address increment must make from_code raise (or decode), not loop forever
import signal, sys
from code_data import CodeData
def f(): return 1
c = f.__code__
kw = dict(co_lnotab=bytes([1, 1]))
g = c.replace(**kw) if hasattr(c, "replace") else None
if g is None: sys.exit(0)
signal.alarm(5)
try:
    CodeData.from_code(g)
except (ValueError, NotImplementedError) as e:
    print("OK raises", type(e).__name__)
