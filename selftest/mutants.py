"""
Checker self-validation corpus: textual edits of the *current* /repo tree, each applied to a scratch copy
(mkdtemp, removed afterwards) and analysed with `check --repo`.

  kind 'fire'   : a behaviour-breaking edit; the named property's check must report a violation (exit 1)
  kind 'silent' : a behaviour-preserving rewrite; every listed check must stay at exit 0

An edit whose `old` text no longer occurs in the tree is reported as SKIPPED (the tree moved on), never as a pass.
"""
M = []


def fire(pid, file, old, new, why=""):
    M.append(dict(kind="fire", pid=pid, file=file, old=old, new=new, why=why))


def silent(pids, file, old, new, why=""):
    M.append(dict(kind="silent", pid=pids, file=file, old=old, new=new, why=why))


J, B, C, A, N, L, I, F = ("code_data/_json_data.py", "code_data/_blocks.py", "code_data/_code_data.py", "code_data/_args.py",
                          "code_data/_normalize.py", "code_data/_line_mapping.py", "code_data/__init__.py", "code_data/_flags_data.py")

# ---- C12
fire("C12", J, '        value = copy(value)\n        value["arg"]', '        value["arg"]', "writes into the caller's instruction dict")
fire("C12", J, 'tp = copy(value["type"])', 'tp = value["type"]', "the original defect")
fire("C12", J, '    value = copy(value)\n    if "blocks" in value:', '    if "blocks" in value:', "writes into the caller's document")
# ---- C08
fire("C08", J, "return Instruction(**lists_values_to_tuples(value))", "return Instruction(**value)", "list stays in a tuple field")
fire("C08", J, "return tuple(map(constant_value_from_json, value))", "return list(map(constant_value_from_json, value))")
fire("C08", J, "            tuple(instruction_from_json(i) for i in block) for block", "            [instruction_from_json(i) for i in block] for block")
fire("C08", I, "        return hash((constant_key(self.constant), self._index_override))", "        return hash((self.constant, self._index_override))", "hash key != eq key")
fire("C08", "code_data/_constants.py", "return (type(value), value)", "return value", "1 / True / 1.0 merge")
fire("C08", "code_data/_constants.py", "return (type(value), replace_nan(value), is_neg_zero(value))", "return (type(value), replace_nan(value))", "0.0 / -0.0 merge")
silent(["C08", "C12"], J, 'value["_additional_args"] = tuple(', 'value["_additional_args"] = list(', "lists_values_to_tuples converts it afterwards")
# ---- C06 / C05
fire("C06", N, "                _nested=False,\n", "")
fire("C06", N, "return cast(T, NoArg())", "return x")
fire("C06", N, "replace(x, _index_override=None, constant=normalize(x.constant))", "replace(x, _index_override=None)")
fire("C06", N, "if isinstance(x, (Name, Varname, Cellvar)):", "if isinstance(x, (Name, Varname)):")
silent(["C06", "C05"], N, "                    o for o in x._line_offsets_override if o != 0\n", "                    o for o in x._line_offsets_override if o\n", "same restriction, by truthiness of an int")
fire("C05", N, "                _line_offsets_override=tuple(\n                    o for o in x._line_offsets_override if o != 0\n                ),\n", "                _line_offsets_override=tuple(),\n", "the original defect: entries that fire a line event cleared (R05.T)")
fire("C06", N, "                    o for o in x._line_offsets_override if o != 0\n", "                    o for o in x._line_offsets_override if o > 0\n", "negative steps dropped, positive kept: the line of the next entries moves (R06.1 / R06.N)")
fire("C06", N, "                _line_offsets_override=tuple(\n                    o for o in x._line_offsets_override if o != 0\n                ),\n", "", "the field is not touched at all: zero entries survive (R06.1)")
fire("C05", N, "                arg=normalize(x.arg),", "                arg=normalize(x.arg),\n                line_number=None,")
fire("C05", B, "if docstring_is_none and first_const and arg_is_string and no_override:", "if docstring_is_none and first_const and no_override and False:")
fire("C05", B, "isinstance(block_type, Function) and block_type.docstring is None\n        )", "isinstance(block_type, Function) and not block_type.docstring\n        )")
fire("C05", B, "first_const = not constants", "first_const = True")
fire("C05", C, '    if code_data.future_annotations:\n        flags_data |= {"annotations"}', "    pass")
# ---- C01 R01.7
fire("C01", B, "                line_mapping.offset_to_line[len(bytes_)] = instruction.line_number\n", "", "the original defect: prefix units of an instruction have no key")
silent(["C01", "C10"], B, "                line_mapping.offset_to_line[len(bytes_)] = instruction.line_number\n                bytes_.append(\n                    dis.opmap[instruction.name] if i == 0 else dis.EXTENDED_ARG\n                )\n                bytes_.append((arg_value >> (8 * i)) & 0xFF)\n",
       "                bytes_.append(\n                    dis.opmap[instruction.name] if i == 0 else dis.EXTENDED_ARG\n                )\n                bytes_.append((arg_value >> (8 * i)) & 0xFF)\n            for o in range(offset, len(bytes_), 2):\n                line_mapping.offset_to_line[o] = instruction.line_number\n", "another way of keying every unit")
# ---- C14
fire("C14", I, "        yield self\n        for code_data in self:", "        for code_data in self:")
fire("C14", I, "                    isinstance(arg, Constant)\n                    and isinstance(arg.constant, CodeData)\n                    and arg not in seen",
     "                    isinstance(arg, Constant)\n                    and arg not in seen")
fire("C14", I, "                    and arg not in seen\n", "", "the original defect: one yield per loading instruction")
fire("C14", I, "        for additional_arg in self._additional_args:", "        for additional_arg in ():", "the original defect")
# ---- C09
fire("C09", B, "        wrong_position = (\n            self._index_to_order[index] != index or index in self._duplicates\n        )", "        wrong_position = True")
fire("C09", B, "            self._index_to_order[index] = len(self._index_to_order)", "            self._index_to_order[index] = len(self._args)", "the original defect")
fire("C09", B, "            if i not in self._index_to_order:\n                yield self.found_index(i)", "            yield self.found_index(i)")
fire("C09", B, "        + tuple(Cellvar(*xs) for xs in found_cellvars.additional_args())\n", "")
fire("C09", B, "if isinstance(block_type, Function) and block_type.docstring is not None:\n        found_constants.found_index(0)",
     "if isinstance(block_type, Function):\n        found_constants.found_index(0)")
# ---- C11
fire("C11", C, '    if flags_data:\n        raise ValueError(f"Unknown flags: {flags_data}")', "    pass")
fire("C11", C, '    if code_data._nested:\n        flags_data |= {"NESTED"}', "    pass")
fire("C11", C, '    nested = "NESTED" in flags_data\n    flags_data -= {"NESTED"}', '    nested = False\n    flags_data -= {"NESTED"}')
fire("C11", F, "    if not_covered:\n        raise ValueError", "    if False:\n        raise ValueError", "the original defect")
fire("C11", C, "    if code.co_nlocals != len(code.co_varnames):\n        raise NotImplementedError(\n            \"Only support code where co_nlocals is the number of co_varnames\"\n        )\n", "", "the original defect")
fire("C11", L, '        if self.offset_to_additional_line_offsets and set(\n            self.offset_to_additional_line_offsets.keys()\n        ) != {next_offset}:\n            raise NotImplementedError(\n                "Only support additional offsets for last instructions"\n            )', "        pass")
# ---- C01
fire("C01", C, "(code, line_mapping, names, varnames, cellvars, constants) = blocks_to_bytes(", "(code, line_mapping, varnames, names, cellvars, constants) = blocks_to_bytes(")
fire("C01", C, "        code.co_names,\n        code.co_varnames,", "        code.co_varnames,\n        code.co_names,")
fire("C01", C, "        stacksize=code.co_stacksize,", "        stacksize=code.co_firstlineno,")
fire("C01", C, "    line_mapping.modify_line_offsets(-code_data.first_line_number)", "    line_mapping.modify_line_offsets(code_data.first_line_number)")
fire("C01", C, "    if code_data._additional_line:\n        line_mapping.add_additional_line(code_data._additional_line, len(code))", "    pass")
fire("C01", B, "            _n_args_override=n_args_override,", "            _n_args_override=None,")
fire("C01", A, '        flags_data.remove("VARKEYWORDS")', "        pass")
fire("C01", C, "            freevars,\n            cellvars,\n        )\n    else:", "            cellvars,\n            freevars,\n        )\n    else:", "3.8+ arm only")
# ---- C02
fire("C02", B, "return Jump((2 if _ATLEAST_310 else 1) * arg, False)", "return Jump(2 * arg, False)")
fire("C02", B, "is_cellvar = arg < len(found_cellvars)", "is_cellvar = arg <= len(found_cellvars)")
fire("C02", B, "line_number=line_mapping.offset_to_line.pop(offset),", "line_number=line_mapping.offset_to_line.pop(next_offset - 2),")
fire("C02", B, "            n_args = 0\n            arg = 0", "            n_args = 0")
fire("C02", B, "        return Varname(*found_varnames.found_index(arg))", "        return Varname(*found_names.found_index(arg))")
fire("C02", B, "multiplier = 1 if _ATLEAST_310 else 2", "multiplier = 2")
fire("C02", B, "            first_offset = i - ((n_args - 1) * 2)", "            first_offset = i - (n_args * 2)")
# ---- C13
fire("C13", B, "targets_set = {0}", "targets_set = set()")
fire("C13", B, "        if offset in targets:\n            block = []", "        if offset in targets or isinstance(instruction.arg, Jump):\n            block = []")
fire("C13", B, "targets = sorted(targets_set)", "targets = list(targets_set)")
fire("C13", B, "            targets_set.add(processed_arg.target)\n", "            if not processed_arg.relative:\n                targets_set.add(processed_arg.target)\n")
# ---- C04
fire("C04", A, "*((n, _ParameterKind.KEYWORD_ONLY) for n in args.keyword_only),", "*((n, _ParameterKind.POSITIONAL_OR_KEYWORD) for n in args.keyword_only),")
fire("C04", A, "argcount=len(args.positional_only) + len(args.positional_or_keyword),", "argcount=len(args.positional_or_keyword),")
fire("C04", C, "constants[0] if constants and isinstance(constants[0], str) else None", "constants[0] if constants else None")
fire("C04", I, "            + (self.var_positional is not None)\n", "", "len(args) forgets *args (R04.7)")
fire("C04", A, "        *args.keyword_only,\n        *((args.var_positional,) if args.var_positional is not None else ()),", "        *((args.var_positional,) if args.var_positional is not None else ()),\n        *args.keyword_only,", "the original defect, encode side")
# ---- C07
fire("C07", J, '        if isinf(value):\n            return {"float": "inf" if value > 0 else "-inf"}\n', "")
fire("C07", J, "MIN_INTEGER, MAX_INTEGER = (-(2**53) + 1, (2**53) - 1)", "MIN_INTEGER, MAX_INTEGER = (-(2**63) + 1, (2**63) - 1)")
fire("C07", J, '        return {"bytes": b64encode(value).decode("ascii")}', '        return {"b64": b64encode(value).decode("ascii")}')
fire("C07", J, "        return list(map(value_to_json, value))\n    if isinstance(value, frozenset):", "        return tuple(map(value_to_json, value))\n    if isinstance(value, frozenset):")
fire("C07", I, '{"$ref": "#/definitions/Freevar"},\n', "")
fire("C07", J, '            if v == "-inf":\n                return float("-inf")\n', "")
fire("C07", J, '        if "docstring" in tp:\n            tp["docstring"] = constant_value_from_json(tp["docstring"])\n', "", "the original defect, decoder half")
# ---- C15
fire("C15", J, '            return {"string": ascii(value)}', '            return {"string": repr(value)}', "the original defect")
fire("C15", N, "    if isinstance(x, NoArg):\n        return cast(T, NoArg())", "    if isinstance(x, NoArg):\n        import sys\n        return cast(T, NoArg()) if sys.version_info >= (3, 10) else x")
fire("C15", J, "MIN_INTEGER, MAX_INTEGER = (-(2**53) + 1, (2**53) - 1)", "import sys\nMIN_INTEGER, MAX_INTEGER = (-(2**53) + 1, (2**53) - 1) if sys.version_info >= (3, 9) else (-(2**31), 2**31)")
silent(["C15"], N, "from dataclasses import replace", "from dataclasses import replace\nimport sys", "an unused import is harmless")
silent(["C15", "C07", "C08"], I, "from typing_extensions import Literal", "import sys\nif sys.version_info >= (3, 8):\n    from typing import Literal\nelse:\n    from typing_extensions import Literal", "import-only version switch")
# ---- C16
CLI = "code_data/_cli.py"
fire("C16", CLI, "    console.print(code_data)\n    if json:", "    console.print(CodeData.from_code(code))\n    if json:")
fire("C16", CLI, "    if not no_normalize:\n        code_data = normalize(code_data)", "    if no_normalize:\n        code_data = normalize(code_data)")
fire("C16", CLI, "        args.c,\n        args.m,\n        args.e,", "        args.c,\n        args.e,\n        args.m,")
fire("C16", CLI, "        json_data = code_data.to_json_data()", "        json_data = CodeData.from_code(code).to_json_data()")
fire("C16", CLI, "    if len([x for x in [file, cmd, mod, eval_] if x is not None]) != 1:", "    if len([x for x in [file, cmd, mod] if x is not None]) != 1:")
fire("C16", CLI, "    if len([x for x in [file, cmd, mod, eval_] if x is not None]) != 1:", "    if len(list(filter(None, [file, cmd, mod, eval_]))) != 1:", "the original defect")
silent(["C16"], CLI, "    if len([x for x in [file, cmd, mod, eval_] if x is not None]) != 1:", "    if sum(x is not None for x in [file, cmd, mod, eval_]) != 1:", "equivalent spelling")
# ---- C03
fire("C03", B, "return 1 if arg <= 0xFF else 2 if arg <= 0xFFFF else 3 if arg <= 0xFFFFFF else 4", "return 1 if arg < 0xFF else 2 if arg <= 0xFFFF else 3 if arg <= 0xFFFFFF else 4")
fire("C03", B, "bytes_.append((arg_value >> (8 * i)) & 0xFF)", "bytes_.append((arg_value >> (4 * i)) & 0xFF)")
fire("C03", B, "                    if n_instructions != _n_args(instruction, new_arg_value):\n", "                    if n_instructions < _n_args(instruction, new_arg_value) - 1:\n")
fire("C03", B, "            n_args = _n_args(instruction, arg_value)\n            # Duplicate", "            n_args = _instrsize(arg_value)\n            # Duplicate")
fire("C03", B, "    constants = FromArgs[ConstantValue](_hash_fn=constant_key)", "    constants = FromArgs[ConstantValue]()")
fire("C03", B, "        if sorted(self._i_to_arg) != list(range(len(self._i_to_arg))):", "        if self._i_to_arg and max(self._i_to_arg) < len(self._i_to_arg) - 1:")
fire("C03", B, "            if self._hash_fn(self._i_to_arg[i]) != self._hash_fn(arg):", "            if self._i_to_arg[i] != arg:", "the original defect")
silent(["C03", "C06", "C09"], B, "        if sorted(self._i_to_arg) != list(range(len(self._i_to_arg))):", "        if set(self._i_to_arg) != set(range(len(self._i_to_arg))):", "equivalent guard")
fire("C03", B, "        if sorted(self._i_to_arg) != list(range(len(self._i_to_arg))):", "        if self._i_to_arg and max(self._i_to_arg) != len(self._i_to_arg) - 1:", "NOT equivalent: a negative override hides a gap ({-1, 0, 2}) - this edit was listed as 'silent' until seed C03-13 showed the input")
silent(["C03"], B, "        if sorted(self._i_to_arg) != list(range(len(self._i_to_arg))):", "        if self._i_to_arg and (min(self._i_to_arg) != 0 or max(self._i_to_arg) != len(self._i_to_arg) - 1):", "equivalent guard (keys are distinct ints)")
silent(["C03"], B, "return 1 if arg <= 0xFF else 2 if arg <= 0xFFFF else 3 if arg <= 0xFFFFFF else 4", "return 1 if arg < 0x100 else 2 if arg < 0x10000 else 3 if arg < 0x1000000 else 4", "same thresholds")
# ---- C10
fire("C10", L, "and prev_item.bytecode_offset >= (254 if is_linetable else 255)", "and prev_item.bytecode_offset >= (255 if is_linetable else 255)")
fire("C10", L, "    MAX_BYTECODE = 254 if is_linetable else 255", "    MAX_BYTECODE = 255")
fire("C10", L, "                line_offset -= 127\n", "                line_offset -= 128\n")
fire("C10", L, "or prev_item.line_offset <= (-127 if is_linetable else -128)", "or prev_item.line_offset <= -127")
fire("C10", L, "            if is_linetable and i.line_offset == -128", "            if i.line_offset == -128")
fire("C10", L, 'line_offset=int.from_bytes([b[i + 1]], "big", signed=True),', 'line_offset=int.from_bytes([b[i + 1]], "big", signed=False),')
fire("C10", L, "            while line_offset is not None and line_offset > 127:", "            while line_offset is not None and line_offset >= 127:")
silent(["C10"], L, "and prev_item.bytecode_offset >= (254 if is_linetable else 255)", "and prev_item.bytecode_offset == (254 if is_linetable else 255)", "same set on the format's domain")
silent(["C10"], L, "                    item.line_offset & 255,", "                    item.line_offset % 256,", "same byte")
fire("C11", C, "    if not freevars and not cellvars:", "    if not freevars:", "NOFREE although there are cell variables")
fire("C11", C, "    if code_data._nested:", "    if not code_data._nested:", "inverted polarity")
# ---- multi-site equivalent rewrites: (file, [(old, new), ...])
M.append(dict(kind="silent", pid=["C13", "C02"], file=B, old="    targets_set = {0}", new="    targets_set = set()",
              more=[("    targets = sorted(targets_set)", "    targets = sorted({0} | targets_set)")], why="0 added when the list is built"))
# ---- rules added after the round-3 seeded changes: each must fire on the defect and stay silent on the sound variant
FL = "code_data/_flags_data.py"
fire("C01", L, "            switching_sections = line_number != section_line_number", "            switching_sections = line_number is not section_line_number", "identity of ints (R01.9)")
fire("C01", B, "            instruction = replace(\n                instruction,\n                arg=replace(\n                    instruction.arg,\n                    target=targets.index(instruction.arg.target),\n                ),\n            )",
     "            instruction = Instruction(\n                name=instruction.name,\n                arg=Jump(targets.index(instruction.arg.target), instruction.arg.relative),\n                _n_args_override=instruction._n_args_override,\n                line_number=instruction.line_number,\n            )", "partial rebuild (R01.8)")
silent(["C01", "C02", "C13"], B, "            instruction = replace(\n                instruction,\n                arg=replace(\n                    instruction.arg,\n                    target=targets.index(instruction.arg.target),\n                ),\n            )",
       "            instruction = Instruction(\n                name=instruction.name,\n                arg=Jump(targets.index(instruction.arg.target), instruction.arg.relative),\n                _n_args_override=instruction._n_args_override,\n                line_number=instruction.line_number,\n                _line_offsets_override=instruction._line_offsets_override,\n            )", "complete rebuild")
fire("C09", B, "    found_varnames = ToArgs(varnames, {i: i for i in range(len(args))})",
     "    n_seed = len(args.positional_only) + len(args.positional_or_keyword) + len(args.keyword_only)\n    found_varnames = ToArgs(varnames, {i: i for i in range(n_seed)})", "seed count without *args / **kwargs")
silent(["C09", "C01"], B, "    found_varnames = ToArgs(varnames, {i: i for i in range(len(args))})",
       "    n_seed = (\n        len(args.positional_only)\n        + len(args.positional_or_keyword)\n        + len(args.keyword_only)\n        + (1 if args.var_positional is not None else 0)\n        + (1 if args.var_keyword is not None else 0)\n    )\n    found_varnames = ToArgs(varnames, {i: i for i in range(n_seed)})", "the same count spelled as a sum")
M.append(dict(kind="fire", pid="C02", file=B, old="        arg |= b[i + 1]\n", new="        arg = b[i + 1] | ext\n",
              more=[("    arg: int = 0\n    for i in range(0, len(b), 2):", "    ext: int = 0\n    for i in range(0, len(b), 2):"), ("            arg = arg << 8\n", "            ext = b[i + 1] << 8\n"),
                    ("            if arg > _c_int_upper_limit:\n                arg -= _c_int_length\n", "            if ext > _c_int_upper_limit:\n                ext -= _c_int_length\n"),
                    ("            n_args = 0\n            arg = 0\n", "            n_args = 0\n            ext = 0\n")], why="only the last prefix is kept (R02.7)"))
M.append(dict(kind="silent", pid=["C02", "C13", "C01"], file=B, old="        arg |= b[i + 1]\n", new="        arg = b[i + 1] | ext\n",
              more=[("    arg: int = 0\n    for i in range(0, len(b), 2):", "    ext: int = 0\n    for i in range(0, len(b), 2):"), ("            arg = arg << 8\n", "            ext = arg << 8\n"),
                    ("            if arg > _c_int_upper_limit:\n                arg -= _c_int_length\n", "            if ext > _c_int_upper_limit:\n                ext -= _c_int_length\n"),
                    ("            n_args = 0\n            arg = 0\n", "            n_args = 0\n            ext = 0\n")], why="dis-style accumulation, every prefix shifted up"))
fire("C03", B, "            offset = len(bytes_)\n\n            line_mapping.offset_to_line[offset]", "            offset = len(bytes_) + 2\n\n            line_mapping.offset_to_line[offset]", "line not keyed at the first unit (R03.8)")
fire("C10", L, "            if item.line_offset is not None:\n                current_line += item.line_offset\n", "            if item.line_offset is None:\n                current_line = 0\n            else:\n                current_line += item.line_offset\n", "running line reset (R10.5)")
silent(["C10", "C02"], L, "            if item.line_offset is not None:\n                current_line += item.line_offset\n", "            if item.line_offset is not None:\n                current_line = current_line + item.line_offset\n", "same running sum")
fire("C03", B, "    return 1 if arg <= 0xFF else 2 if arg <= 0xFFFF else 3 if arg <= 0xFFFFFF else 4", "    n = 1\n    while n < 4 and arg > (1 << (8 * n)):\n        n += 1\n    return n", "loop form, off by one at the boundaries")
silent(["C03", "C05", "C01"], B, "    return 1 if arg <= 0xFF else 2 if arg <= 0xFFFF else 3 if arg <= 0xFFFFFF else 4", "    n = 1\n    while n < 4 and arg >= (1 << (8 * n)):\n        n += 1\n    return n", "loop form, right thresholds")
fire("C03", B, "            isinstance(block_type, Function) and block_type.docstring is None\n", "            isinstance(block_type, Function) and block_type.type is None and block_type.docstring is None\n", "docstring pin only for plain functions")
silent(["C04"], A, "    positional_or_keyword, varnames = (\n        varnames[:pos_or_kw_count],\n        varnames[pos_or_kw_count:],\n    )", "    positional_or_keyword, varnames = (\n        varnames[:pos_or_kw_count][-pos_or_kw_count:],\n        varnames[pos_or_kw_count:],\n    )", "x[:k][-k:] is x[:k] also for k == 0 (the slice is empty)")
M.append(dict(kind="fire", pid="C04", file=A, old="    positional_only, varnames = (\n        varnames[:posonlyargcount],\n        varnames[posonlyargcount:],\n    )\n", new="    positional, varnames = varnames[:argcount], varnames[argcount:]\n    positional_only = positional[:posonlyargcount]\n",
              more=[("    positional_or_keyword, varnames = (\n        varnames[:pos_or_kw_count],\n        varnames[pos_or_kw_count:],\n    )", "    positional_or_keyword = positional[-pos_or_kw_count:]")], why="x[-0:] is everything when every positional is positional-only"))
M.append(dict(kind="silent", pid=["C04"], file=A, old="    positional_only, varnames = (\n        varnames[:posonlyargcount],\n        varnames[posonlyargcount:],\n    )\n", new="    positional, varnames = varnames[:argcount], varnames[argcount:]\n    positional_only = positional[:posonlyargcount]\n",
              more=[("    positional_or_keyword, varnames = (\n        varnames[:pos_or_kw_count],\n        varnames[pos_or_kw_count:],\n    )", "    positional_or_keyword = positional[posonlyargcount:]")], why="same split, sound"))
fire("C11", C, "    if code_data._nested:\n        flags_data |= {\"NESTED\"}", "    if isinstance(code_data.type, Function) and code_data._nested:\n        flags_data |= {\"NESTED\"}", "flag written back for functions only")
fire("C05", C, "    if code_data.future_annotations:\n        flags_data |= {\"annotations\"}", "    if isinstance(code_data.type, Function) and code_data.future_annotations:\n        flags_data |= {\"annotations\"}", "future flag written back for functions only")
M.append(dict(kind="fire", pid="C11", file=FL, old='        raise ValueError(f"Unknown flag bits: {not_covered:#x}")', new='        raise ValueError(f"Unknown flag bits: {not_covered:#x} in {_CodeFlag(flags)!r}")',
              more=[("        if f not in _CodeFlag:\n            raise ValueError(f\"Flag {f} is not a known flag\")\n        flags_data.add(f.name)", "        if f.name is not None:\n            flags_data.add(f.name)")], why="pseudo-member registered and then accepted (R11.9)"))
silent(["C11"], FL, '        raise ValueError(f"Unknown flag bits: {not_covered:#x}")', '        raise ValueError(f"Unknown flag bits: {not_covered:#x} in {_CodeFlag(flags)!r}")', "registration alone is harmless: unnamed members are rejected")
fire("C06", N, "        return cast(\n            T,\n            replace(\n                x,\n                blocks=normalize(x.blocks),\n                _additional_args=(),\n                _additional_line=None,\n                _nested=False,\n            ),\n        )",
     "        x = replace(x, blocks=normalize(x.blocks), _additional_args=(), _additional_line=None)\n        if x.type is not None:\n            x = replace(x, _nested=False)\n        return cast(T, x)", "conditional reset (R06.1)")
silent(["C06", "C05"], N, "        return cast(\n            T,\n            replace(\n                x,\n                blocks=normalize(x.blocks),\n                _additional_args=(),\n                _additional_line=None,\n                _nested=False,\n            ),\n        )",
       "        x = replace(x, blocks=normalize(x.blocks), _additional_args=(), _additional_line=None)\n        x = replace(x, _nested=False)\n        return cast(T, x)", "same resets in two steps")
M.append(dict(kind="fire", pid="C07", file=J, old="from base64 import b64decode, b64encode", new="from base64 import b64decode, urlsafe_b64encode",
              more=[('return {"bytes": b64encode(value).decode("ascii")}', 'return {"bytes": urlsafe_b64encode(value).decode("ascii")}')], why="alphabets differ (R07.1 codec pair)"))
M.append(dict(kind="silent", pid=["C07", "C06"], file=J, old="from base64 import b64decode, b64encode", new="from base64 import b64decode, standard_b64encode",
              more=[('return {"bytes": b64encode(value).decode("ascii")}', 'return {"bytes": standard_b64encode(value).decode("ascii")}')], why="same alphabet"))
fire("C07", J, '        return {"frozenset": list(map(value_to_json, value))}', '        return {"frozenset": sorted(map(value_to_json, value))}', "orders dicts (R07.7)")
fire("C07", I, "    _arg: int = field(default=0)", "    _arg: int = field(default=0, compare=False)", "hidden default of a field that does not compare (R07.4)")
fire("C08", "code_data/_constants.py", "    if isinstance(value, CodeData):\n        return value\n", "    if isinstance(value, CodeData):\n        return (CodeData, value.name, value.filename, value.first_line_number)\n", "coarse key of nested code")
silent(["C08", "C03"], "code_data/_constants.py", "    if isinstance(value, CodeData):\n        return value\n", "    if isinstance(value, CodeData):\n        return (CodeData, value)\n", "whole value inside a tuple")
M.append(dict(kind="fire", pid="C15", file=J, old="from ast import literal_eval\n", new="import re\nfrom ast import literal_eval\n",
              more=[('            return int(value["int"])', '            if not re.fullmatch(r"-?(?a)\\d+", value["int"]):\n                raise ValueError("int")\n            return int(value["int"])')], why="global flag in the middle (R15.4)"))
M.append(dict(kind="silent", pid=["C15"], file=J, old="from ast import literal_eval\n", new="import re\nfrom ast import literal_eval\n",
              more=[('            return int(value["int"])', '            re.fullmatch(r"(?a)-?\\d+", value["int"])\n            return int(value["int"])')], why="flag at the start (no new rejection path: R07.R would answer 'not decided')"))
fire("C15", J, "                cast(float, constant_value_from_json(value[\"real\"])),", "                cast(tuple[float, float], (constant_value_from_json(value[\"real\"]), 0))[0],", "PEP 585 subscript evaluated at run time")
fire("C16", "code_data/_cli.py", 'parser = argparse.ArgumentParser(description="Inspect Python code objects.")', 'parser = argparse.ArgumentParser(description="Inspect Python code objects.", fromfile_prefix_chars="@")', "@file expansion (R16.7)")
silent(["C16"], "code_data/_cli.py", 'parser = argparse.ArgumentParser(description="Inspect Python code objects.")', 'parser = argparse.ArgumentParser(description="Inspect Python code objects.", epilog="See the docs.")', "presentation only")
fire("C12", J, "    if is_dataclass(value):\n        return {", "    if isinstance(value, (Jump, Name)):\n        return vars(value)\n    if is_dataclass(value):\n        return {", "hands out the instance dictionary")
fire("C10", L, "    while (bytecode_offset < max_offset) or current_item_offset < len(items):", "    while bytecode_offset < max_offset:", "trailing entries never consumed (R10.6)")
silent(["C10"], L, "    while (bytecode_offset < max_offset) or current_item_offset < len(items):", "    while current_item_offset < len(items) or bytecode_offset < max_offset:", "same test, other order")
# ---- rules added after the round-4 seeded changes
CLI = "code_data/_cli.py"
fire("C16", CLI, "    args = parser.parse_args()", "    args, _ = parser.parse_known_args()", "surplus arguments ignored (R16.8)")
fire("C16", CLI, '        source = eval(eval_, {"linesep": linesep})', '        source = eval(eval_, {"__builtins__": {}, "linesep": linesep})', "-e without builtins (R16.2)")
M.append(dict(kind="fire", pid="C16", file=CLI, old='        source = cmd.replace("\\\\n", "\\n")', new='        source = textwrap.dedent(cmd.replace("\\\\n", "\\n"))',
              more=[("import argparse\n", "import argparse\nimport textwrap\n")], why="-c text rewritten (R16.2)"))
silent(["C16"], CLI, '        source = cmd.replace("\\\\n", "\\n")', '        unescaped = cmd.replace("\\\\n", "\\n")\n        source = unescaped', "same text through a local")
fire("C03", L, "                if line_number is not None:\n                    last_section_line_number = line_number\n        # If we added any bytecode",
     "                last_section_line_number = line_number or last_section_line_number\n        # If we added any bytecode", "line 0 treated as no line (R03.9 / R10.7)")
fire("C03", B, "        index = len(self)\n        self[index] = arg\n        return index", "        index = len(self)\n        self._i_to_arg[index] = arg\n        self._arg_to_i[hash_] = index\n        return index", "collision check bypassed (R03.2)")
fire("C04", I, "    def __len__(self) -> int:\n        \"\"\"", "    def __post_init__(self) -> None:\n        object.__setattr__(self, \"keyword_only\", tuple(sorted(self.keyword_only)))\n\n    def __len__(self) -> int:\n        \"\"\"", "fields re-ordered at construction (R04.8)")
fire("C08", I, "        if not isinstance(__o, Constant):\n            return False", "        if not isinstance(__o, Constant):\n            return self._index_override is None and constant_key(self.constant) == constant_key(__o)  # type: ignore", "equal to a bare value (R08.2)")
fire("C02", B, "    elif opcode < HAVE_ARGUMENT:\n        return NoArg(arg)", "    elif opcode < HAVE_ARGUMENT or dis.opname[opcode] == \"RERAISE\":\n        return NoArg(arg)", "RERAISE classed as argument-less (R02.2)")
silent(["C02", "C05"], B, "    elif opcode < HAVE_ARGUMENT:\n        return NoArg(arg)", "    elif not opcode >= HAVE_ARGUMENT:\n        return NoArg(arg)", "same class of opcodes")
fire("C05", L, "                    else line_number - last_section_line_number\n", "                    else line_number - (section_line_number or 0)\n", "delta against a possibly missing line (R10.7)")
fire("C13", B, "        return Jump(next_offset + ((2 if _ATLEAST_310 else 1) * arg), True)", "        if not arg:\n            return arg\n        return Jump(next_offset + ((2 if _ATLEAST_310 else 1) * arg), True)", "a relative jump of distance 0 is no jump (R02.1 via R13.J)")
fire("C02", L, "            if line_number is not None:\n                self.offset_to_line[offset] += line_offset  # type: ignore", "            if line_number is not None and line_number >= 0:\n                self.offset_to_line[offset] += line_offset  # type: ignore", "negative relative lines left unshifted (R01.5)")
fire("C09", B, "            self[index_override] = arg\n            return index_override", "            self._i_to_arg[index_override] = arg\n            return index_override", "pinned entries not found by key (R09.6)")
fire("C11", B, "        + tuple(Cellvar(*xs) for xs in found_cellvars.additional_args())", "        + tuple(Cellvar(*xs) for xs in found_cellvars.additional_args() if xs[0] not in args.parameters)", "unreferenced entries filtered (R09.3 via R11.U)")
fire("C11", C, "    flags_data = to_flags_data(code.co_flags)", "    flags_data = to_flags_data(code.co_flags & 0x7FFFFFFF)", "bits masked before the unknown-bits test (R11.1)")
silent(["C11"], C, "    flags_data = to_flags_data(code.co_flags)", "    flag_word = code.co_flags\n    flags_data = to_flags_data(flag_word)", "same word through a local")
M.append(dict(kind="fire", pid="C12", file=I, old="        return code_data_from_json(json_data)", new="        limit = sys.getrecursionlimit()\n        sys.setrecursionlimit(max(limit, 20000))\n        res = code_data_from_json(json_data)\n        sys.setrecursionlimit(limit)\n        return res",
              more=[("from collections import OrderedDict\n", "import sys\nfrom collections import OrderedDict\n")], why="process setting not restored on failure (R12.7)"))
M.append(dict(kind="silent", pid=["C12"], file=I, old="        return code_data_from_json(json_data)", new="        limit = sys.getrecursionlimit()\n        sys.setrecursionlimit(max(limit, 20000))\n        try:\n            return code_data_from_json(json_data)\n        finally:\n            sys.setrecursionlimit(limit)",
              more=[("from collections import OrderedDict\n", "import sys\nfrom collections import OrderedDict\n")], why="restored in a finally"))
fire("C10", L, "        if is_linetable:\n            expand_line()\n            expand_bytecode()", "        if line_offset is not None and -128 <= line_offset <= 127 and bytecode_offset <= MAX_BYTECODE:\n            expanded_items.append(LineTableItem(line_offset=line_offset, bytecode_offset=bytecode_offset))\n            continue\n        if is_linetable:\n            expand_line()\n            expand_bytecode()", "shortcut admits -128 for linetable (R10.2)")
silent(["C10"], L, "        if is_linetable:\n            expand_line()\n            expand_bytecode()", "        if line_offset is not None and MIN_LINE <= line_offset <= 127 and bytecode_offset <= MAX_BYTECODE:\n            expanded_items.append(LineTableItem(line_offset=line_offset, bytecode_offset=bytecode_offset))\n            continue\n        if is_linetable:\n            expand_line()\n            expand_bytecode()", "shortcut within one entry of either format")
fire("C11", A, "    if args.var_positional is not None:\n        flags_data |= {\"VARARGS\"}", "    if args.var_positional:\n        flags_data |= {\"VARARGS\"}", "the original defect: '' is a name (R11.T)")
fire("C10", L, "                if is_linetable and line_offset is not None:\n                    line_offset = 0", "                if is_linetable:\n                    line_offset = 0", "the original defect: no-line marker lost in continuation entries (R10.3)")
fire("C10", L, "            # A range without a line is continued without a line, not with a 0\n            and prev_item.line_offset is not None\n", "", "the original defect: (n, 0) merged into a no-line entry (R10.1)")
fire("C14", I, "                    and arg not in seen\n                ):\n                    seen.add(arg)", "                    and arg.constant not in seen\n                ):\n                    seen.add(arg.constant)", "the once-only set keyed by value (R14.4)")
M.append(dict(kind="fire", pid="C11", file=B, old="            unit_line = line_mapping.offset_to_line.pop(i, instruction.line_number)\n", new="            line_mapping.offset_to_line.pop(i, None)\n            unit_line = instruction.line_number\n", why="later units' lines dropped silently (R11.L)"))
fire("C12", "code_data/_constants.py", "    if isinstance(value, tuple):\n        return tuple(map(from_constant, value))\n", "", "the argument's own tuples handed to CodeType (R12.8)")
fire("C16", "code_data/_cli.py", "        code = compile(pathlib.Path(file).read_bytes(), file, \"exec\")", "        code = compile(pathlib.Path(file).read_text(), file, \"exec\")", "the original defect: file decoded before compiling (R16.6)")
fire("C07", J, "        return Name(**{**value, \"name\": string_from_json(value[\"name\"])})", "        return Name(**value)", "the original defect: tagged name stored as a dict (R07.2)")
fire("C08", "code_data/_constants.py", "        return frozenset(Counter(map(constant_key, value)).items())", "        return frozenset(map(constant_key, value))", "the original defect: multiplicity of equal keys lost (R08.4)")
fire("C11", C, "        if args:\n            raise AssertionError(\"if this isn't a function, it shouldn't have args\")", "        assert not args, \"if this isn't a function, it shouldn't have args\"", "the original defect: guard vanishes under -O (R11.A)")
fire("C03", B, "            if self._hash_fn(self._i_to_arg[i]) != self._hash_fn(arg):\n                raise AssertionError(f\"Two different args at index {i}\")", "            assert self._hash_fn(self._i_to_arg[i]) == self._hash_fn(arg), f\"Two different args at index {i}\"", "the original defect: collision guard vanishes under -O (R03.G)")
fire("C10", L, "            and item.line_offset is not None\n            and (item.line_offset > 0) == (prev_item.line_offset > 0)\n", "", "the original defect: opposite-sign entry merged as a continuation (R10.1)")
M.append(dict(kind="fire", pid="C03", file=B, old="    # Now that we know the total number of cellvars, incremement all the freevar\n    # indices by the number of cellvars, for each arg\n    for block_index, block in enumerate(blocks):\n        for instruction_index, instruction in enumerate(block):\n            arg = instruction.arg\n            if isinstance(arg, Freevar):\n                args[block_index, instruction_index] += len(cellvars)\n\n    # Iterate through all blocks", new="    # Iterate through all blocks",
              more=[("    # Finally go assemble the bytes and the line mapping\n", "    for block_index, block in enumerate(blocks):\n        for instruction_index, instruction in enumerate(block):\n            arg = instruction.arg\n            if isinstance(arg, Freevar):\n                args[block_index, instruction_index] += len(cellvars)\n\n    # Finally go assemble the bytes and the line mapping\n")], why="the original defect: an operand grows after the layout (R03.7)"))
M.append(dict(kind="fire", pid="C03", file=B, old="    _hash_fn: Callable[[T], Hashable] = field(default=_identity)\n\n    def __setitem__", new="    _hash_fn: Callable[[T], Hashable] = field(default=hash)\n\n    def __setitem__", why="the original defect: tables keyed by hash (R03.3)"))
fire("C03", L, "        # Stays none if there is no bytecode\n        bytecode_offset = None\n", "", "the original defect: loop variable read after an empty loop (R03.U)")
# ---- rules added after the round-5 seeded changes
H = "code_data/dataclass_hide_default.py"
fire("C02", B, "            arg = arg << 8\n",
     "            arg = b[i + 1] << 8\n", "only the last prefix is carried (R02.7 / R02.8)")
M.append(dict(kind="fire", pid="C02", file=B, old="            arg = arg << 8\n",
              new="            arg = (arg & 0xFF) << 8\n",
              why="one-prefix case right, two prefixes wrong (R02.8)"))
M.append(dict(kind="silent", pid=["C02", "C09", "C13", "C03"], file=B, old="        arg |= b[i + 1]\n        n_args += 1\n", new="        arg = arg | b[i + 1]\n        n_args += 1\n",
              more=[("            arg = arg << 8\n", "            arg = arg * 256\n")], why="same accumulation spelled with * 256"))
fire("C02", "code_data/_constants.py", "    if isinstance(value, (str, type(None), type(...))):", "    if isinstance(value, (str, type(None))):", "Ellipsis constants have no key: from_code raises (R02.K)")
silent(["C02", "C08"], "code_data/_constants.py", "    if isinstance(value, (bool, int, bytes)):\n        return (type(value), value)", "    tp = type(value)\n    if tp in (bool, int, bytes):\n        return (tp, value)", "exact-type dispatch, same key")
fire("C08", I, "        if not isinstance(__o, Constant):\n            return False\n", "        if not isinstance(__o, Constant):\n            return False\n        if self.constant is __o.constant:\n            return True\n", "shortcut skips the override (R08.2)")
silent(["C08", "C14"], I, "        if not isinstance(__o, Constant):\n            return False\n", "        if self is __o:\n            return True\n        if not isinstance(__o, Constant):\n            return False\n", "identity shortcut on the whole value")
fire("C14", I, "        if self._index_override != __o._index_override:", "        if self._index_override is not __o._index_override:", "identity of ints in __eq__ (R14.T / R08.2)")
fire("C10", L, "            (item if is_linetable else prev_item).line_offset == 0\n", "            0 in (item.line_offset, prev_item.line_offset)\n", "(254,0)(n,d) merged on 3.10 (R10.1)")
silent(["C10", "C01"], L, "            (item if is_linetable else prev_item).line_offset == 0\n", "            (item.line_offset if is_linetable else prev_item.line_offset) == 0\n", "same side test")
fire("C10", L, "    while (bytecode_offset < max_offset) or current_item_offset < len(items):\n",
     "    while (bytecode_offset < max_offset) or current_item_offset < len(items):\n        if bytecode_offset >= max_offset:\n            for item in items[current_item_offset:]:\n                current_line += cast(int, item.line_offset)\n            offset_to_line[bytecode_offset] = current_line\n            break\n",
     "entries behind the code folded into one (R10.5)")
fire("C09", B, "        if index not in self._index_to_order:\n            self._index_to_order[index] = len(self._index_to_order)\n        wrong_position = (\n            self._index_to_order[index] != index or index in self._duplicates\n        )",
     "        order = self._index_to_order.get(index)\n        if not order:\n            order = self._index_to_order[index] = len(self._index_to_order)\n        wrong_position = order != index or index in self._duplicates", "rank 0 is falsy (R09.7)")
silent(["C14", "C11"], B, "        if index not in self._index_to_order:\n            self._index_to_order[index] = len(self._index_to_order)\n        wrong_position = (\n            self._index_to_order[index] != index or index in self._duplicates\n        )",
       "        order = self._index_to_order.get(index)\n        if order is None:\n            order = self._index_to_order[index] = len(self._index_to_order)\n        wrong_position = order != index or index in self._duplicates", "one lookup, None test (C09's shape rules say exit 2, C14/C11 stay silent)")
fire("C14", B, "        for i in range(len(self._args)):\n            if i not in self._index_to_order:", "        for i in range(min(len(self._args), max(self._index_to_order, default=0) + 1)):\n            if i not in self._index_to_order:", "unreferenced entries behind the last used one dropped (R14.T)")
fire("C12", J, "def constant_value_from_json(value: object) -> object:", "SPECIALS = zip((\"inf\",), (float(\"inf\"),))\n\n\ndef constant_value_from_json(value: object) -> object:\n    for _n, _v in SPECIALS:\n        pass", "module-level one-shot iterator (R12.P)")
silent(["C12", "C07"], J, "def constant_value_from_json(value: object) -> object:", "SPECIALS = tuple(zip((\"inf\",), (float(\"inf\"),)))\n\n\ndef constant_value_from_json(value: object) -> object:\n    for _n, _v in SPECIALS:\n        pass", "the same table as a tuple")
fire("C07", H, "    return getattr(value, f.name) == default", "    return getattr(value, f.name) == default or not getattr(value, f.name)", "falsy values hidden as defaults (R07.4)")
silent(["C07", "C16", "C15"], H, "    return getattr(value, f.name) == default", "    current = getattr(value, f.name)\n    return current == default", "same predicate through a local")
fire("C15", J, "def strings_from_json(value: list) -> tuple:\n", "def strings_from_json(value: list) -> tuple:\n    for _s in value:\n        if isinstance(_s, str) and not _s.isprintable():\n            raise ValueError(_s)\n", "Unicode-database predicate on document data (R15.2)")
fire("C16", "code_data/_cli.py", "        code = compile(pathlib.Path(file).read_bytes(), file, \"exec\")", "        code = compile(pathlib.Path(file).read_bytes(), os.path.abspath(file), \"exec\")", "filename rewritten (R16.6)")
silent(["C16"], "code_data/_cli.py", "        code = compile(pathlib.Path(file).read_bytes(), file, \"exec\")", "        code = compile(pathlib.Path(file).read_bytes(), os.fspath(file), \"exec\")", "fspath is the path as given")
fire("C11", A, "        argcount=len(args.positional_only) + len(args.positional_or_keyword),", "        argcount=len(set(args.positional_only)) + len(args.positional_or_keyword),", "counts distinct names (R11.C)")
fire("C06", J, "        value = copy(value)\n        if isinstance(value[\"constant\"], dict)", "        if isinstance(value[\"constant\"], dict)", "document mutated while loading (R06.M)")
fire("C05", N, "    if isinstance(x, (Name, Varname, Cellvar)):", "    if isinstance(x, (Name, Varname)):", "Cellvar override survives while unused cells are dropped (R05.Z)")
fire("C12", "code_data/_constants.py", "    if isinstance(value, frozenset) and any(isinstance(v, tuple) for v in value):\n        return frozenset(map(from_constant, value))\n", "", "the original defect: the argument's frozensets (with tuple members) reach CodeType (R12.8)")
silent(["C12", "C03", "C05"], "code_data/_constants.py", "        return frozenset(map(from_constant, value))\n", "        return frozenset(from_constant(v) for v in value)\n", "same copy as a generator expression")
fire("C05", "code_data/_constants.py", "    if isinstance(value, frozenset) and any(isinstance(v, tuple) for v in value):\n", "    if isinstance(value, frozenset):\n", "every frozenset rebuilt: iteration order of colliding members changes (R05.K2)")
fire("C11", B, "            n_args_override = n_args if n_args != _instrsize(arg) else None\n", "            n_args_override = None\n", "the original defect: redundant prefixes of non-jumps forgotten (R11.W)")
fire("C09", B, "            n_args_override = n_args if n_args != _instrsize(arg) else None\n", "            n_args_override = None\n", "same, under C09 (R09.W)")
silent(["C11", "C09", "C01"], B, "            n_args_override = n_args if n_args != _instrsize(arg) else None\n", "            n_args_override = None if n_args == _instrsize(arg) else n_args\n", "same width rule, other way round")
fire("C13", B, "    if invalid_targets:\n", "    if False and invalid_targets:\n", "the original defect: jumps into the middle of an instruction accepted (R13.6)")
fire("C13", B, "    invalid_targets = targets_set - instruction_offsets - {0}\n", "    invalid_targets = targets_set - instruction_offsets - {0} - {len(b)}\n", "a jump past the last instruction accepted (R13.6)")
silent(["C13", "C02", "C01"], B, "    invalid_targets = targets_set - instruction_offsets - {0}\n", "    invalid_targets = {t for t in targets_set if t and t not in instruction_offsets}\n", "same test as a comprehension")
fire("C08", "code_data/_constants.py", "    if isinstance(value, (str, type(None), type(...))):\n        return value\n", "    if isinstance(value, (str, type(None), type(...), bytes)):\n        return value\n", "the original defect: bytes are their own key (R08.4, python -bb)")
silent(["C08", "C02", "C03"], "code_data/_constants.py", "    if isinstance(value, (bool, int, bytes)):\n        return (type(value), value)\n", "    if isinstance(value, (bool, int)):\n        return (type(value), value)\n    if isinstance(value, bytes):\n        return (bytes, value)\n", "bytes tagged in an arm of their own")
fire("C07", J, "    if \"int\" in value:\n        return int(value[\"int\"])\n    if \"target\" in value:", "    if \"target\" in value:", "the original defect: a big operand written as {int} is not read back (R07.2)")
fire("C07", J, "        return NoArg(**{**value, \"_arg\": cast(int, arg_from_json(value[\"_arg\"]))})", "        return NoArg(**value)", "same for NoArg._arg (R07.2)")
fire("C11", L, "            if (bytecode_offset - last_bytecode_offset) > current_item.bytecode_offset:\n", "            if False and (bytecode_offset - last_bytecode_offset) > current_item.bytecode_offset:\n", "the original defect: an odd lnotab increment hangs the walk (R11.H)")
fire("C03", B, "        if docstring_is_none and arg_is_string and arg._index_override == 0:\n", "        if False and docstring_is_none and arg_is_string and arg._index_override == 0:\n", "the original defect: str pinned at slot 0 of a docstring-less function accepted (R03.D)")
fire("C03", B, "        if docstring_is_none and arg_is_string and arg._index_override == 0:\n", "        if docstring_is_none and arg._index_override == 0:\n", "refuses every constant pinned at 0, e.g. the None (R03.D)")
fire("C03", B, "    return max(instruction._n_args_override or 1, _instrsize(arg_value))", "    return instruction._n_args_override or _instrsize(arg_value)", "the original defect: a recorded width truncates a grown operand (R03.5)")
fire("C03", B, "                    if n_instructions != _n_args(instruction, new_arg_value):", "                    if not instruction._n_args_override and n_instructions != _instrsize(new_arg_value):", "no new layout pass when a jump outgrows its recorded width (R03.7)")
silent(["C03", "C05", "C01", "C06"], B, "    return max(instruction._n_args_override or 1, _instrsize(arg_value))", "    minimal = _instrsize(arg_value)\n    recorded = instruction._n_args_override\n    return minimal if recorded is None or recorded < minimal else recorded", "the same maximum spelled out")
fire("C11", C, "    if len(set(code.co_freevars)) != len(code.co_freevars):\n", "    if False:\n", "the original defect: repeated free variable names accepted (R11.Q)")
fire("C11", B, "        if dis.opname[opcode] not in dis.opmap:\n", "        if False:\n", "the original defect: undefined opcode bytes decoded as '<7>' (R11.O)")
silent(["C11", "C02", "C13"], B, "        if dis.opname[opcode] not in dis.opmap:\n", "        if dis.opname[opcode].startswith(\"<\"):\n", "same test through the placeholder name")
fire("C07", J, "            if not isinstance(string, str):\n                raise ValueError(f\"Expected the literal of a string: {value}\")\n", "", "the original defect: any literal accepted under {string} (R07.3)")
CLI = "code_data/_cli.py"
fire("C16", CLI, 'parser.add_argument("file", type=str, nargs="?", help="path to Python program")', 'parser.add_argument("file", type=pathlib.Path, nargs="?", help="path to Python program")', "the original defect: pathlib normalises the typed path (R16.6)")
fire("C16", CLI, "        if show_source:\n            with tokenize.open(file) as source_file:\n                source = source_file.read()\n", "        with tokenize.open(file) as source_file:\n            source = source_file.read()\n", "the original defect: text decoded without --source (R16.5)")
fire("C16", CLI, "        if show_source:\n            source = spec.loader.get_source(mod)  # type: ignore\n", "        source = spec.loader.get_source(mod)  # type: ignore\n", "same for -m (R16.5)")
# ---- folds added in the ninth working block (R10.F, R03.Y, R03.T, R03.E, R02.F, R06.N, R16.F, R11.5 as a fold, R14.6)
fire("C10", L, "            and item.bytecode_offset != 0\n            # A range without a line", "            # A range without a line", "a (254/255, d) entry followed by a zero-width entry merged (R10.F)")
fire("C10", L, "                if current_item.line_offset == 0:\n                    offset_to_additional_line_offsets[bytecode_offset].append(0)\n", "", "zero line deltas of 3.7/3.8 tables forgotten (R10.F)")
fire("C10", L, "        if line_offset != 0 or bytecode_offset != 0 or not emitted_extra:", "        if line_offset != 0 or bytecode_offset != 0:", "the closing (0, 0) entry after an exact multiple dropped (R10.F)")
fire("C10", L, "            bytecode_offset=bytecode_offset\n                    + 2\n                    - cast(int, section_bytecode_offset),", "            bytecode_offset=bytecode_offset\n                    - cast(int, section_bytecode_offset),", "last 3.10 range two bytes short (R10.F)")
silent(["C10", "C01", "C05"], L, "    MAX_BYTECODE = 254 if is_linetable else 255\n", "    MAX_BYTECODE = 255 - int(is_linetable)\n", "same limit, written as arithmetic")
silent(["C10", "C01"], L, "    for i in range(len(items) - 1, 0, -1):\n", "    for i in reversed(range(1, len(items))):\n", "same walk from the end")
fire("C10", L, "                tuple(self.offset_to_additional_line_offsets.pop(next_offset, list())),", "                tuple(self.offset_to_additional_line_offsets.get(next_offset + 2, list())),", "trailing entries looked up at the wrong offset (R10.E / R11.5)")
fire("C11", L, "        if self.offset_to_line:\n            if set(self.offset_to_line.keys()) != {next_offset}:", "        if self.offset_to_line:\n            if next_offset not in self.offset_to_line:", "other leftover lines dropped silently (R11.5)")
silent(["C11", "C10", "C01"], L, "        if self.offset_to_additional_line_offsets and set(\n            self.offset_to_additional_line_offsets.keys()\n        ) != {next_offset}:",
       "        if set(self.offset_to_additional_line_offsets) - {next_offset}:", "same leftover test as a set difference")
fire("C03", B, "                bytes_.append((arg_value >> (8 * i)) & 0xFF)", "                bytes_.append((arg_value >> (8 * (n_args - 1 - i))) & 0xFF)", "operand bytes little-endian (R03.Y / R03.E)")
fire("C03", B, "            block_index_to_instruction_offset[block_index] = current_instruction_offset\n", "            block_index_to_instruction_offset[block_index] = current_instruction_offset + (1 if block_index else 0)\n", "block starts one unit late (R03.E)")
fire("C03", B, "                args[block_index, instruction_index] += len(cellvars)", "                args[block_index, instruction_index] += len(freevars)", "free variables shifted by the wrong table (R03.E)")
fire("C03", B, "        if hash_ in self._arg_to_i:\n            return self._arg_to_i[hash_]\n", "", "an entry met twice gets two positions (R03.T)")
silent(["C03", "C01", "C05"], B, "        index = len(self)\n        self[index] = arg\n        return index", "        index = len(self._i_to_arg)\n        self[index] = arg\n        return index", "same count read from the dict")
fire("C02", B, "        return Freevar(freevars[arg - len(found_cellvars)])", "        return Freevar(freevars[arg - len(found_cellvars) - 1])", "free variable index off by one, hidden by negative indexing for the first (R02.F)")
fire("C13", B, "                    target=targets.index(instruction.arg.target),", "                    target=min(targets.index(instruction.arg.target), len(blocks)),", "forward jumps clamped to the blocks built so far (R13.F / R02.F)")
fire("C06", N, "                _additional_line=None,\n", "", "trailing line survives normalization (R06.N)")
fire("C06", N, "        return cast(T, tuple(map(normalize, x)))", "        return cast(T, tuple(map(normalize, x[:8])) + x[8:])", "only the first eight elements are normalized (R06.N)")
silent(["C06", "C05"], N, "        return cast(T, tuple(map(normalize, x)))", "        return cast(T, tuple(normalize(e) for e in x))", "same map as a generator")
fire("C16", CLI, "    if not no_normalize:\n        code_data = normalize(code_data)\n    console.print(code_data)", "    console.print(code_data)\n    if not no_normalize:\n        code_data = normalize(code_data)", "prints before normalizing (R16.F)")
fire("C16", CLI, "        json_data = code_data.to_json_data()", "        json_data = CodeData.from_code(code).to_json_data()", "the JSON document is of the un-normalized data (R16.F)")
fire("C16", CLI, '        code = compile(source, "<string>", "exec")  # type: ignore', '        code = compile(source, "<string>", "single")  # type: ignore', "-c compiled in another mode (R16.F)")
fire("C14", "code_data/_constants.py", "    if isinstance(value, CodeType):\n        return CodeData.from_code(value)\n    return value", "    if isinstance(value, CodeType):\n        return CodeData.from_code(value)\n    if isinstance(value, tuple):\n        return tuple(map(to_constant, value))\n    return value", "code objects decoded inside tuple constants, where __iter__ does not look (R14.6)")
fire("C08", I, "class Jump(DataclassHideDefault):", "class Jump(DataclassHideDefault):\n    def __new__(cls, *args, **kwargs):\n        return super().__new__(cls)\n", "hand-written __new__ on a data class (R08.1)")

# ---- third hunt
fire("C11", B, "    if n_args:\n        raise NotImplementedError(\"EXTENDED_ARG without an instruction at the end\")\n", "", "the original defect: prefixes behind the last instruction dropped (R11.X)")
fire("C11", B, "            if n_args > 3:\n", "            if n_args > 4:\n", "a fourth prefix accepted again (R11.X)")
fire("C11", B, "        if index < 0:\n            raise NotImplementedError(f\"Negative index {index} into a table\")\n", "", "the original defect: a negative operand counted from the end (R11.X)")
fire("C11", L, "    if USE_LINETABLE and from_line_mapping(mapping) != code.co_linetable:  # type: ignore\n", "    if False:\n", "the original defect: hand-altered 3.10 tables silently rewritten (R11.H2)")
silent(["C11", "C09", "C02"], B, "        if index < 0:\n", "        if not index >= 0:\n", "same refusal, other spelling")
# ---- tenth round
fire("C16", CLI, '        code = compile(source, "<string>", "exec")  # type: ignore', '        code = compile(source, "<string>", "exec", optimize=0)  # type: ignore', "-c compiled with a fixed optimisation level (R16.F)")
silent(["C16"], CLI, '        code = compile(source, "<string>", "exec")  # type: ignore', '        code = compile(source, "<string>", "exec", dont_inherit=True)  # type: ignore', "dont_inherit changes nothing for this module")
fire("C16", I, "    _nested: bool = field(default=False)", "    _nested: bool = field(default=False, repr=False)", "a field hidden from the printed form (R16.9)")
fire("C04", C, "            constants[0] if constants and isinstance(constants[0], str) else None", "            constants[0] if constants and isinstance(constants[0], str) and sys.flags.optimize < 2 else None", "the docstring depends on -OO of the running interpreter (R04.S)")
fire("C15", N, "                _additional_args=(),\n", "                _additional_args=tuple({a for a in x._additional_args if isinstance(a, Constant)}),\n", "a tuple in set order (R15.O)")
fire("C10", L, "            and (item.line_offset > 0) == (prev_item.line_offset > 0)\n", "            and abs(prev_item.line_offset + item.line_offset) > abs(prev_item.line_offset)\n", "a step of the other sign at one address merged into a full step (R10.F raw tables)")
fire("C03", B, "        if docstring_is_none and arg_is_string and arg._index_override == 0:\n", "        if docstring_is_none and first_const and arg_is_string and arg._index_override == 0:\n", "a string pinned at 0 behind another constant is accepted (R03.E)")
