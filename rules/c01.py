"""C01 - code -> data -> code round trip is lossless in every field (DESIGN 5, R01.1-R01.5)."""
from __future__ import annotations

import ast
from typing import Dict, List, Set

import reference.contracts as C
from sa.analysis import VERSIONS, Analysis, fmt_atom, vname
from sa.feval import FevalError, feval
from sa.model import AnalysisError, loc, norm_src

from . import c11
from .common import data_classes
from .encode_model import field_reads

TABLE_ATTRS = {"co_consts", "co_names", "co_varnames", "co_freevars", "co_cellvars", "co_filename", "co_name"}
SCALAR_ATTRS = {"co_stacksize", "co_firstlineno"}


def expected_attr(slot: str) -> str:
    return "co_" + slot


def slot_composition(an: Analysis, V):
    """For each CodeType slot: which co_* attributes the value is (transitively) built from, composing encoder and decoder."""
    it_e, _ = an.interp("to_code", V)
    it_d, ret_d = an.interp("from_code", V)
    calls = c11.codetype_calls(an, V)
    if len(calls) != 1:
        raise AnalysisError(f"expected exactly one live CodeType(...) call under {vname(V)}, found {len(calls)}")
    f, call = calls[0]
    slots = C.CODE_SLOTS[V]
    res = {}
    if len(call.args) != len(slots) or call.keywords:
        return f, call, None
    for i, s in enumerate(slots):
        v = it_e.value_at(call.args[i])
        org = it_e.origins(v, stop_kinds=("call:CodeType",))  # a nested code object is a value of its own
        fields = sorted((a for a in org if a[0] == "src" and a[1] == "self"), key=str)
        attrs: Set[str] = set()
        via: Dict[str, Set[str]] = {}
        for a in fields:
            dv = it_d.navigate(ret_d, a[2])
            for o in it_d.origins(dv):
                if o[0] == "src" and o[1] == "code" and o[2] and o[2][0][0] == "a":
                    attrs.add(o[2][0][1])
                    via.setdefault(o[2][0][1], set()).add(fmt_atom(a))
        res[s] = (attrs, via, fields, call.args[i])
    return f, call, res


def run(an: Analysis, rep):
    rep.explanation = (
        "Decides necessary structural clauses of losslessness, per interpreter version: (R01.1) every positional slot of code() has "
        "its co_* attribute read by the decoder; (R01.2) role conservation - composing the encoder's provenance of each CodeType "
        "slot (which CodeData fields it is built from) with the decoder's provenance of those fields (which co_* attributes fill "
        "them), slot s is built from co_s and, for the table-like slots, from no other table; (R01.3) every field of every data "
        "class is filled input-dependently by the decoder and read by the encoder outside error messages; (R01.4) every flag the "
        "compiler can emit is consumed into a field, not rejected; (R01.5) inverse-pair constants (first-line offset sign, line-"
        "table attribute per version, posonlyargcount only where it exists). Byte equality for any particular program is not decided."
    )
    rep.rule("R01.1", "decoder reads every header field", 15)
    rep.rule("R01.2", "role conservation of every CodeType slot through decode-then-encode", 15)
    rep.rule("R01.3", "every data-class field is produced by the decoder and consumed by the encoder", 30)
    rep.rule("R01.4", "every compiler-emittable flag has a representation", 11)
    rep.rule("R01.5", "inverse-pair constants", 3)
    from .common import purity
    rep.run(purity, an, rep, "R01.P", ["from_code", "to_code"])
    from .common import assert_guard_rule as _agrx
    rep.run(_agrx, an, rep, "R01.A2", ["from_code", "to_code"])
    interps = []
    dcs = data_classes(an)
    produced_any = {}
    for V in VERSIONS:
        it_d, ret_d = an.interp("from_code", V)
        it_e, _ = an.interp("to_code", V)
        interps += [it_d, it_e]
        cfg = vname(V)
        c11.r114(an, rep, V, rule="R01.1")
        # ---- R01.2
        r012(an, rep, V)
        # ---- R01.3
        reads = field_reads(an, "to_code", V)
        for ci in dcs:
            objs = it_d.ctor_sites.get(ci.qual, set())
            for fld in ci.fields:
                vals = frozenset().union(*[it_d.hget(o, ("a", fld.name)) for o in objs]) if objs else frozenset()
                org = it_d.origins(vals)
                dep = any(a[0] == "src" and a[1] == "code" for a in org)
                consts = {a[1] for a in vals if a[0] == "const"}
                produced = dep or len(vals) >= 2
                pk = (ci.qual, fld.name)
                prev = produced_any.get(pk)
                if prev is None or (produced and not prev[0]):
                    produced_any[pk] = (produced, cfg, ("filled from the code object" if dep else f"distinct values {sorted(map(fmt_atom, vals))[:3]} on different decode paths") if produced
                                        else f"the decoder never fills {ci.name}.{fld.name} from its input (values: {sorted(map(fmt_atom, vals))[:3]}): whatever CPython stores there is lost",
                                        loc(ci.module, fld.node))
                sites = reads.get((ci.qual, fld.name), [])
                rep.add("R01.3", f"{ci.qual}.{fld.name}::consumed", bool(sites), loc(ci.module, fld.node),
                        f"read by the encoder at {sites[:3]}" if sites else
                        f"the encoder never reads {ci.name}.{fld.name} (outside error messages): two code objects that differ only in what the decoder "
                        f"stores there re-encode identically - information is lost", config=cfg)
        # ---- R01.4
        disp, top = _dispositions(an, V)
        r014(an, rep, V)
        # ---- R01.5
        r015(an, rep, V)
    from .common import SharedRules
    from . import c02, c09, c10
    rep.run(r016, an, rep)
    rep.run(r015_order, an, rep)
    rep.run(r015_every_line, an, rep)
    rep.run(r01a, an, rep)
    rep.run(r017, an, rep)
    from .common import identity_rule, rebuild_rule
    rep.run(identity_rule, an, rep, "R01.9", ["from_code", "to_code"])
    from .common import old_interpreter_rule
    rep.run(old_interpreter_rule, an, rep, "R01.V", ["from_code", "to_code"])
    rep.run(rebuild_rule, an, rep, "R01.8", ["from_code", "to_code"])
    rep.run(c09.duplicates_key_rule, an, SharedRules(rep, "R01.K", "table entries the encoder cannot tell apart by key keep their position (shared with C09's R09.2): otherwise re-encoding merges them"))
    rep.run(c09.seed_rules, an, SharedRules(rep, "R01.S", "what the decoder pre-marks in a table (docstring slot, parameter slots) is what the encoder pre-assigns (shared with C09's R09.2): otherwise the two sides number the remaining entries differently"))
    from . import c03, c04
    from .common import truthiness_rule
    rep.run(c04.r045, an, SharedRules(rep, "R01.D", "the docstring is co_consts[0] exactly when that is a str - also the empty one (shared with C04's R04.5): otherwise the encoder lays the constants out differently"))
    rep.run(c09.unreferenced_rules, an, SharedRules(rep, "R01.U", "entries no instruction references are listed, each with the override the rank function gives it (shared with C09's R09.3/R09.5): otherwise re-encoding moves them"))
    from . import c11 as _c11
    shg = SharedRules(rep, "R01.G", "every flag the decoder took into the data is written back exactly when its datum is set (shared with C11's R11.3): co_flags of the re-encoded object")
    for V in VERSIONS:
        rep.run(_c11.r113, an, shg, V, _dispositions(an, V)[0])
    shh = SharedRules(rep, "R01.H2", "the encoder lays co_varnames out as CPython does and counts the parameters from the right fields (shared with C04's R04.3 / R04.4)")
    rep.run(c04.r043, an, shh)
    rep.run(c04.r044, an, shh)
    from . import c11 as _c11q, c05 as _c05k
    rep.run(_c11q.r11q, an, SharedRules(rep, "R01.Q", "the guard that refuses repeated free variable names refuses nothing else (shared with C11's R11.Q)"), "R11.Q")
    rep.run(_c05k.r05k, an, SharedRules(rep, "R01.K2", "constants are handed to CodeType with value and type unchanged (shared with C05's R05.K2): 'constants (type- and bit-exact)'"), "R05.K2")
    from . import c08 as _c08s
    rep.run(_c08s.r083, an, SharedRules(rep, "R01.B", "what the decoder stores has the declared (hashable) shape (shared with C08's R08.3): a list in a tuple field makes from_code of the enclosing code object raise"))
    shw = SharedRules(rep, "R01.W2", "width decisions and re-layout of the encoder (shared with C03's R03.5 / R03.7): co_code of the re-encoded object")
    rep.run(c03.r03w, an, shw)
    rep.run(c03.r037, an, shw)
    rep.run(c04.r041, an, SharedRules(rep, "R01.H", "the decoder slices co_varnames into the parameter kinds by the argument counts (shared with C04's R04.1): names bound to the wrong kind re-encode with other counts / flags"))
    from .common import rejection_paths_rule
    shr = SharedRules(rep, "R01.R", "every place where from_code / to_code can stop with an exception is one confirmed by reading (shared with C02's R02.R / C03's R03.R): 'from_code succeeds' for every compiled code object")
    rep.run(rejection_paths_rule, an, shr, "R02.R", ["from_code"], c02.DECODER_REJECTIONS, "from_code")
    rep.run(rejection_paths_rule, an, shr, "R03.R", ["to_code"], c03.ENCODER_REJECTIONS, "to_code")
    rep.run(c03.r035, an, SharedRules(rep, "R01.W", "operand width thresholds (shared with C03's R03.5): an instruction whose recorded width equals the minimal one carries no override, so the encoder's size function must be CPython's"))
    rep.run(c03.r038, an, SharedRules(rep, "R01.F", "the encoder keys a line (and its extra table entries) at the first code unit of the instruction (shared with C03's R03.8)"))
    rep.run(truthiness_rule, an, rep, "R01.T", ["from_code", "to_code"], [("Instruction", "line_number"), ("AdditionalLine", "line")])
    shfold = SharedRules(rep, "R01.E", "decoder and encoder folded over witness code units / block lists / tables (shared with C02's R02.F, C03's R03.E / R03.T / R03.Y, C10's R10.F, "
                         "C11's R11.5): what the decoder reports is what CPython's disassembler reports and what the encoder writes reads back as the data - both are needed for to_code(from_code(c)) == c")
    from . import line_fold as _lf
    from . import c05 as _c05d
    rep.run(_c05d.r053, an, SharedRules(rep, "R01.D2", "the encoder reserves the first constant for None only where CPython's compiler does (shared with C05's R05.3): a comprehension whose first "
                                                       "constant is not a string must not get a None in front"))
    rep.run(c02.r02f, an, shfold)
    rep.run(c03.r03e, an, shfold)
    rep.run(c03.r03t, an, shfold)
    rep.run(c03.r03y, an, shfold)
    rep.run(_lf.fold_rule, an, shfold)
    rep.run(c11.r115, an, shfold)
    rep.run(lambda a_, r_: c04.r04f(a_, r_, roundtrip=True), an, SharedRules(rep, "R01.Y", "from_code then to_code folded over witness code objects of every kind of scope (C04's R04.W witnesses): every argument "
                                                                             "handed to CodeType equals the co_* attribute of the witness - the round trip itself, on a finite witness set"))
    rep.run(c10.format_rules, an, SharedRules(rep, "R01.L", "line-table format constants (shared with C10's R10.*): byte equality of co_lnotab / co_linetable needs them"))
    rep.run(c02.jump_rules, an, SharedRules(rep, "R01.J", "jump scale / offsets / cell-free shift on both sides (shared with C02's R02.3-R02.5): byte equality of co_code needs them"))
    for (cq, fname), (ok, cfg, why, where) in sorted(produced_any.items()):
        rep.add("R01.3", f"{cq}.{fname}::produced", ok, where, why + (f" (under {cfg})" if ok else " (under every interpreter version)"), config=cfg)
    rep.stats.update(an.stats(interps))
    rep.assumptions += ["code() constructor signatures and compiler-emittable flags as frozen in reference/contracts.py"]


def r014(an: Analysis, rep, V, rule="R01.4"):
    """Every flag a code object can legitimately carry is taken into the data (not rejected): set by the compiler from the source, copied by
    the compiler from compile(..., flags=), or set by the standard library on a function's code object."""
    cfg = vname(V)
    disp, top = _dispositions(an, V)
    groups = [(C.COMPILER_EMITTABLE, "the compiler can emit flag {N}", "(e.g. `from __future__ import {N}`)"),
              (C.EMITTABLE_VIA_COMPILE_FLAGS, "compile(..., flags=__future__.{N}.compiler_flag) - what doctest / codeop / the REPLs do - copies flag {N} into co_flags of the module and of every function in it", ""),
              (C.EMITTABLE_BY_STDLIB, "types.coroutine() sets flag {N} on the code object of a generator function", "")]
    for names, how, eg in groups:
        for N in names:
            if N not in disp:
                continue
            d = disp.get(N)
            rep.add(rule, f"flag {N} representable", d == "consumed", loc(top.module, top.node),
                    "consumed into a CodeData/Function/Args field" if d == "consumed" else
                    (how.format(N=N) + f" but the decoder's disposition for it is '{d}': from_code raises on a valid code object " + eg.format(N=N)) if d == "rejected"
                    else f"disposition '{d}'", config=cfg)


def r012(an: Analysis, rep, V):
    """Role conservation of every CodeType slot under interpreter V: slot s is built from data the decoder took from co_s (and, for tables, from no other table)."""
    cfg = vname(V)
    f, call, comp = slot_composition(an, V)
    w = loc(f.module, call)
    if comp is None:
        rep.add("R01.2", f"{f.qual}::CodeType arity", False, w,
                f"CodeType(...) is called with {len(call.args)} positional arguments; code() of {cfg} takes {len(C.CODE_SLOTS[V])}", config=cfg)
    else:
        for s, (attrs, via, fields, argnode) in comp.items():
            exp = expected_attr(s)
            if s == "nlocals":
                exp = "co_varnames"  # derived: len(varnames); the decoder rejects a differing co_nlocals (R01.1)
            key = f"{f.qual}::slot {s}"
            if exp not in attrs:
                rep.add("R01.2", key, False, w,
                        f"slot {s} of CodeType is built from {norm_src(argnode)}, whose data originates in {sorted(attrs) or 'no co_* attribute'} "
                        f"(via {sorted(fmt_atom(a) for a in fields)[:4]}), not in {exp}: the round trip cannot reproduce {exp}", config=cfg)
                continue
            foreign = set()
            if exp in TABLE_ATTRS:
                foreign = (attrs & TABLE_ATTRS) - {exp}
            elif exp in SCALAR_ATTRS:
                # a number copied through the data: nothing else may flow into it (a first line "corrected" by the lines of the instructions is another number)
                foreign = {a for a in attrs if a.startswith("co_")} - {exp}
            if s == "nlocals":
                foreign = (attrs & TABLE_ATTRS) - {"co_varnames"}
            rep.add("R01.2", key, not foreign, w,
                    f"slot {s} also receives data that the decoder took from {sorted(foreign)} (via {sorted(x for a in foreign for x in via[a])[:3]}): roles are crossed, "
                    f"e.g. names of one table are emitted into another" if foreign
                    else f"{norm_src(argnode)} <- {sorted(fmt_atom(a) for a in fields)[:3]} <- {exp}", config=cfg)


def r016(an: Analysis, rep):
    """A jump that was encoded with more than one code unit keeps that width, whatever its operand: the minimal width depends on the final layout.
    (The statements that decide the recorded width are folded over jump / other x 1..4 units x operand sizes: C11's width_rule.)"""
    from . import c11
    c11.width_rule(an, rep, "R01.6", jumps_only=True)


def r015_order(an: Analysis, rep):
    """Both shifts by the first line number cover every line of the mapping: encoder - after the last line was stored; decoder - before the first line is consumed."""
    lm = an.prog.cls("code_data._line_mapping::LineMapping")
    shift, _moved = find_line_shift(an)
    for side, entry in (("encode", "to_code"), ("decode", "from_code")):
        it, _ = an.interp(entry)
        for f in an.closure(entry):
            calls = []
            for i, st in enumerate(f.node.body):
                for c in ast.walk(st):
                    if isinstance(c, ast.Call) and shift.qual in it.callees.get(id(c), ()):
                        calls.append((i, c))
            if not calls:
                continue
            si, sc = calls[0]
            recv = it.value_at(sc.func.value)
            problems = []
            for j, st in enumerate(f.node.body):
                if j == si:
                    continue
                for c in ast.walk(st):
                    if not isinstance(c, ast.Call):
                        continue
                    # another use of the same mapping object: as receiver or as argument
                    uses = False
                    if isinstance(c.func, ast.Attribute) and it.value_at(c.func.value) & recv:
                        uses = True
                    if any(it.value_at(a) & recv for a in c.args):
                        uses = True
                    if not uses:
                        continue
                    writes = isinstance(c.func, ast.Attribute) and any(q.startswith(lm.qual + ".") and _stores_lines(an.prog.find_function(q)) for q in it.callees.get(id(c), ()))
                    consumes = any(it.value_at(a) & recv for a in c.args) or (isinstance(c.func, ast.Attribute) and not writes and c.func.attr != shift.name)
                    if side == "encode" and writes and j > si:
                        problems.append(f"`{norm_src(c)}` stores a line after the shift")
                    if side == "decode" and consumes and j < si:
                        problems.append(f"`{norm_src(c)}` reads the mapping before the shift")
            rep.add("R01.5", f"{f.qual}::first-line shift covers every line ({side})", not problems, loc(f.module, sc),
                    "; ".join(problems[:2]) + ": that line is off by co_firstlineno in the re-encoded table / decoded data" if problems
                    else f"the shift `{norm_src(sc)}` is ordered {'after every store into' if side == 'encode' else 'before every read of'} the mapping")


def r01a(an: Analysis, rep, rule="R01.A", need="consumed"):
    """What becomes of the line-table entries of the non-first code units of an instruction (the entries the decoder removes from the
    mapping besides the one it stores in Instruction.line_number): *dropped* (popped, value unused - silently lossy), *rejected* (the value is
    only compared and a mismatch raises - from_code fails on such a code object) or *consumed* (reaches the data). They are NOT always equal
    to the first unit's: the 3.8 / 3.9 peephole pass leaves line boundaries behind an EXTENDED_ARG prefix.
    need='consumed' (lossless round trip) or 'not dropped' (never silently lossy)."""
    rep.rule(rule, "the line-table entries of every code unit reach the data" if need == "consumed" else "no entry of the decoded line mapping is dropped silently", 1)
    lm = an.prog.cls("code_data._line_mapping::LineMapping")
    dict_fields = [f.name for f in lm.fields if an.tg.field_type(f)[0] == "dict"]
    it, _ = an.interp("from_code")
    n = 0
    for f in an.closure("from_code"):
        if f.cls is not None and f.cls.qual == lm.qual:
            continue
        for st in ast.walk(f.node):
            call = None
            target = None
            if isinstance(st, ast.Expr) and isinstance(st.value, ast.Call):
                call = st.value
            elif isinstance(st, ast.Assign) and isinstance(st.value, ast.Call) and len(st.targets) == 1 and isinstance(st.targets[0], ast.Name):
                call, target = st.value, st.targets[0].id
                # `tuple(mapping.field.pop(...))`: the removal sits inside a conversion
                inner = [c for c in ast.walk(st.value) if isinstance(c, ast.Call) and isinstance(c.func, ast.Attribute) and c.func.attr in ("pop", "popitem") and isinstance(c.func.value, ast.Attribute)
                         and c.func.value.attr in dict_fields]
                if inner and inner[0] is not call:
                    call = inner[0]
            if call is None or not (isinstance(call.func, ast.Attribute) and call.func.attr in ("pop", "popitem", "clear") and isinstance(call.func.value, ast.Attribute)
                                    and call.func.value.attr in dict_fields):
                continue
            fld = call.func.value.attr
            if target is None:
                disp = "dropped"
            else:
                # where does the popped value go?  only into tests that raise -> rejected; into a constructor / the returned data -> consumed
                uses = [x for x in ast.walk(f.node) if isinstance(x, ast.Name) and x.id == target and isinstance(x.ctx, ast.Load)]
                from .encode_model import parent_map
                pm = parent_map(f.module)
                in_test_only = True
                for u in uses:
                    cur = u
                    ok_u = False
                    while id(cur) in pm and pm[id(cur)] is not f.node:
                        par = pm[id(cur)]
                        if isinstance(par, (ast.If, ast.Assert)) and par.test is cur and (isinstance(par, ast.Assert) or any(isinstance(b_, ast.Raise) for b_ in par.body)):
                            ok_u = True
                        cur = par
                    in_test_only = in_test_only and ok_u
                disp = "rejected" if uses and in_test_only else ("consumed" if uses else "dropped")
                partial = None
                if disp == "consumed":
                    # consumed on one branch of an if / else only?  every use sits in one arm, the other arm (which exists and does not leave the function / loop) has none
                    for iff in ast.walk(f.node):
                        if not (isinstance(iff, ast.If) and iff.orelse and iff.lineno > st.lineno):
                            continue
                        in_body = [u for u in uses if any(u is x for b_ in iff.body for x in ast.walk(b_))]
                        in_else = [u for u in uses if any(u is x for b_ in iff.orelse for x in ast.walk(b_))]
                        for mine, other_arm, neg in ((in_body, iff.orelse, True), (in_else, iff.body, False)):
                            if mine and len(mine) == len(uses) and not any(isinstance(x, (ast.Return, ast.Raise, ast.Continue, ast.Break)) for b_ in other_arm for x in ast.walk(b_)):
                                partial = (iff, neg)
                    if partial is not None:
                        disp = "consumed on one branch only"
            n += 1
            good = disp == "consumed" or (need == "not dropped" and disp == "rejected")
            rep.add(rule, f"{f.qual}::{fld} entries of the later code units of an instruction", good, loc(f.module, st),
                    f"disposition: {disp}" if good else
                    (f"`{norm_src(st)[:70]}` removes an entry of {fld} without using it: the line information of that code unit is silently lost" if disp == "dropped" else
                     f"the entries of {fld} popped by `{norm_src(st)[:60]}` reach the data only when `{'not (' if not partial[1] else ''}{norm_src(partial[0].test)[:50]}{')' if not partial[1] else ''}`; on the other "
                     f"branch they are dropped: zero-width line entries in front of such an instruction (statements the peephole pass removed behind a `return`, followed by `try:`) are merged on re-encoding, "
                     f"co_lnotab (4,1)(0,1)(0,1) comes back as (4,3)" if disp == "consumed on one branch only" else
                     f"the entry of {fld} popped by `{norm_src(st)[:60]}` is only compared with the instruction's own and a difference raises: the data keeps ONE line per instruction, so a "
                     f"code object with a line boundary behind an EXTENDED_ARG prefix (3.8 / 3.9 peephole: 300 assignments, then `def f(a,\\n b=()): pass` - co_lnotab ends "
                     f"(8,2)(2,-1)) cannot be decoded")
                    + ("" if need != "consumed" else ": from_code is not total on compiler output / the round trip cannot reproduce co_lnotab"))
    if n == 0:
        raise AnalysisError("the decoder does not remove the later code units' entries from the line mapping: leftover handling not recognised")


_shift_cache = {}


def find_line_shift(an: Analysis):
    """The LineMapping method that moves every line by a constant, found by what it does: folded on a small mapping, it changes the lines held in the mapping and
    nothing else. Returns (method, {line before: line after} for the shift +10 and -10)."""
    if "v" in _shift_cache:
        return _shift_cache["v"]
    from sa.feval import BlockOutcome, FevalError, Obj, ObjEval
    lm = an.prog.cls("code_data._line_mapping::LineMapping")
    dict_fields = [f.name for f in lm.fields if an.tg.field_type(f)[0] == "dict"]
    found = None
    for m in lm.methods.values():
        if len(m.params) != 2 or m.name.startswith("__") or not isinstance(m.node, ast.FunctionDef):
            continue
        outs = {}
        ok = True
        for k in (10, -10):
            ev = ObjEval(lambda name: None, extra={}, methods={x.name: x.node for x in lm.methods.values() if isinstance(x.node, ast.FunctionDef)})
            ev.module_assigns = lm.module.assigns
            lines = {0: 5, 2: None, 4: 0, 6: -3, 8: 40}
            obj = Obj({fl: ({} if fl != dict_fields[0] else dict(lines)) for fl in dict_fields})
            obj[dict_fields[0]] = dict(lines)
            try:
                ev.call_method(m.node, obj, k)
            except (BlockOutcome, FevalError, KeyError, TypeError, IndexError, AttributeError):
                ok = False
                break
            after = obj[dict_fields[0]]
            if not isinstance(after, dict) or set(after) != set(lines) or after == lines:
                ok = False
                break
            outs[k] = {lines[o]: after[o] for o in lines}
            outs[("order", k)] = list(after) == list(lines)
        if ok:
            found = (m, outs)
    if found is None:
        raise AnalysisError("LineMapping shift method not found (no two-parameter method moves the lines of a witness mapping)")
    _shift_cache["v"] = found
    return found


def r015_every_line(an: Analysis, rep):
    """The shift by the first line number applies to EVERY line that is not None: lines are kept relative to co_firstlineno and may be
    negative or zero (a module that starts with a multi-line statement), so a condition on the value exempts real lines."""
    lm = an.prog.cls("code_data._line_mapping::LineMapping")
    shift, moved = find_line_shift(an)
    # folded on the witness mapping {5, None, 0, -3, 40}: every line that is not None moves by exactly the shift, None stays None
    order_kept = all(v for k, v in moved.items() if isinstance(k, tuple))
    moved = {k: v for k, v in moved.items() if not isinstance(k, tuple)}
    rep.add("R01.5", f"{shift.qual}::the shift keeps the offsets in their order", order_kept, loc(shift.module, shift.node),
            "the offsets of the witness mapping (one of them without a line) are in the same order after the shift" if order_kept else
            "after the shift the offsets of the mapping are listed in another order (the one without a line moved): the table builder walks the mapping in the order it is listed, "
            "so on 3.10 code with an instruction without a line in the middle is written with another table (or to_code() fails)")
    wrong = [f"shift {k:+d}: line {b!r} becomes {a!r}, expected {(b + k) if b is not None else None!r}" for k, mp in moved.items() for b, a in mp.items()
             if a != ((b + k) if b is not None else None)]
    rep.add("R01.5", f"{shift.qual}::the shift moves every line by exactly the given amount", not wrong, loc(shift.module, shift.node),
            "on the witness lines 5, 0, -3, 40 and None: +10 and -10 are exact, None stays None" if not wrong else
            f"{wrong[0]}: lines are kept relative to co_firstlineno and can be zero or negative (an instruction whose line lies before the first line of its code object: a decorator, "
            f"an AST with its own line numbers), so a shift that is not exact re-encodes other line deltas than were decoded")
    bad = []
    for c in ast.walk(shift.node):
        if isinstance(c, ast.Compare):
            none_test = len(c.ops) == 1 and isinstance(c.ops[0], (ast.Is, ast.IsNot)) and isinstance(c.comparators[0], ast.Constant) and c.comparators[0].value is None
            if not none_test:
                bad.append(c)
        if isinstance(c, (ast.If, ast.IfExp, ast.While)) and isinstance(c.test, (ast.Name, ast.Attribute, ast.Subscript)):
            bad.append(c.test)
    rep.add("R01.5", f"{shift.qual}::every line that is not None is shifted", not bad, loc(shift.module, bad[0] if bad else shift.node),
            "the only condition on a line is `is not None`" if not bad else
            f"`{norm_src(bad[0])}` makes the shift depend on the value of the line: lines relative to co_firstlineno can be zero or negative (code that begins with a multi-line "
            f"statement), those are left unshifted and come out as -1, -2, ... in the decoded data")


def _stores_lines(m) -> bool:
    if m is None:
        return False
    return any(isinstance(x, ast.Assign) and isinstance(x.targets[0], ast.Subscript) for x in ast.walk(m.node))


_disp_cache = {}


def _dispositions(an, V):
    if V not in _disp_cache:
        from sa.report import Report
        scratch = Report("scratch", "quick", 0)
        _disp_cache[V] = c11.r112(an, scratch, V)
    return _disp_cache[V]


def r015(an: Analysis, rep, V):
    cfg = vname(V)
    it_d, _ = an.interp("from_code", V)
    it_e, _ = an.interp("to_code", V)
    lm = an.prog.cls("code_data._line_mapping::LineMapping")
    # the shifting method: called in both closures with one scalar argument
    signs = {}
    for side, it, entry in (("decode", it_d, "from_code"), ("encode", it_e, "to_code")):
        for f in an.closure(entry, V):
            for n in ast.walk(f.node):
                if isinstance(n, ast.Call) and isinstance(n.func, ast.Attribute) and len(n.args) == 1 and not n.keywords:
                    callees = it.callees.get(id(n), set())
                    ms = [q for q in callees if q.startswith(lm.qual + ".")]
                    if not ms:
                        continue
                    m = an.prog.find_function(ms[0])
                    if m is None or len(m.params) != 2:
                        continue
                    if not any(isinstance(x, ast.AugAssign) for x in ast.walk(m.node)):
                        continue
                    arg = n.args[0]
                    org = {a for a in it.origins(it.value_at(arg)) if a[0] == "src"}
                    # sign: substitute every attribute/name leaf by 5
                    class Sub(ast.NodeTransformer):
                        def visit_Attribute(self, x):
                            return ast.copy_location(ast.Constant(5), x)

                        def visit_Name(self, x):
                            return ast.copy_location(ast.Constant(5), x)
                    import copy
                    try:
                        val = feval(ast.fix_missing_locations(Sub().visit(copy.deepcopy(arg))), {})
                    except FevalError:
                        raise AnalysisError(f"{f.qual}: line-offset argument {norm_src(arg)} not evaluable")
                    signs[side] = (val, org, f, n, m)
    if set(signs) != {"decode", "encode"}:
        raise AnalysisError(f"first-line offset shift not found on both sides ({sorted(signs)})")
    dv, dorg, df, dn, dm = signs["decode"]
    ev, eorg, ef, en, em = signs["encode"]
    ok = dv == 5 and ev == -5 and any(a[2][:1] == (("a", "co_firstlineno"),) for a in dorg) and any(a[2] == (("a", "first_line_number"),) for a in eorg)
    # ... and by nothing else: an amount computed from the lines as well (min(first line, lowest line)) is another number for code whose table steps backwards
    d_other = sorted({".".join(str(x[-1]) for x in a[2]) for a in dorg if a[2][:1] != (("a", "co_firstlineno"),)})
    e_other = sorted({".".join(str(x[-1]) for x in a[2]) for a in eorg if a[2] != (("a", "first_line_number"),)})
    rep.add("R01.5", "first-line offset: the amount is the first line number and nothing else", not d_other and not e_other, loc(ef.module, en) if e_other else loc(df.module, dn),
            "both amounts are computed from the first line number alone" if not d_other and not e_other else
            f"the amount the {'encoder' if e_other else 'decoder'} shifts by, `{norm_src((en if e_other else dn).args[0])}`, also depends on {(e_other or d_other)[:3]}: for a code object with an "
            f"instruction on a line before co_firstlineno (the table holds signed steps) the lines are shifted by another amount than they were decoded with", config=cfg)
    rep.add("R01.5", "first-line offset: +co_firstlineno when decoding, -first_line_number when encoding", ok, loc(ef.module, en),
            f"decode shifts by {norm_src(dn.args[0])}, encode by {norm_src(en.args[0])}" if ok else
            f"decode shifts lines by {norm_src(dn.args[0])} (sign {'+' if dv > 0 else '-'}), encode by {norm_src(en.args[0])} (sign {'+' if ev > 0 else '-'}): not inverse", config=cfg)
    reads = c11.header_reads(an, V)
    want = "co_linetable" if V >= (3, 10) else "co_lnotab"
    other = "co_lnotab" if V >= (3, 10) else "co_linetable"
    ok = want in reads and other not in reads
    rep.add("R01.5", "line-table attribute matches the constructor slot of the version", ok, "code_data/_line_mapping.py",
            f"{cfg}: decoder reads {want}, slot 14 of code() is {C.CODE_SLOTS[V][-3]}" if ok else f"{cfg}: decoder reads {sorted(r for r in reads if 'l' in r and 'table' in r or 'lnotab' in r)} but code() takes {want[3:]}", config=cfg)
    has_pos = "co_posonlyargcount" in reads
    ok = has_pos == (V >= (3, 8))
    rep.add("R01.5", "co_posonlyargcount read iff the interpreter has it", ok, "code_data/_code_data.py",
            f"{cfg}: {'read' if has_pos else 'not read'}" if ok else f"{cfg}: co_posonlyargcount {'read although it does not exist' if has_pos else 'not read although code() takes it'}", config=cfg)


def r017(an: Analysis, rep):
    """Key-domain agreement of the line mapping between the two directions.

    The mapping parsed from a line table has one key per code unit.  When the table builder sizes its last entry from the last key of
    the mapping (`<last key> + <unit>`), the mapping handed to it must have a key for the last code unit, i.e. the assembler must
    register every unit it emits, not only the first unit of an instruction."""
    from .encode_model import inline_locals, parent_map
    rep.rule("R01.7", "the encoder's line mapping has a key for every code unit whenever the table builder sizes the last entry from the last key", 1)
    lm = an.prog.cls("code_data._line_mapping::LineMapping")
    it, _ = an.interp("to_code")
    # ---- the consumer's assumption
    assumptions = []
    dict_fields = [f.name for f in lm.fields if "dict" in norm_src(f.node.annotation).lower()]
    for f in an.closure("to_code"):
        pm = parent_map(f.module)
        for loop in ast.walk(f.node):
            if not (isinstance(loop, ast.For) and isinstance(loop.iter, ast.Call) and isinstance(loop.iter.func, ast.Attribute)
                    and loop.iter.func.attr == "items" and isinstance(loop.iter.func.value, ast.Attribute) and loop.iter.func.value.attr in dict_fields):
                continue
            if not (isinstance(loop.target, ast.Tuple) and loop.target.elts and isinstance(loop.target.elts[0], ast.Name)):
                continue
            key = loop.target.elts[0].id
            fieldname = loop.iter.func.value.attr
            # statements after the loop in the same suite
            par = pm.get(id(loop))
            for suite in ("body", "orelse", "finalbody"):
                stmts = getattr(par, suite, None)
                if isinstance(stmts, list) and any(s is loop for s in stmts):
                    after = stmts[[i for i, s in enumerate(stmts) if s is loop][0] + 1:]
                    for st in after:
                        for n in ast.walk(st):
                            if isinstance(n, ast.BinOp) and isinstance(n.op, ast.Add):
                                l, r = n.left, n.right
                                for a, b in ((l, r), (r, l)):
                                    if isinstance(a, ast.Name) and a.id == key and isinstance(b, ast.Constant) and isinstance(b.value, int) and b.value > 0:
                                        assumptions.append((f, n, fieldname, b.value))
    if not assumptions:
        rep.add("R01.7", "line-table builder::end of table", True, "code_data/_line_mapping.py",
                "no table builder derives the end of the table from the last key of the mapping: nothing to agree on")
        return
    # ---- the producer: stores into that field in the assembler
    for cf, cexpr, fieldname, unit in assumptions:
        stores = []
        for f in an.closure("to_code"):
            if f.qual.startswith(lm.qual + "."):
                continue  # the trailing-line method keys one past the code, like the decoder's counterpart
            pm = parent_map(f.module)
            for n in ast.walk(f.node):
                if isinstance(n, ast.Assign) and isinstance(n.targets[0], ast.Subscript) and isinstance(n.targets[0].value, ast.Attribute) and n.targets[0].value.attr == fieldname:
                    stores.append((f, n, pm))
        if not stores:
            raise AnalysisError(f"no store into LineMapping.{fieldname} found in the encoder")
        by_fn: Dict[str, list] = {}
        for f, n, pm in stores:
            by_fn.setdefault(f.qual, []).append((f, n, pm))
        for q, lst in sorted(by_fn.items()):
            f, _, pm = lst[0]
            # the byte list: what the keys measure with len()
            blists = set()
            for _, n, _ in lst:
                k = inline_locals(f.node, n.targets[0].slice)
                for x in ast.walk(k):
                    if isinstance(x, ast.Call) and isinstance(x.func, ast.Name) and x.func.id == "len" and x.args and isinstance(x.args[0], ast.Name):
                        blists.add(x.args[0].id)
            if len(blists) != 1:
                raise AnalysisError(f"{q}: the key of the line store is not len(<byte list>) ({sorted(blists)})")
            B = blists.pop()
            appends = [c for c in ast.walk(f.node) if isinstance(c, ast.Call) and isinstance(c.func, ast.Attribute) and c.func.attr in ("append", "extend")
                       and isinstance(c.func.value, ast.Name) and c.func.value.id == B]
            if not appends:
                raise AnalysisError(f"{q}: no append to the byte list {B}")

            def loops_of(node):
                out = []
                cur = node
                while id(cur) in pm and pm[id(cur)] is not f.node:
                    cur = pm[id(cur)]
                    if isinstance(cur, (ast.For, ast.While)):
                        out.append(cur)
                return out
            app_loops = [loops_of(c) for c in appends]
            innermost = max(app_loops, key=len)
            # a store is per-unit when it sits in a loop at least as deep as the one emitting the units
            per_unit = [n for _, n, _ in lst if len(loops_of(n)) >= len(innermost)]
            # ... or the emitting loop provably runs once
            once = False
            if innermost:
                lp = innermost[0]
                if isinstance(lp, ast.For):
                    try:
                        once = len(list(feval(lp.iter, {}))) == 1
                    except Exception:
                        once = False
            ok = bool(per_unit) or once
            rep.add("R01.7", f"{q}::every emitted code unit is keyed in {fieldname}", ok, loc(f.module, lst[0][1]),
                    f"`{norm_src(per_unit[0])}` runs once per emitted unit; the builder's `{norm_src(cexpr)}` in {cf.qual} is then the end of the code" if ok else
                    f"`{norm_src(lst[0][1])}` runs once per instruction, while `{norm_src(appends[0])[:60]}` runs once per code unit ({len(innermost)} loops deep against "
                    f"{len(loops_of(lst[0][1]))}); {cf.qual} sizes the last entry of the table as `{norm_src(cexpr)}`, which takes the last key for the last code unit: "
                    f"a code object whose last instruction carries EXTENDED_ARG prefixes re-encodes with a line table that ends {unit} bytes per prefix short of co_code")
