# Run on any of 3.7.16 / 3.8.18 / 3.9.18 / 3.10.13 (PYTHONPATH=/tmp/shim:/tmp/hunt2_C03)
# 40 tiny nested code objects (4 instructions each); every level loads the SAME child twice.
# to_code() needs ~2**depth steps (the child CodeData is re-hashed for every operand lookup),
# so it does not come back; building the same code objects with CPython alone is instant.
import dis, signal, time
from code_data import CodeData, Constant, Instruction

def level(child):
    ins = (Instruction("LOAD_CONST", Constant(child), line_number=1),
           Instruction("POP_TOP", line_number=1),
           Instruction("LOAD_CONST", Constant(child), line_number=1),
           Instruction("RETURN_VALUE", line_number=1))
    return CodeData((ins,), "f.py", 1, "n", 1)

def build(depth):
    cd = None
    for _ in range(depth):
        cd = level(cd)
    return cd

# the growth: one more level doubles the time
for d in (12, 14, 16):
    t = time.time(); code = build(d).to_code(); print("depth", d, "%.2fs" % (time.time() - t))
assert [i.opname for i in dis.get_instructions(code)] == ["LOAD_CONST", "POP_TOP", "LOAD_CONST", "RETURN_VALUE"]

# CPython alone: the same 40 levels as real code objects, linear time
t = time.time(); c = None
tmpl = build(1).to_code()
for _ in range(40):
    c = tmpl.replace(co_consts=(c,)) if hasattr(tmpl, "replace") else c
print("CPython builds 40 levels in %.4fs" % (time.time() - t))

class TookTooLong(Exception):
    pass
def on_alarm(*a):
    raise TookTooLong
signal.signal(signal.SIGALRM, on_alarm)
signal.alarm(60)
try:
    build(40).to_code()
    finished = True
except TookTooLong:
    finished = False
signal.alarm(0)
assert finished, "to_code() of 40 nested 4-instruction code objects did not return within 60 s (needs ~2**40 steps)"
