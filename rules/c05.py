"""C05 - normalization preserves the meaning of the code (DESIGN 5, R05.1-R05.3)."""
from __future__ import annotations

import ast
import itertools

from sa.analysis import VERSIONS, Analysis, vname
from sa.feval import FevalError, feval
from sa.model import AnalysisError, loc, norm_src

from .common import data_classes
from .encode_model import encoder_field_reads, find_docstring_guards
from .normalize_model import arm_for, is_recursion_on, is_same_field, parse_normalize


def run(an: Analysis, rep):
    rep.explanation = (
        "Decides three necessary structural clauses: (1) normalize is the identity on every public field - each keyword of each arm "
        "is a private field, or f=normalize(x.f) for the same field f; classes without an arm are returned unchanged; (2) every "
        "public field (the meaning normalize keeps) is actually read by the encoder outside error messages, in every interpreter "
        "version; (3) the encoder's docstring-slot guards, evaluated over the full finite domain {block is Function, docstring in "
        "{None,'',text}, constants table empty, operand is str, override None/0/3}, pin the docstring (or None) at constant 0 "
        "exactly when needed. Observational / execution equivalence of the two code objects is not decided."
    )
    rep.rule("R05.1", "normalize is the identity on public fields", 20)
    rep.rule("R05.2", "the encoder consumes every public field", 20)
    rep.rule("R05.3", "docstring slot guards over the finite guard domain", 2)
    from .common import purity
    rep.run(purity, an, rep, "R05.P", ["from_code", "normalize", "to_code"])
    from .common import assert_guard_rule as _agrx
    rep.run(_agrx, an, rep, "R05.G2", ["from_code", "normalize", "to_code"])
    fn, p, arms, fall_identity = parse_normalize(an)
    dcs = data_classes(an)
    for ci in dcs:
        arm = arm_for(arms, ci.name)
        for f in ci.fields:
            if f.private:
                continue
            key = f"{ci.qual}.{f.name}"
            if arm is None:
                rep.add("R05.1", key, fall_identity, loc(fn.module, fn.node),
                        f"{ci.name} has no arm: returned unchanged by the fall-through" if fall_identity else "fall-through does not return its argument",
                        nontrivial=False)
                continue
            if arm.kind == "replace":
                if f.name in arm.cond and f.name not in arm.kws:
                    g, v = arm.cond[f.name]
                    ok = is_recursion_on(fn, p, v, f.name) or is_same_field(p, v, f.name)
                    rep.add("R05.1", key, ok, loc(fn.module, v),
                            f"{f.name}={norm_src(v)} when {norm_src(g)}: same field, normalized recursively" if ok
                            else f"public field {f.name} is overwritten with {norm_src(v)} when `{norm_src(g)}`: normalization changes the meaning of the code")
                elif f.name not in arm.kws:
                    rep.add("R05.1", key, True, loc(fn.module, arm.ret), "not mentioned in replace(): kept", nontrivial=False)
                else:
                    v = arm.kws[f.name]
                    ok = is_recursion_on(fn, p, v, f.name) or is_same_field(p, v, f.name)
                    rep.add("R05.1", key, ok, loc(fn.module, v),
                            f"{f.name}={norm_src(v)}: same field, normalized recursively" if ok
                            else f"public field {f.name} is overwritten with {norm_src(v)}: normalization changes the meaning of the code (instruction / operand / line / header data)")
            elif arm.kind == "ctor":
                v = arm.kws.get(f.name)
                ok = v is not None and (is_recursion_on(fn, p, v, f.name) or is_same_field(p, v, f.name))
                rep.add("R05.1", key, ok, loc(fn.module, arm.ret),
                        "copied from the same field" if ok else f"public field {f.name} is not carried over by the constructor call {norm_src(arm.ret)}")
            else:
                rep.add("R05.1", key, arm.kind == "identity", loc(fn.module, arm.ret), f"arm kind {arm.kind}")
    rep.add("R05.1", f"{fn.qual}::fall-through", fall_identity, loc(fn.module, fn.node),
            "values without an arm are returned unchanged" if fall_identity else "fall-through does not return its argument")
    tarm = arm_for(arms, "tuple")
    if tarm is not None:
        rep.add("R05.1", f"{fn.qual}::tuple arm", tarm.kind == "map", loc(fn.module, tarm.ret),
                "tuple(map(normalize, x)): same length, same order, element-wise" if tarm.kind == "map" else "tuple arm is not an element-wise map")
    # R05.2
    interps = []
    for V in VERSIONS:
        reads = encoder_field_reads(an, V)
        interps.append(an.interp("to_code", V)[0])
        for ci in dcs:
            for f in ci.fields:
                if f.private:
                    continue
                sites = reads.get((ci.qual, f.name), [])
                rep.add("R05.2", f"{ci.qual}.{f.name}", bool(sites), loc(ci.module, f.node),
                        f"read by the encoder at {sites[:3]}" if sites else
                        f"public field {f.name} is never read in the to_code closure (outside error messages): the meaning normalize keeps is not encoded",
                        config=vname(V))
    rep.stats.update(an.stats(interps))
    rep.run(r053, an, rep)
    rep.run(r05i, an, rep)
    rep.run(lambda a_, r_: r05k(a_, r_, output_order=True), an, rep)
    from .common import old_interpreter_rule
    rep.run(old_interpreter_rule, an, rep, "R05.V", ["normalize", "to_code", "from_code"])
    from .common import SharedRules
    from . import c03
    from . import c02, c10
    rep.run(c10.format_rules, an, SharedRules(rep, "R05.L", "line-table format constants (shared with C10's R10.*): 'the same line for every instruction' after re-encoding"))
    rep.run(c02.jump_rules, an, SharedRules(rep, "R05.J", "jump / closure operand arithmetic of the encoder (shared with C02's R02.3/R02.4): the re-encoded instructions resolve to the same operands"))
    from . import c01, c11
    shf = SharedRules(rep, "R05.F", "every flag the decoder took into the data is added back by the encoder exactly when its datum is set (shared with C11's R11.3): 'flags differing at most in CO_NESTED'")
    for V in VERSIONS:
        rep.run(c11.r113, an, shf, V, c01._dispositions(an, V)[0])
    from . import c08
    rep.run(c08.r084, an, SharedRules(rep, "R05.C", "the key that decides which constants are one table entry tells apart what CPython tells apart (shared with C08's R08.4): normalize strips the overrides that pin duplicates, so a coarser key merges distinct constants / nested code objects"), rule="R05.C", nan_sign_matters=True)
    rep.run(c01.r01a, an, SharedRules(rep, "R05.N", "the decoder keeps the line of every code unit (shared with C01's R01.A): 'the same line for every instruction', 'traced line events'"), rule="R05.N")
    rep.run(c03.r035, an, SharedRules(rep, "R05.W", "operand width thresholds and unit emission (shared with C03's R03.5): normalize strips the recorded widths, so every operand is re-emitted at the width this function gives"))
    rep.run(c03.r038, an, SharedRules(rep, "R05.K", "lines keyed at the first code unit of an instruction (shared with C03's R03.8): 'the same line for every instruction' and the same traced line events"))
    from . import c04, c06
    sha = SharedRules(rep, "R05.A", "signature encoding: co_varnames layout, counts and flags (shared with C04's R04.3/R04.4): 'the same ... signature' - locals are numbered in co_varnames order, "
                                    "so parameters listed in another order bind the wrong values")
    rep.run(c04.r045, an, SharedRules(rep, "R05.D", "the decoder takes the docstring from co_consts[0] whenever that is a str (shared with C04's R04.5): a docstring the data does not hold is an "
                                                   "unreferenced constant for normalize - it is dropped and the re-encoded function has no __doc__"))
    rep.run(c04.r041, an, sha)
    rep.run(c04.r043, an, sha)
    rep.run(c04.r044, an, sha)
    rep.run(c06.reset_rules, an, SharedRules(rep, "R05.Z", "normalize strips every positional artefact together (shared with C06's R06.1/R06.2): an override kept on one kind of table entry while the list of "
                                                           "unreferenced entries is dropped leaves a gap in that table, and normalize(x).to_code() raises instead of giving an equivalent code object"))
    rep.run(r05t, an, rep)
    rep.run(lambda a_, r_: c04.r04f(a_, r_, roundtrip=True), an, SharedRules(rep, "R05.Y2", "from_code then to_code folded over witness code objects of every kind of scope (C04's R04.W witnesses), "
                                                                             "one with its first instruction a line above co_firstlineno (3.8 / 3.9 modules that begin with a multi-line display): to_code() must accept what from_code returns"))
    from .common import rejection_paths_rule as _rpr5
    rep.run(_rpr5, an, SharedRules(rep, "R05.R2", "every place where to_code can stop with an exception is one confirmed by reading (shared with C03's R03.R)"), "R03.R", ["to_code"], c03.ENCODER_REJECTIONS, "to_code")
    rep.run(c06.r06n, an, SharedRules(rep, "R05.Y", "normalize folded over witness data full of artefacts (shared with C06's R06.N): every public field - instructions, operands, jump targets, lines, "
                                                   "signature, docstring, free variables, names - comes back as given, at every depth; only private fields change"))
    shg5 = SharedRules(rep, "R05.G", "the decoder's instruction function and parser folded over witness code units (shared with C02's R02.F / R02.8): normalize().to_code() can only mean what c "
                                     "means if from_code read c as CPython does - closure variables by position, operands of any width")
    rep.run(c02.r02f, an, shg5)
    rep.run(c02.r028, an, shg5)
    she = SharedRules(rep, "R05.E", "the encoder's layout and table folded over witness block lists without overrides - the data normalize returns (shared with C03's R03.E / R03.T / R03.Y): "
                                    "the code written for it reads back as the same instructions, operands and jump structure")
    rep.run(c03.r03e, an, she)
    rep.run(c03.r03t, an, she)
    rep.run(c03.r03y, an, she)
    rep.run(c03.r037, an, SharedRules(rep, "R05.R", "re-layout after normalization (shared with C03's R03.7): with the width overrides stripped, jumps still land on their targets"))


class _O(dict):
    def __init__(self, cls, **kw):
        super().__init__(**kw)
        self.cls = cls


def _Fn(**kw):
    return _O("Function", **kw)


def r05i(an, rep):
    """CPython (3.8+) shares equal constants: a tuple constant nested in another one, or used by two code objects of a module, is ONE object, and
    `is` on such constants is observable.  The decoded data holds those very objects; what the encoder hands to CodeType must be them or copies
    memoised by identity (`id(value)`), and normalize must not rebuild constant tuples - else the shared object is split up."""
    rep.rule("R05.I", "constant objects shared in the original are shared in the re-encoded code (no copy of a constant without an identity memo)", 1)
    it, _ = an.interp("to_code")
    n = 0
    for f in an.closure("to_code"):
        if not f.params:
            continue
        p = f.params[0]
        for st in ast.walk(f.node):
            if not (isinstance(st, ast.If) and isinstance(st.test, ast.Call) and isinstance(st.test.func, ast.Name) and st.test.func.id == "isinstance"
                    and len(st.test.args) == 2 and isinstance(st.test.args[0], ast.Name) and st.test.args[0].id == p and "tuple" in norm_src(st.test.args[1])):
                continue
            rets = [r for b in st.body for r in ast.walk(b) if isinstance(r, ast.Return) and r.value is not None]
            copies = [r for r in rets if isinstance(r.value, ast.Call)
                      and ((isinstance(r.value.func, ast.Name) and r.value.func.id in ("tuple", "frozenset")) or norm_src(r.value.func).startswith("type("))
                      and any(isinstance(x, ast.Name) and x.id == f.name for x in ast.walk(r.value))]
            if not copies:
                continue
            n += 1
            memo = any(isinstance(c, ast.Call) and isinstance(c.func, ast.Name) and c.func.id == "id" and c.args and isinstance(c.args[0], ast.Name) and c.args[0].id == p
                       for c in ast.walk(f.node))
            rep.add("R05.I", f"{f.qual}::copies of constant tuples keep the sharing of the original", memo, loc(f.module, copies[0]),
                    f"the copy is looked up / stored under id({p}): one copy per original object" if memo else
                    f"`{norm_src(copies[0])[:70]}` makes a fresh copy of a constant tuple every time it is met (and normalize rebuilds constant tuples with `tuple(map(normalize, x))`): CPython >= 3.8 "
                    f"shares equal constants inside one module, so after normalize().to_code() `a = ((1000, 2000), 3); b = (1000, 2000); a[0] is b` and "
                    f"`def f(x=(1000, 2000)): y = (1000, 2000); return x is y` change from True to False - executing both does not give the same results")
    if n == 0:
        rep.add("R05.I", "constants are handed to CodeType as decoded", True, "code_data/_constants.py", "the encoder makes no copies of constant tuples (C12's R12.8 decides whether that is safe)", nontrivial=False)


def r05k(an, rep, rule="R05.K2", output_order=False):
    """What the encoder hands to CodeType for a constant is that constant: the function that prepares constants (the one whose first arm re-encodes a nested CodeData)
    is folded over witness constants of every kind and must return an equal value of the same type at every level (a frozenset stays a frozenset: `x in {1, 2, 3}`
    with a tuple constant answers membership the same, but an unhashable left operand no longer raises TypeError)."""
    from sa.feval import BlockOutcome, FevalError, ObjEval
    import math
    rep.rule(rule, "constants are handed to CodeType with their value and type unchanged", 1)
    target = None
    for f in an.closure("to_code"):
        if f.cls is None and len(f.params) == 1 and isinstance(f.node, ast.FunctionDef):
            first = next((st for st in f.node.body if isinstance(st, ast.If)), None)
            if first is not None and "CodeData" in norm_src(first.test) and any(isinstance(c, ast.Call) and isinstance(c.func, ast.Attribute) and c.func.attr == "to_code" for c in ast.walk(first)):
                target = f
    if target is None:
        raise AnalysisError("the function that prepares a constant for CodeType (nested CodeData -> to_code()) was not found")

    def resolve(name):
        r = an.prog.resolve_global(target.module, name, target)
        return r[1].node if r and r[0] == "func" else None

    def same(a, b):
        if type(a) is not type(b):
            return False
        if isinstance(a, tuple):
            return len(a) == len(b) and all(same(x, y) for x, y in zip(a, b))
        if isinstance(a, frozenset):
            return len(a) == len(b) and all(any(same(x, y) for y in b) for x in a)
        if isinstance(a, float):
            return (math.isnan(a) and math.isnan(b)) or (a == b and math.copysign(1, a) == math.copysign(1, b))
        return a == b
    W = [1, True, "a", b"x", None, Ellipsis, 1.5, -0.0, complex(0.0, -0.0), (1, ("b", 2.0)), frozenset({1, 2, 3}), (frozenset({("c", 1)}), 7), frozenset({("alpha", 1), ("beta", 2)}),
         frozenset({7, 15, 23}), frozenset({"x", b"y", None}), frozenset({("a", "b"), "cd", b"ef"})]
    bad = []
    reordered = []
    rebuilt_t = []
    for w in W:
        ev = ObjEval(resolve, extra={"CodeData": type("CodeData", (), {})})
        ev.module_assigns = target.module.assigns
        try:
            got = ev.call_method(target.node, w)
        except BlockOutcome as o:
            bad.append(f"{w!r}: stops at `{norm_src(o.node)[:50]}`")
            continue
        except Exception as ex:  # noqa: BLE001
            raise AnalysisError(f"{target.qual}: not evaluable on the witness constant {w!r} ({type(ex).__name__}: {ex})")
        if not same(got, w):
            bad.append(f"the constant {w!r} is handed to CodeType as {got!r}")
        # a frozenset without tuple members needs no copy (CPython only rewrites tuples in place), and a copy can iterate in another order than the original
        # when hashes collide ({7, 15, 23}: 7, 15 and 23 share a slot in a table of 8): the program's `for x in {...}` would run in another order
        if isinstance(w, frozenset) and not any(isinstance(x, tuple) for x in w) and got is not w:
            reordered.append(w)
        if isinstance(w, frozenset) and any(isinstance(x, tuple) for x in w) and got is not w:
            rebuilt_t.append(w)
    rep.add(rule, f"{target.qual}::a frozenset constant without tuples is handed over as it is", not reordered, loc(target.module, target.node),
            "frozensets of scalars reach CodeType as the decoded objects (same iteration order)" if not reordered else
            f"the frozenset {set(reordered[0])!r} is rebuilt: a rebuilt set iterates in insertion order of its collision chains, the original in the order the compiler built it - for members whose "
            f"hashes collide (`for x in {{7, 15, 23}}`) the re-encoded program iterates in another order and prints something else")
    if output_order:
        # C05 only ('executing both gives the same output'): a frozenset that holds a tuple is rebuilt as well (the copy keeps CodeType from rewriting the
        # tuples of the data in place - C12), and the copy need not iterate in the order of the original
        rep.add(rule, f"{target.qual}::a frozenset constant that holds a tuple keeps its iteration order", not rebuilt_t, loc(target.module, target.node),
                "frozensets that hold tuples reach CodeType as the decoded objects" if not rebuilt_t else
                f"the frozenset {set(rebuilt_t[0])!r} is rebuilt from its members: the copy can iterate in another order than the set the compiler built (collision chains depend on the order of "
                f"insertion) - `for x in {{(1, 2), 3, 4}}: print(x)` prints (1, 2) 3 4 before and 3 (1, 2) 4 after to_code()")
    rep.add(rule, f"{target.qual}::every kind of constant keeps its value and type", not bad, loc(target.module, target.node),
            f"{len(W)} witness constants (scalars, nested tuples, frozensets, tuples inside frozensets) come out equal and of the same type" if not bad else
            f"{bad[0]}: the re-encoded program loads another kind of object (`x in {{1, 2, 3}}` with a tuple instead of the frozenset: `[] in ...` returns False instead of raising TypeError, "
            f"`type(c)` / `hash` / set operations on the constant differ)")


def r053(an, rep):
    guards = find_docstring_guards(an)
    if not guards:
        raise AnalysisError("docstring slot guards not found (stores into index 0 of the constants table)")
    FUNC = "Function"

    def isinst(o, c):
        cs = c if isinstance(c, tuple) else (c,)
        for x in cs:
            if isinstance(o, _O) and o.cls == x:
                return True
            if x == "str" and isinstance(o, str):
                return True
            if x == "NoneType" and o is None:
                return True
        return False

    # every other field of Function is given each value its type allows: the docstring rule of CPython (consts[0] if it is a str) does
    # not depend on the kind of function
    fn_cls = an.prog.cls("code_data::Function")
    others = {}
    for fl in fn_cls.fields:
        if fl.name == "docstring":
            continue
        t = an.tg.unfold_rec(an.tg.field_type(fl))
        lits = sorted({v for x in an.tg.leaves_in(t) if x[0] == "literal" for v in x[1]}, key=str)
        vals = [None] if any(x == ("leaf", "None") for x in an.tg.leaves_in(t)) else []
        vals += [v for v in lits]
        others[fl.name] = vals or [_O(fl.name)]
    combos = [dict(zip(others, c)) for c in itertools.product(*others.values())]
    blocks = [None] + [_Fn(docstring=d, **c) for d in (None, "", "doc") for c in combos]
    tables = [(), (None,)]
    consts = ["s", 1, b"x"]
    overrides = [None, 0, 3]
    for g in guards:
        n_eval = 0
        bad = []
        for bt, tb, cv, ov in itertools.product(blocks, tables, consts, overrides):
            if g["kind"] == "seed" and (cv != "s" or ov is not None):
                continue
            env = {c.name: c.name for c in an.prog.all_classes()}
            env.update({"isinstance": isinst, "str": "str", g["block"]: bt, g["table"]: tb})
            if g.get("arg"):
                env[g["arg"]] = _O("Constant", constant=cv, _index_override=ov)
            try:
                val = bool(feval(g["test"], env))
            except (FevalError, KeyError, AttributeError, TypeError) as e:
                if bt is None and isinstance(e, (KeyError, TypeError, AttributeError)):
                    val = False
                else:
                    raise AnalysisError(f"{g['fn']}: docstring guard not evaluable: {e}")
            n_eval += 1
            is_fn = isinstance(bt, _O)
            if g["kind"] == "seed":
                want = is_fn and bt["docstring"] is not None
                if val != want:
                    bad.append(f"block={'Function(%s)' % ', '.join(f'{k}={v!r}' for k, v in bt.items() if not isinstance(v, _O)) if is_fn else None}: seeds={val}, needed={want}")
            else:
                must = is_fn and bt["docstring"] is None and not tb and isinstance(cv, str) and ov is None
                may = is_fn and bt["docstring"] is None and not tb and ov is None
                if must and not val:
                    bad.append(f"function ({', '.join(f'{k}={v!r}' for k, v in bt.items() if not isinstance(v, _O))}) whose first constant is the str {cv!r}: None is not pinned at index 0, the string becomes __doc__")
                if val and not may:
                    bad.append(f"None pinned although block={'Function(docstring=%r)' % bt['docstring'] if is_fn else None}, table={tb}, override={ov}")
        if g["kind"] == "pin" and g.get("arg"):
            # the same slot can be claimed by a position override: a str constant with override 0 in a function whose data says "no docstring" would be read as
            # __doc__ by CPython - the override contradicts the docstring field, so the encoder has to refuse (the None pin is skipped for overridden operands)
            fobj = an.prog.function(g["fn"])
            from .encode_model import guards_of, conj, inline_locals
            raises = [r for r in ast.walk(fobj.node) if isinstance(r, ast.Raise)]
            def fires(bt, cv, ov):
                for r in raises:
                    tests = guards_of(fobj.module, fobj, r)
                    if not tests:
                        continue
                    test = inline_locals(fobj.node, conj(tests))
                    env = {c.name: c.name for c in an.prog.all_classes()}
                    env.update({"isinstance": isinst, "str": "str", g["block"]: bt, g["table"]: (), g["arg"]: _O("Constant", constant=cv, _index_override=ov)})
                    try:
                        if bool(feval(test, env)):
                            return True
                    except (FevalError, KeyError, AttributeError, TypeError):
                        continue
                return False
            some_fn = _Fn(docstring=None, **combos[0])
            doc_fn = _Fn(docstring="s", **combos[0])
            rejected = fires(some_fn, "s", 0)
            spurious = [d for d, (bt, cv, ov) in {"a str with override 3": (some_fn, "s", 3), "the int 1 with override 0": (some_fn, 1, 0),
                                                   "the docstring itself with override 0": (doc_fn, "s", 0), "a str without override": (some_fn, "s", None)}.items() if fires(bt, cv, ov)]
            rep.add("R05.3", f"{g['fn']}::a str pinned at index 0 of a function without docstring is refused", rejected and not spurious, g["where"],
                    "the encoder raises for a str constant with position override 0 when the data says docstring=None, and only then" if rejected and not spurious else
                    (f"the encoder also refuses {spurious[0]}" if rejected else
                     "a str constant with `_index_override=0` in a function whose data says docstring=None is written to co_consts[0] without complaint (the None pin only covers operands without "
                     "override): CPython reads it as __doc__, so the code object does not say what the data says and decodes to other data (decoded `return None` edited to `return 'zz'`)"))
        what = "constants[0] = docstring" if g["kind"] == "seed" else "constants[0] = None"
        rep.add("R05.3", f"{g['fn']}::{what}", not bad, g["where"],
                (f"guard {norm_src(g['test'])} wrong on {len(bad)} of {n_eval} domain points, e.g. " + bad[0]) if bad
                else f"guard {norm_src(g['test'])} agrees with the CPython docstring rule on all {n_eval} domain points")


def r05t(an, rep, rule="R05.T"):
    """co_lnotab (3.7-3.9) can hold several entries at one offset; CPython's tracing starts a new line range at every entry whose line delta is not
    zero, so `+1, -1` at one offset (left by the peephole pass when it folds a multi-line default tuple) fires a `line` event although the line
    ends where it began.  The decoder keeps such entries in Instruction._line_offsets_override; normalize folded over an instruction that carries
    (1, -1) must keep the non-zero pieces (entries of zero are the redundant ones the property lets go)."""
    from sa.feval import BlockOutcome, Obj
    from .c03 import package_evaluator
    from .normalize_model import find_normalize
    rep.rule(rule, "line-table entries that fire a line event survive normalization", 1)
    fn = find_normalize(an)
    ev, _R = package_evaluator(an, fn.module, (3, 9))
    L = ev.lib
    try:
        got = ev.call_method(fn.node, L["Instruction"](name="LOAD_CONST", arg=L["Constant"](1), line_number=2, _line_offsets_override=(1, -1)))
        got0 = ev.call_method(fn.node, L["Instruction"](name="LOAD_CONST", arg=L["Constant"](1), line_number=2, _line_offsets_override=(0,)))
    except BlockOutcome as o:
        raise AnalysisError(f"{fn.qual}: stops at `{norm_src(o.node)[:60]}` on a witness instruction")
    except Exception as ex:  # noqa: BLE001 - a gap of the evaluator, never a verdict
        raise AnalysisError(f"{fn.qual}: not evaluable on the witness instruction ({type(ex).__name__}: {ex})")
    kept = tuple(x for x in (got.get("_line_offsets_override") or ()) if x) if isinstance(got, Obj) else None
    ok = kept == (1, -1)
    rep.add(rule, f"{fn.qual}::non-zero entries at one offset are kept", ok, loc(fn.module, fn.node),
            "the pieces (1, -1) survive" if ok else
            f"normalize of an instruction that carries the extra entries (1, -1) returns {got.get('_line_offsets_override') if isinstance(got, Obj) else got!r}: on 3.8 / 3.9 CPython fires a `line` event at each "
            f"entry with a non-zero delta, so normalize().to_code() loses a traced line event (entries of zero, here {got0.get('_line_offsets_override') if isinstance(got0, Obj) else got0!r} after normalize, are the redundant ones)")
