# interpreter: pyenv 3.7.16, 3.8.18, 3.9.18 or 3.10.13 (all show it)
# Two decoded CodeData are ==, hash alike, are one key in a set - but encode to code
# objects that are not identical: they run differently (and marshal differently).
import marshal
from code_data import CodeData

def run(code):
    r = []
    exec(code, {"r": r})
    return r

# 1 and 9 collide in a small set table, so the iteration order is the insertion order
c1 = compile("for x in {1, 9}: r.append(x)", "f.py", "exec")
c2 = compile("for x in {9, 1}: r.append(x)", "f.py", "exec")
assert run(c1) == [1, 9] and run(c2) == [9, 1]  # CPython: two different programs

d1, d2 = CodeData.from_code(c1), CodeData.from_code(c2)
assert d1 == d2 and hash(d1) == hash(d2) and len({d1, d2}) == 1
print("CodeData equal:", d1 == d2)

e1, e2 = d1.to_code(), d2.to_code()
print("run:", run(e1), run(e2))
print("marshal equal:", marshal.dumps(e1) == marshal.dumps(e2))
# a cache keyed by CodeData hands back the other program
cache = {d1: e1}
assert run(cache[d2]) == run(c2), "lookup by an equal CodeData gives a program that behaves differently"
assert run(e1) == run(e2), "equal CodeData must encode to identical code objects"
