# 3.8 - 3.10: an opcode byte the interpreter does not define (hand-altered co_code, in dead code behind the return)
import dis, sys
from code_data import CodeData
def f(): return 1
c = f.__code__
unknown = next(i for i in range(1, 256) if dis.opname[i].startswith("<"))
new = c.co_code + bytes([unknown, 0])
kw = {"co_code": new}
if sys.version_info >= (3, 10):
    lt = bytearray(c.co_linetable); lt[-2] += 2; kw["co_linetable"] = bytes(lt)
g = c.replace(**kw)
import types
assert types.FunctionType(g, {})() == 1
try:
    d = CodeData.from_code(g)
except (ValueError, NotImplementedError) as e:
    print("OK from_code raises", type(e).__name__); sys.exit(0)
back = d.to_code()   # must reproduce, since from_code accepted it
assert back.co_code == g.co_code
print("OK")
