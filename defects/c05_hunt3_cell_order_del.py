# Run with 3.7.16, 3.8.18, 3.9.18 or 3.10.13 (PYTHONPATH=/tmp/shim:/tmp/hunt3_C05).
# normalize() reorders co_cellvars (compiler: sorted by name; normalized: first use).
# A frame releases its cells in table order, so the order in which objects are
# finalized - and the output of the program - changes.
import contextlib
import io
from code_data import CodeData

SRC = '''
class D:
    def __init__(s, n): s.n = n
    def __del__(s): print('del', s.n)
def f():
    b = D('b')
    a = D('a')
    def g(): return a, b
    return g()[0].n
RESULT = f()
'''
# 3.10 only, same effect through co_varnames: "if 0: a = None" in front of b = D('b'); a = D('a')


def output(code):
    out = io.StringIO()
    with contextlib.redirect_stdout(out):
        exec(code, {})
    return out.getvalue()


code = compile(SRC, "<t>", "exec")
data = CodeData.from_code(code)
normalized = data.normalize().to_code()
f_orig = [c for c in code.co_consts if getattr(c, "co_name", "") == "f"][0]
f_norm = [c for c in normalized.co_consts if getattr(c, "co_name", "") == "f"][0]
print("co_cellvars", f_orig.co_cellvars, "->", f_norm.co_cellvars)
a, b, c = output(code), output(data.to_code()), output(normalized)
print("original  ", a.split("\n"))
print("normalized", c.split("\n"))
assert a == b, "plain round trip keeps the output"
assert a == c, "normalize() changed the output of the program"
