#!/usr/bin/env python3
"""Regenerates DESIGN.md section 11 (table of seeded changes and the rules that catch them) from seeded/*/meta.json."""
import json, os, re
V = os.path.dirname(os.path.dirname(os.path.abspath(__file__)))
rows = []
for sid in sorted(os.listdir(os.path.join(V, "seeded"))):
    p = os.path.join(V, "seeded", sid, "meta.json")
    if not os.path.exists(p):
        continue
    m = json.load(open(p))
    note = ""
    np_ = os.path.join(V, "seeded", sid, "note.md")
    if os.path.exists(np_):
        txt = [l.strip() for l in open(np_).read().splitlines() if l.strip() and not l.startswith("#")]
        note = " ".join(txt)[:230].replace("|", "/")
    res = m.get("check_result_at_commit", {})
    keys = re.findall(r"'(R\d\d\.[0-9A-Z]+)[:\]]", res.get("findings", "")) or re.findall(r"\"(R\d\d\.[0-9A-Z]+)[:\]]", res.get("findings", ""))
    rows.append((sid, m["property"], m.get("round", 1), note, res.get("status", "?"), ", ".join(sorted(set(keys)))))
caught = sum(1 for r in rows if r[4] == "CAUGHT")
out = ["## 11. Seeded changes written by independent sub-agents, and which rules catch them", "",
       "Each change was written by a fresh sub-agent that saw only the text of one property and a scratch worktree of /repo (nothing from /verif), in two rounds "
       "(round 2 was told which ideas round 1 had used and asked for different ones). Every change kept here was confirmed by `tools/verify_seed.py` in the scratch "
       "worktree: the patch applies to /repo's HEAD, the 30 baseline tests still pass, and the demonstration fails with the change and passes without it on at least one of "
       "the interpreters 3.7-3.10 (3.12 for the JSON-only ones). `tools/seeded.py` applies each patch to a scratch copy (never to /repo) and runs the quick check of the "
       "property it targets.", "",
       f"Result at the last commit that touched the rules: **{caught} of {len(rows)}** changes make the check of *their own* property exit 1 with a finding naming the changed construct. "
       "Round 1: after the first evaluation 16 of 36 were caught by their own check (30 of 45 by some check); round 2 started at 11 of 30. The misses drove most of the "
       "rule additions listed in section 0a (shared rule bundles across properties, exact relaxation guard, witness partition of the constant key, schema witnesses, "
       "override-provenance rule, early-exit rules, ...). Not caught, on purpose or for lack of a sound rule:", "",
       "* C10-2 - both directions of the mapping stage restart line deltas after a no-line run: table arithmetic over integer sequences, declared undecided (section 8); deciding it needs symbolic execution of loops.",
       "* C04-6 - `Function(**kwargs)` built from an if/elif that stores either the docstring or the kind: the check stops with ANALYSIS-ERROR (exit 2, constructor idiom not recognised), i.e. 'not decided', not a pass.",
       "* C06-6 - the None-pin decision moved into a pre-scan of `blocks[0]` only: exit 2 (guard calls a helper with a loop; not evaluable), again 'not decided'.", "",
       "| id | round | what the change does (from the sub-agent's note) | own check | rules that fire |", "|---|---|---|---|---|"]
for sid, pid, rnd, note, st, keys in rows:
    out.append(f"| {sid} | {rnd} | {note} | {st} | {keys} |")
text = "\n".join(out) + "\n"
p = os.path.join(V, "DESIGN.md")
s = open(p).read()
i = s.find("## 11. Seeded changes written by independent sub-agents")
if i >= 0:
    s = s[:i].rstrip() + "\n\n" + text
else:
    s = s.rstrip() + "\n\n---------------------------------------------------------------------------------\n\n" + text
open(p, "w").write(s)
print(caught, len(rows))
