# Run on 3.7.16, 3.8.18, 3.9.18 or 3.10.13 (PYTHONPATH=/tmp/shim:/tmp/hunt2_C06)
# A CodeData edited the way docs/example_modify.md edits one: the only jump to a
# block is replaced. normalize() keeps the now needless block boundary, one
# to_code/from_code round trip removes it, so the normalized value is not stable.
import json
from dataclasses import replace
from code_data import CodeData, Instruction

code = compile("print(10 + (100 if x else 10))", "", "exec")  # the docs example
cd = CodeData.from_code(code)
assert len(cd.blocks) >= 2
# replace every conditional jump by POP_TOP (always take the "100" branch)
edited = replace(cd, blocks=tuple(
    tuple(replace(i, name="POP_TOP", arg=Instruction("POP_TOP").arg, _n_args_override=None)
          if i.name.startswith("POP_JUMP_IF") else i for i in block)
    for block in cd.blocks))

N = edited.normalize()
assert N.normalize() == N
# the JSON round trip is fine
assert CodeData.from_json_data(json.loads(json.dumps(N.to_json_data()))).normalize() == N
c2 = N.to_code()
x = False
exec(c2)  # valid code: prints 110
M = CodeData.from_code(c2).normalize()
print("blocks before:", len(N.blocks), "after one round trip:", len(M.blocks))
assert M == N, "normalize() result changed by to_code/from_code"
