# Interpreters: 3.7.16, 3.8.18, 3.9.18, 3.10.13 (all fail)
# normalize() drops a local variable which no instruction references (its
# assignment was removed as dead code) from co_varnames; locals()/exec()/eval()
# consult co_varnames, so the re-encoded function returns a different result.
from code_data import CodeData

SRC = '''
def f():
    exec("x = 1")
    return locals()
    x = 5

def g():
    exec("y = 1")
    return eval("y")
    y = 5

def call(fn):
    try:
        return fn()
    except NameError as e:
        return repr(e)
r = (call(f), call(g))
'''
c = compile(SRC, "<find1>", "exec")
n = CodeData.from_code(c).normalize().to_code()


def run(code):
    d = {}
    exec(code, d)
    return d["r"]


orig, new = run(c), run(n)
print("co_varnames of f:", c.co_consts[0].co_varnames, "->", n.co_consts[0].co_varnames)
print("original  :", orig)
print("normalized:", new)
assert orig == new, "executing the normalized code gives a different result"
