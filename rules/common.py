"""Helpers shared by rule modules."""
from __future__ import annotations

import ast
from typing import Dict, List, Optional, Set, Tuple

from sa.analysis import Analysis
from sa.model import AnalysisError, ClassInfo, FunctionInfo, loc, norm_src

ROOT_CLASS = "code_data::CodeData"


def data_classes(an: Analysis) -> List[ClassInfo]:
    return [an.prog.cls(q) for q in an.tg.reachable_classes(ROOT_CLASS)]


def isinstance_arms(fn: FunctionInfo, param: str):
    """
    Decompose a type-dispatch function into arms: [(type names, body stmts, If node)], plus the
    trailing statements after the chain.  Recognised spellings: a sequence of `if isinstance(p, T): ...`
    (with or without elif), each arm ending in return/raise.
    """
    arms = []
    rest: List[ast.stmt] = []

    def rec(stmts):
        for i, st in enumerate(stmts):
            if isinstance(st, ast.Expr) and isinstance(st.value, ast.Constant):
                continue
            if isinstance(st, ast.If):
                names = _isinstance_names(st.test, param)
                if names is not None:
                    arms.append((names, st.body, st))
                    if st.orelse:
                        rec(st.orelse)
                        return
                    continue
            rest.extend(stmts[i:])
            return

    rec(fn.node.body)
    return arms, rest


def _isinstance_names(test, param) -> Optional[List[str]]:
    from sa.absint import _class_names
    if isinstance(test, ast.Call) and isinstance(test.func, ast.Name) and test.func.id == "isinstance" and len(test.args) == 2:
        a0 = test.args[0]
        if isinstance(a0, ast.Name) and a0.id == param:
            return _class_names(test.args[1])
    # `value == ...` / `value is ...` spelling for Ellipsis
    if isinstance(test, ast.Compare) and isinstance(test.left, ast.Name) and test.left.id == param and len(test.ops) == 1:
        c = test.comparators[0]
        if isinstance(c, ast.Constant) and c.value is Ellipsis and isinstance(test.ops[0], (ast.Eq, ast.Is)):
            return ["ellipsis"]
    return None


def returns_of(stmts) -> List[ast.Return]:
    out = []
    for st in stmts:
        for n in ast.walk(st):
            if isinstance(n, ast.Return):
                out.append(n)
    return out


def mentions(node: ast.AST, name: str) -> bool:
    return any(isinstance(n, ast.Name) and n.id == name for n in ast.walk(node))


def attr_chain(node) -> Optional[str]:
    if isinstance(node, ast.Name):
        return node.id
    if isinstance(node, ast.Attribute):
        b = attr_chain(node.value)
        return f"{b}.{node.attr}" if b else None
    return None


def called_names(node: ast.AST) -> Set[str]:
    out = set()
    for n in ast.walk(node):
        if isinstance(n, ast.Call):
            c = attr_chain(n.func)
            if c:
                out.add(c.split(".")[-1])
        if isinstance(n, ast.Name):
            out.add(n.id)
    return out
