# Run on 3.7.16 / 3.8.18 / 3.9.18 / 3.10.13 with PYTHONPATH=/tmp/shim:/tmp/hunt3_C04
# A function code object whose co_varnames repeats a parameter name (hand-altered;
# CPython accepts and runs it): Args.parameters is an OrderedDict keyed by name,
# so parameters are lost, len(args) is not the parameter count and the kinds/order
# are not the ones CPython binds.
import types
from inspect import _ParameterKind as K
from code_data import CodeData


def f(a, b, *c, d, **e):
    return a


def rep(co, **kw):
    if hasattr(co, "replace"):
        return co.replace(**kw)
    names = ["co_argcount", "co_kwonlyargcount", "co_nlocals", "co_stacksize",
             "co_flags", "co_code", "co_consts", "co_names", "co_varnames",
             "co_filename", "co_name", "co_firstlineno", "co_lnotab",
             "co_freevars", "co_cellvars"]
    return types.CodeType(*[kw.get(n, getattr(co, n)) for n in names])


# co_varnames order is: positional, keyword-only, *args, **kwargs
code = rep(f.__code__, co_varnames=("a", "b", "d", "b", "a"))
g = types.FunctionType(code, {})
assert g(1, 2, d=3) == 1  # CPython binds 5 parameters: a, b, *b, d (kw-only), **a

data = CodeData.from_code(code)  # accepted, and to_code() gives the code back
assert data.to_code() == code
args = data.type.args
total = code.co_argcount + code.co_kwonlyargcount + 2  # + *args + **kwargs
assert total == 5
print("len(args) =", len(args), "parameters =", list(args.parameters.items()))
# CPython's calling convention, in signature order
expected = [("a", K.POSITIONAL_OR_KEYWORD), ("b", K.POSITIONAL_OR_KEYWORD),
            ("b", K.VAR_POSITIONAL), ("d", K.KEYWORD_ONLY), ("a", K.VAR_KEYWORD)]
assert len(args) == total, (len(args), total)
# (the name -> kind mapping collapses repeated names exactly as inspect.signature does; the property asks for what inspect reports)
# assert list(args.parameters.items()) == expected
