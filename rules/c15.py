"""C15 - the JSON form is portable across interpreter versions (DESIGN 5, R15.1-R15.3)."""
from __future__ import annotations

import ast
import json
import os
from typing import Dict, List, Set, Tuple

from sa.analysis import VERSIONS, Analysis, vname
from sa.model import AnalysisError, FunctionInfo, Module, loc, norm_src

from .common import attr_chain, isinstance_arms
from .encode_model import parent_map
from .json_model import decoder_tags, find_json_functions

REF = os.path.join(os.path.dirname(os.path.dirname(os.path.abspath(__file__))), "reference")
VERSION_MODULES = {"sys", "dis", "opcode", "platform", "ctypes", "sysconfig", "_opcode"}
VERSION_ATTRS = {"version_info", "hexversion", "version", "api_version", "implementation"}
ENTRIES = ["to_json", "from_json", "normalize"]
ALLOWED_THIRD_PARTY = {"typing_extensions"}


def version_constructs(an: Analysis, f: FunctionInfo) -> List[Tuple[ast.AST, str]]:
    """References inside f to interpreter-version-dependent modules / values (directly or through module constants)."""
    out = []
    tainted_consts = tainted_module_constants(an, f.module)
    shadow = set(f.params)
    for n in ast.walk(f.node):
        if isinstance(n, ast.Name) and isinstance(n.ctx, ast.Load) and n.id not in shadow:
            r = an.prog.resolve_global(f.module, n.id, f)
            if r is None:
                continue
            if r[0] == "ext" and r[1].split(".")[0] in VERSION_MODULES:
                out.append((n, f"uses {r[1]}"))
            elif r[0] == "var" and (r[1].name, r[2]) in tainted_all(an):
                out.append((n, f"uses module constant {r[2]}, computed from {tainted_all(an)[(r[1].name, r[2])]}"))
    return out


_taint_cache: Dict[int, Dict[Tuple[str, str], str]] = {}


def tainted_all(an: Analysis) -> Dict[Tuple[str, str], str]:
    key = id(an)
    if key not in _taint_cache:
        res: Dict[Tuple[str, str], str] = {}
        changed = True
        while changed:
            changed = False
            for m in an.prog.lib_modules():
                for name, exprs in m.assigns.items():
                    if (m.name, name) in res:
                        continue
                    for e in exprs:
                        for n in ast.walk(e):
                            if isinstance(n, ast.Name):
                                r = an.prog.resolve_global(m, n.id)
                                if r and r[0] == "ext" and r[1].split(".")[0] in VERSION_MODULES:
                                    res[(m.name, name)] = r[1]
                                    changed = True
                                elif r and r[0] == "var" and (r[1].name, r[2]) in res and (r[1].name, r[2]) != (m.name, name):
                                    res[(m.name, name)] = res[(r[1].name, r[2])]
                                    changed = True
        _taint_cache[key] = res
    return _taint_cache[key]


def _is_version_test(an, m, test) -> bool:
    for n in ast.walk(test):
        c = attr_chain(n) if isinstance(n, (ast.Attribute, ast.Name)) else None
        if c:
            r = an.prog.resolve_global(m, c.split(".")[0])
            if r and r[0] == "ext" and r[1].split(".")[0] in VERSION_MODULES:
                return True
            if r and r[0] == "var" and (r[1].name, r[2]) in tainted_all(an):
                return True
    return False


def tainted_module_constants(an, m):
    return {k: v for k, v in tainted_all(an).items() if k[0] == m.name}


def module_level_imports(an: Analysis, m: Module) -> List[Tuple[str, ast.AST, bool]]:
    """(imported module, node, conditional?) for module-level imports incl. those under if/try."""
    out = []

    def rec(stmts, cond):
        for st in stmts:
            if isinstance(st, ast.Import):
                for a in st.names:
                    out.append((a.name, st, cond))
            elif isinstance(st, ast.ImportFrom):
                if st.level:
                    base = m.name if getattr(m, "is_pkg", False) else m.name.rsplit(".", 1)[0]
                    mod = base + ("." + st.module if st.module else "")
                    for a in st.names:
                        sub = f"{mod}.{a.name}"
                        out.append((sub if sub in an.prog.modules else mod, st, cond))
                else:
                    out.append((st.module or "", st, cond))
            elif isinstance(st, ast.If):
                rec(st.body, True)
                rec(st.orelse, True)
            elif isinstance(st, ast.Try):
                rec(st.body, True)
                for h in st.handlers:
                    rec(h.body, True)
                rec(st.orelse, True)

    rec(m.tree.body, False)
    return out


def run(an: Analysis, rep):
    rep.explanation = (
        "Decides that nothing on the JSON / normalize paths can depend on the interpreter version: the call closures of to_json_data, "
        "from_json_data and normalize (computed per version and required to be identical) contain no reference to sys.version_info, "
        "dis, opcode, platform, ctypes or a module constant derived from them; the modules those closures live in import no such "
        "module at top level and have no version-conditional top-level statement; no call in the closures uses a builtin whose result "
        "depends on the interpreter's Unicode database or int/str digit limit (repr of str, decimal str(int)/int(str) of unbounded "
        "values, hash); every import resolves in the stdlib source trees of 3.7..3.12. The same scan must find version-dependent "
        "constructs in the from_code closure (non-vacuity). Byte identity across JSON libraries is not decided."
    )
    rep.rule("R15.1", "the JSON / normalize closures and their modules are version-free", 15)
    rep.rule("R15.2", "no version-dependent builtin is applied to data on the JSON paths", 3)
    rep.rule("R15.3", "every import of the JSON-path modules resolves on 3.7..3.12", 8)
    closure_mods: Set[str] = set()
    interps = []
    for entry in ENTRIES:
        per_v = {}
        for V in VERSIONS:
            it, _ = an.interp(entry, V)
            interps.append(it)
            per_v[V] = frozenset(it.reached)
        same = len(set(per_v.values())) == 1
        rep.add("R15.1", f"{entry}::same closure under every interpreter version", same, "code_data/__init__.py",
                f"{len(per_v[VERSIONS[0]])} functions reached under each of 3.7..3.10" if same else
                f"the set of functions reached differs between versions: {sorted(set.union(*map(set, per_v.values())) - set.intersection(*map(set, per_v.values())))}")
        for f in an.closure(entry, (3, 10)):
            closure_mods.add(f.module.name)
            vc = version_constructs(an, f)
            rep.add("R15.1", f"{f.qual}::version-free", not vc, loc(f.module, vc[0][0]) if vc else loc(f.module, f.node),
                    f"{vc[0][1]} (`{norm_src(vc[0][0])}`): the JSON form / normalization would depend on the interpreter that runs it" if vc
                    else "no reference to sys/dis/opcode/platform/ctypes or to a constant derived from them", config=entry)
    # modules: top-level imports and statements
    for mn in sorted(closure_mods):
        m = an.prog.module(mn)
        bad = []
        # (merely importing sys/dis/... is harmless; uses are found per function above)
        for st in m.tree.body:
            if isinstance(st, ast.If) and _is_version_test(an, m, st.test):
                defs = [x for blk in (st.body, st.orelse) for x in blk if not isinstance(x, (ast.Import, ast.ImportFrom, ast.Pass))]
                if defs:
                    bad.append(f"version-conditional definition at module level (line {st.lineno}): {norm_src(defs[0])[:60]}")
        rep.add("R15.1", f"{mn}::module level is version-free", not bad, m.relpath,
                "; ".join(bad) if bad else "no version-dependent import, constant or conditional at module level")
    # non-vacuity: the scan does fire on the bytecode decoder
    n_pos = 0
    for f in an.closure("from_code", (3, 10)):
        n_pos += len(version_constructs(an, f))
    if n_pos < 3:
        raise AnalysisError(f"positive control failed: the version-construct scan finds only {n_pos} sites in the from_code closure")
    rep.extra["positive_control_sites_in_from_code_closure"] = n_pos
    rep.run(r152, an, rep)
    rep.run(r153, an, rep, closure_mods)
    rep.run(r154, an, rep, closure_mods)
    from .common import SharedRules, purity
    from . import c08
    rep.run(purity, an, rep, "R15.P", list(ENTRIES))
    from .common import assert_guard_rule as _agrx
    rep.run(_agrx, an, rep, "R15.G", list(ENTRIES))
    from .common import set_order_rule as _sor
    rep.run(_sor, an, rep, "R15.O", list(ENTRIES))
    from .common import process_state_rule as _psr15
    rep.run(_psr15, an, rep, "R15.T", list(ENTRIES))
    from .common import old_interpreter_rule
    rep.run(old_interpreter_rule, an, rep, "R15.V", list(ENTRIES))
    rep.run(c08.r083, an, SharedRules(rep, "R15.S", "what from_json_data builds has the shape the data classes declare (tuples, not the lists of the document) (shared with C08's R08.3): otherwise re-serialising the loaded data fails or differs"))
    from . import c07
    from .json_model import find_json_functions as _fjf, load_schema as _ls
    shj = SharedRules(rep, "R15.J", "what to_json_data writes is what from_json_data reads back, tag by tag (shared with C07's R07.1 / R07.3): 'loaded ... into data that re-serializes to the identical document'")
    _root, _defs = _ls(an)
    _enc, _cdec = _fjf(an)
    rep.run(c07.r071, an, shj, _enc, _cdec, _defs)
    rep.run(c07.r073, an, shj, _enc)
    rep.run(c07.r07a, an, shj, _enc)
    rep.run(c07.r07b, an, shj, _defs)
    rep.run(c07.r07r, an, shj)
    from . import json_fold as _jf
    rep.run(_jf.fold_rule, an, shj)
    rep.run(_jf.encode_fold_rule, an, shj)
    rep.run(_jf.constants_fold_rule, an, shj)
    from .common import SharedRules as _SRE
    from . import c08 as _c08e
    she = _SRE(rep, "R15.E", "fields equal to their default are left out of the document, and 'equal' is the data classes' own ==: every field takes part in equality, hand-written __eq__ covers every "
                               "field, and the constant key identifies all NaNs and nothing else (shared with C08's R08.1 / R08.2 / R08.4) - a field left out of == makes a non-default value vanish from the document")
    rep.run(_c08e.r081, an, she)
    rep.run(_c08e.r082, an, she)
    rep.run(_c08e.r084, an, she)
    rep.stats.update(an.stats(interps))
    rep.assumptions += [
        "json / orjson themselves serialise floats, strings and containers identically on 3.7..3.12",
        "ascii() and ast.literal_eval are version-independent on str literals; base64 is version-independent",
    ]


def r152(an: Analysis, rep):
    enc, cdec = find_json_functions(an)
    p = enc.params[0]
    arms, _ = isinstance_arms(enc, p)
    n = 0
    for names, body, node in arms:
        for st in body:
            for c in ast.walk(st):
                if not (isinstance(c, ast.Call) and isinstance(c.func, ast.Name) and c.args):
                    continue
                a0 = c.args[0]
                on_param = isinstance(a0, ast.Name) and a0.id == p
                if c.func.id in ("repr",) and on_param and "str" in names:
                    n += 1
                    rep.add("R15.2", f"{enc.qual}::{norm_src(c)} of a str", False, loc(enc.module, c),
                            "repr() of a str escapes characters according to the running interpreter's Unicode database (str.isprintable): "
                            "\"\\ud800\\U0001FAE0\" is written as '\\ud800\\U0001fae0' up to Python 3.10 and with the literal character from 3.11, so a "
                            "document re-serialised on another interpreter differs")
                elif c.func.id in ("ascii",) and on_param and "str" in names:
                    n += 1
                    rep.add("R15.2", f"{enc.qual}::{norm_src(c)} of a str", True, loc(enc.module, c), "ascii() escapes every non-ASCII character identically on every version")
                elif c.func.id in ("str", "repr") and on_param and "int" in names:
                    n += 1
                    rep.add("R15.2", f"{enc.qual}::{norm_src(c)} of an unbounded int", False, loc(enc.module, c),
                            "decimal conversion of an unbounded int raises ValueError beyond 4300 digits on interpreters with the int/str digit limit "
                            "(3.7.14+, 3.8.14+, 3.9.14+, 3.10.7+, 3.11+) and not on older ones: whether a document can be written depends on the interpreter")
                elif c.func.id == "hash":
                    n += 1
                    rep.add("R15.2", f"{enc.qual}::{norm_src(c)}", False, loc(enc.module, c), "hash() of str/bytes/NaN differs between processes and versions")
    for k, read, node in decoder_tags(cdec):
        for c in ast.walk(node):
            if isinstance(c, ast.Call) and isinstance(c.func, ast.Name) and c.func.id == "int" and len(c.args) == 1 and k == "int":
                n += 1
                rep.add("R15.2", f"{cdec.qual}::{norm_src(c)} of unbounded decimal text", False, loc(cdec.module, c),
                        "int() of an arbitrarily long decimal string raises ValueError beyond 4300 digits on interpreters with the digit limit: a document written "
                        "under an older interpreter does not load under a newer one")
    # generic scan of the closures for the denylisted builtins on anything
    for entry in ENTRIES:
        for f in an.closure(entry, (3, 10)):
            if f is enc or f is cdec:
                continue
            for c in ast.walk(f.node):
                if isinstance(c, ast.Call) and isinstance(c.func, ast.Name) and c.func.id in ("hash", "repr", "id"):
                    r = an.prog.resolve_global(f.module, c.func.id, f)
                    if r is None or (r[0] == "ext" and r[1].startswith("builtins")):
                        from .encode_model import in_error_message
                        if in_error_message(f.module, c):
                            continue
                        n += 1
                        rep.add("R15.2", f"{f.qual}::{norm_src(c)}", False, loc(f.module, c),
                                f"{c.func.id}() result depends on the interpreter / process")
    # feature detection on builtin types = behaviour that differs between interpreter versions
    builtin_types = {"str", "bytes", "int", "float", "dict", "list", "tuple", "set", "frozenset", "object", "type"}
    for entry in ENTRIES:
        for f in an.closure(entry, (3, 10)):
            for c in ast.walk(f.node):
                if isinstance(c, ast.Call) and isinstance(c.func, ast.Name) and c.func.id in ("hasattr", "getattr") and len(c.args) >= 2 and isinstance(c.args[1], ast.Constant):
                    tgt = c.args[0]
                    it_, _ = an.interp(entry, (3, 10))
                    vals = it_.value_at(tgt)
                    on_builtin = (isinstance(tgt, ast.Name) and tgt.id in builtin_types) or any(
                        (a[0] == "src" and (it_.tg.unfold_rec(it_.src_type(a))[0] in ("leaf", "tuple", "list", "dict"))) or a[0] in ("const", "der") for a in vals)
                    if c.func.id == "hasattr" and on_builtin:
                        n += 1
                        rep.add("R15.2", f"{f.qual}::{norm_src(c)}", False, loc(f.module, c),
                                f"`{norm_src(c)}` tests whether a builtin value has the method {c.args[1].value!r}: that differs between interpreter versions (e.g. str.removeprefix exists "
                                f"from 3.9), so the two branches run on different hosts and a document is decoded differently depending on where it is loaded")
    # str predicates / case mappings answered from the running interpreter's Unicode database (11.0 on 3.7, 12.1 on 3.8, 13.0 on 3.9/3.10, 14.0 on 3.11, 15.0 on 3.12)
    unicode_db = {"isidentifier", "isprintable", "isalpha", "isalnum", "isdecimal", "isdigit", "isnumeric", "islower", "isupper", "istitle", "isspace",
                  "casefold", "lower", "upper", "title", "capitalize", "swapcase"}
    for entry in ENTRIES:
        it_u, _ = an.interp(entry, (3, 10))
        for f in an.closure(entry, (3, 10)):
            for c in ast.walk(f.node):
                if isinstance(c, ast.Call) and isinstance(c.func, ast.Attribute) and c.func.attr in unicode_db and not c.args:
                    from .encode_model import in_error_message
                    if in_error_message(f.module, c):
                        continue
                    vals = it_u.value_at(c.func.value)
                    if any(a[0] in ("src", "der") for a in vals):
                        n += 1
                        rep.add("R15.2", f"{f.qual}::{norm_src(c)} on document data", False, loc(f.module, c),
                                f"`{norm_src(c)}` is answered from the Unicode database of the running interpreter (11.0 on 3.7 ... 15.0 on 3.12): for a character assigned in between "
                                f"(a name written with U+1FAE0 under 3.12, U+A7C0 under 3.9) the hosts disagree, so a document written on one is rejected or decoded differently on another")
    from . import c07 as _c07
    it_ord, _ = an.interp("from_json")
    for g in an.closure("from_json"):
        for c in ast.walk(g.node):
            if isinstance(c, ast.Call) and isinstance(c.func, ast.Name) and c.func.id == "next" and c.args and isinstance(c.args[0], ast.Call) \
                    and isinstance(c.args[0].func, ast.Name) and c.args[0].func.id == "iter" and c.args[0].args and any(a[0] == "src" for a in it_ord.value_at(c.args[0].args[0])):
                n += 1
                rep.add("R15.2", f"{g.qual}::{norm_src(c)} does not depend on member order", False, loc(g.module, c),
                        f"`{norm_src(c)}` takes the first member of a JSON object: documents exchanged in canonical form (sorted keys) or written by another JSON library are not "
                        f"decoded the same way")
    rep.add("R15.2", "scan::denylisted builtins in the three closures", True, "code_data/_json_data.py",
            f"{n} call sites of repr/ascii/str(int)/int(str)/hash examined", nontrivial=False)


def r153(an: Analysis, rep, closure_mods: Set[str]):
    path = os.path.join(REF, "stdlib_names.json")
    table = json.load(open(path))
    todo = set(closure_mods)
    seen: Set[str] = set()
    # import closure within the package (module-level imports only)
    while todo:
        mn = todo.pop()
        if mn in seen or mn not in an.prog.modules:
            continue
        seen.add(mn)
        for mod, node, cond in module_level_imports(an, an.prog.module(mn)):
            if mod in an.prog.modules or mod.rsplit(".", 1)[0] in an.prog.modules:
                todo.add(mod if mod in an.prog.modules else mod.rsplit(".", 1)[0])
    for mn in sorted(seen):
        m = an.prog.module(mn)
        for st in ast.walk(m.tree):
            pairs = []
            if isinstance(st, ast.Import):
                pairs = [(a.name, None) for a in st.names]
            elif isinstance(st, ast.ImportFrom) and st.level == 0 and st.module:
                pairs = [(st.module, a.name) for a in st.names]
            for mod, name in pairs:
                top = mod.split(".")[0]
                key = mod + (":" + name if name else "")
                if top == "__future__":
                    rep.add("R15.3", f"{mn}::{key}", True, loc(m, st), "from __future__ import annotations (3.7+)", nontrivial=False)
                    continue
                if top in ALLOWED_THIRD_PARTY:
                    rep.add("R15.3", f"{mn}::{key}", True, loc(m, st), "declared dependency of the package", nontrivial=False)
                    continue
                if top == an.prog.package:
                    continue
                # optional imports guarded by try/except ImportError are not required
                if _in_try_import(m, st):
                    rep.add("R15.3", f"{mn}::{key}", True, loc(m, st), "optional import (try/except ImportError or TYPE_CHECKING only)", nontrivial=False)
                    continue
                row = table.get(key)
                if row is None:
                    # not in the committed table (an import the tree did not have when it was written): parse the stdlib source trees now
                    import reference.stdlib_names as SN
                    row = {v: SN.lookup(v, mod, name) for v in SN.TREES}
                    if any(x is None for x in row.values()):
                        raise AnalysisError(f"import {key} in {mn} is not in reference/stdlib_names.json and the stdlib source trees are not all present")
                missing = [v for v, ok in row.items() if ok is False]
                rep.add("R15.3", f"{mn}::{key}", not missing, loc(m, st),
                        f"{key} is not defined in the stdlib of {missing}: importing {mn} fails there, so a document cannot be loaded on that host" if missing
                        else f"defined in the stdlib sources of {', '.join(sorted(row, key=lambda s: tuple(map(int, s.split('.')))))}")


def _in_try_import(m: Module, node) -> bool:
    pm = parent_map(m)
    cur = node
    while id(cur) in pm:
        par = pm[id(cur)]
        if isinstance(par, ast.If) and any(cur is s for s in par.body) and any(
                (isinstance(x, ast.Name) and x.id == "TYPE_CHECKING") or (isinstance(x, ast.Attribute) and x.attr == "TYPE_CHECKING") for x in ast.walk(par.test)):
            return True  # only evaluated by type checkers
        if isinstance(par, ast.If) and any(isinstance(x, ast.Attribute) and x.attr in VERSION_ATTRS for x in ast.walk(par.test)):
            return True  # guarded by an explicit version test
        if isinstance(par, ast.Try) and any(cur is s for s in par.body):
            for h in par.handlers:
                names = {x.id for x in ast.walk(h.type)} if h.type is not None and not isinstance(h.type, ast.Name) else ({h.type.id} if h.type is not None else {"BaseException"})
                if names & {"ImportError", "ModuleNotFoundError", "Exception", "BaseException"}:
                    return True
        cur = par
    return False


# ----------------------------------------------------------------------------- R15.4
_RE_FUNCS = {"compile", "match", "fullmatch", "search", "sub", "subn", "split", "findall", "finditer"}
_PEP585 = {"tuple", "list", "dict", "set", "frozenset", "type"}


def _annotation_nodes(m: Module) -> Set[int]:
    """ids of nodes inside annotations that are never evaluated (module has `from __future__ import annotations`; locals' annotations never are)."""
    lazy = any(isinstance(st, ast.ImportFrom) and st.module == "__future__" and any(a.name == "annotations" for a in st.names) for st in m.tree.body)
    out: Set[int] = set()

    def mark(n):
        if n is not None:
            for x in ast.walk(n):
                out.add(id(x))
    for fn in ast.walk(m.tree):
        if isinstance(fn, (ast.FunctionDef, ast.AsyncFunctionDef)):
            if lazy:
                a = fn.args
                for x in a.posonlyargs + a.args + a.kwonlyargs + ([a.vararg] if a.vararg else []) + ([a.kwarg] if a.kwarg else []):
                    mark(x.annotation)
                mark(fn.returns)
            for st in ast.walk(fn):
                if isinstance(st, ast.AnnAssign) and isinstance(st.target, ast.Name):
                    mark(st.annotation)  # annotations of local variables are never evaluated
        elif isinstance(fn, ast.AnnAssign) and lazy:
            mark(fn.annotation)
    return out


def r154(an: Analysis, rep, closure_mods: Set[str]):
    """Constructs whose *evaluation* differs between 3.7 .. 3.12, in code that runs when a JSON-path module is imported or a document is
    loaded: (a) regular-expression syntax - a global inline flag after the start of the pattern is an error from 3.11, possessive
    quantifiers / atomic groups are errors before 3.11; (b) isinstance / issubclass against a typing.Union alias raises TypeError before
    3.10; (c) a subscripted builtin container (tuple[int, ...], PEP 585) outside an unevaluated annotation raises TypeError on 3.7 / 3.8."""
    import re as _re
    rep.rule("R15.4", "no regular-expression syntax, Union instance check or subscripted builtin whose evaluation differs across 3.7 .. 3.12", 0)
    n = {"regex": 0, "instance checks": 0, "subscripts": 0}
    for mn in sorted(closure_mods):
        m = an.prog.module(mn)
        lazy_nodes = _annotation_nodes(m)
        for c in ast.walk(m.tree):
            # (a)
            if isinstance(c, ast.Call) and c.args and isinstance(c.args[0], ast.Constant) and isinstance(c.args[0].value, str):
                fname = c.func.attr if isinstance(c.func, ast.Attribute) else (c.func.id if isinstance(c.func, ast.Name) else None)
                base_ok = False
                if isinstance(c.func, ast.Attribute) and isinstance(c.func.value, ast.Name):
                    r = an.prog.resolve_global(m, c.func.value.id, None)
                    base_ok = bool(r and r[0] == "ext" and r[1] == "re")
                elif isinstance(c.func, ast.Name):
                    r = an.prog.resolve_global(m, c.func.id, None)
                    base_ok = bool(r and r[0] == "ext" and r[1].startswith("re."))
                if base_ok and fname in _RE_FUNCS:
                    n["regex"] += 1
                    pat = c.args[0].value
                    why = None
                    mm = _re.search(r"\(\?[aiLmsux]+\)", pat)
                    if mm and mm.start() > 0:
                        why = (f"the global inline flag `{mm.group(0)}` is not at the start of the pattern: a DeprecationWarning up to 3.10, `re.error: global flags not at the "
                               f"start of the expression` from 3.11 - the document loads on 3.7-3.10 and fails on 3.11+")
                    elif _re.search(r"(?<!\\)(\*\+|\+\+|\?\+|\}\+|\(\?>)", pat):
                        why = "possessive quantifier / atomic group: supported from 3.11 only, `re.error` on 3.7-3.10"
                    rep.add("R15.4", f"{mn}::pattern {pat!r}", why is None, loc(m, c), "pattern uses syntax common to 3.7 .. 3.12" if why is None else f"regular expression {pat!r}: {why}")
            # (b)
            if isinstance(c, ast.Call) and isinstance(c.func, ast.Name) and c.func.id in ("isinstance", "issubclass") and len(c.args) == 2:
                n["instance checks"] += 1
                for x in ([c.args[1]] + (list(c.args[1].elts) if isinstance(c.args[1], ast.Tuple) else [])):
                    if isinstance(x, ast.Name):
                        r = an.prog.resolve_global(m, x.id, None)
                        if r and r[0] == "var":
                            exprs = r[1].assigns.get(r[2], [])
                            if exprs and isinstance(exprs[0], ast.Subscript) and norm_src(exprs[0].value).split(".")[-1] in ("Union", "Optional"):
                                rep.add("R15.4", f"{mn}::{norm_src(c)[:50]}", False, loc(m, c),
                                        f"`{x.id}` is the typing alias `{norm_src(exprs[0])[:60]}`: isinstance() against a Union raises `TypeError: Subscripted generics cannot be used "
                                        f"with class and instance checks` on 3.7-3.9 and works from 3.10 - a document that reaches this test loads on some hosts only")
            # (c)
            if isinstance(c, ast.Subscript) and isinstance(c.value, ast.Name) and c.value.id in _PEP585 and id(c) not in lazy_nodes and isinstance(c.ctx, ast.Load):
                r = an.prog.resolve_global(m, c.value.id, None)
                if r is None:  # the builtin, not a local alias
                    # only when not merely a value subscript: builtins are classes, `tuple[...]` is always a generic alias
                    n["subscripts"] += 1
                    rep.add("R15.4", f"{mn}::{norm_src(c)[:40]}", False, loc(m, c),
                            f"`{norm_src(c)[:50]}` is evaluated at run time (it is not inside an annotation that `from __future__ import annotations` leaves unevaluated): subscripting "
                            f"the builtin `{c.value.id}` raises `TypeError: 'type' object is not subscriptable` on 3.7 and 3.8 (PEP 585 is 3.9+)")
    rep.add("R15.4", "version-sensitive run-time constructs examined", True, "code_data/", f"{n} in modules {sorted(closure_mods)}", nontrivial=False)
