"""Obligations, findings, evidence files."""
from __future__ import annotations

import json
import os
import random
import time
from dataclasses import dataclass, field
from typing import Dict, List, Optional

VERIF = os.path.dirname(os.path.dirname(os.path.abspath(__file__)))
KNOWN_FILE = os.path.join(VERIF, "known_findings.json")


@dataclass
class Ob:
    rule: str
    key: str  # stable: <rule>:<module>::<function>::<construct>
    status: str  # discharged | violated | warn
    where: str
    detail: str
    nontrivial: bool = False
    configs: List[str] = field(default_factory=list)


class Report:
    def __init__(self, pid: str, tier: str, seed: int):
        self.pid = pid
        self.tier = tier
        self.seed = seed
        self.obs: Dict[str, Ob] = {}
        self.order: List[str] = []
        self.rule_docs: Dict[str, str] = {}
        self.rule_min: Dict[str, int] = {}
        self.assumptions: List[str] = []
        self.stats: Dict[str, object] = {}
        self.explanation = ""
        self.t0 = time.time()
        self.extra: Dict[str, object] = {}
        self.gaps: List[str] = []

    def run(self, fn, *args, **kw):
        """Run one rule function; an unrecognised idiom / vanished anchor inside it is recorded as a gap and does not
        hide the violations other rules find."""
        from .model import AnalysisError
        try:
            return fn(*args, **kw)
        except AnalysisError as e:
            self.gaps.append(f"{getattr(fn, '__name__', 'rule')}: {e}")
            return None

    def rule(self, rid: str, doc: str, min_instances: int = 1):
        self.rule_docs[rid] = doc
        self.rule_min[rid] = min_instances

    def add(self, rule: str, construct: str, ok, where: str, detail: str, nontrivial: bool = True,
            config: str = "", warn: bool = False):
        """ok True -> discharged, False -> violated (or warn)."""
        key = f"{rule}:{construct}"
        status = "discharged" if ok else ("warn" if warn else "violated")
        ob = self.obs.get(key)
        if ob is None:
            ob = Ob(rule, key, status, where, detail, nontrivial, [config] if config else [])
            self.obs[key] = ob
            self.order.append(key)
        else:
            if config and config not in ob.configs:
                ob.configs.append(config)
            rank = {"discharged": 0, "warn": 1, "violated": 2}
            if rank[status] > rank[ob.status]:
                ob.status, ob.where, ob.detail = status, where, detail
            ob.nontrivial = ob.nontrivial or nontrivial
        return ok

    # ----------------------------------------------------------------- output
    def finish(self, known: dict) -> int:
        from .model import AnalysisError

        counts: Dict[str, int] = {}
        for ob in self.obs.values():
            counts[ob.rule] = counts.get(ob.rule, 0) + 1
        any_violated = any(o.status == "violated" for o in self.obs.values())
        for g in self.gaps:
            print(f"ANALYSIS-ERROR property={self.pid}: {g}")
        for rid, mn in self.rule_min.items():
            if counts.get(rid, 0) < mn and not any_violated:
                raise AnalysisError(
                    f"rule {rid} matched {counts.get(rid, 0)} instances, fewer than the {mn} confirmed by hand: "
                    f"an anchor vanished, the rule would pass vacuously"
                )
        violated = [o for o in self.obs.values() if o.status == "violated"]
        warns = [o for o in self.obs.values() if o.status == "warn"]
        kf = {e["key"]: e for e in known.get("findings", []) if e.get("property") == self.pid}
        new, listed = [], []
        for o in violated:
            e = kf.get(o.key)
            if e is not None and e.get("state") == "known":
                listed.append((o, e))
            else:
                new.append(o)
        for o in warns:
            print(f"WARN property={self.pid} {o.key} at {o.where}: {o.detail}")
        for o, e in listed:
            print(f"KNOWN-FINDING: property={self.pid} {o.key} at {o.where}: {e.get('what', o.detail)}")
        evdir = os.environ.get("VERIF_EVIDENCE_DIR") or os.path.join(VERIF, "evidence")
        os.makedirs(evdir, exist_ok=True)
        replay = os.path.join(evdir, f"{self.pid}.violations.json")
        if new:
            with open(replay, "w") as f:
                json.dump([o.__dict__ for o in new], f, indent=1)
            for o in new:
                print(f"FINDING property={self.pid} rule={o.rule} key={o.key}\n    at {o.where}\n    {o.detail}")
            print(f"VIOLATION property={self.pid} replay={replay}")
        elif os.path.exists(replay):
            os.remove(replay)
        if self.gaps and not new:
            # nothing violated, but part of the property could not be decided: never a silent pass
            raise AnalysisError("; ".join(self.gaps))
        self.write_evidence(len(new), len(listed), counts)
        n = len(self.obs)
        d = sum(1 for o in self.obs.values() if o.status == "discharged")
        print(f"{self.pid}: {n} obligations, {d} discharged, {len(warns)} warn, {len(listed)} known finding(s), "
              f"{len(new)} new violation(s); rules: " + ", ".join(f"{r}={c}" for r, c in sorted(counts.items())))
        return 1 if new else 0

    def write_evidence(self, n_new: int, n_known: int, counts: Dict[str, int]):
        rnd = random.Random(self.seed)
        obs = list(self.obs.values())
        discharged = [o for o in obs if o.status == "discharged"]
        nontriv = {o.key for o in obs if o.nontrivial}
        sample = rnd.sample(discharged, min(8, len(discharged)))
        sample += [o for o in obs if o.status != "discharged"][:6]
        # the folds (partial evaluation over witness sets) say in their detail what they covered: always listed
        folds = [o for o in discharged if ("witness" in o.key or "witness" in o.detail) and o not in sample]
        sample += folds[:40]
        ev = {
            "property_id": self.pid,
            "tier": self.tier,
            "seed": self.seed,
            "level": "other",
            "coverage": {
                "explanation": self.explanation,
                "obligations": len(obs),
                "discharged": len(discharged),
                "evaluations": len(obs),
                "distinct_nontrivial": len(nontriv),
                "rule": "one obligation per rule instance enumerated from /repo's current source (fields, flags, slots, "
                        "call sites, mutation sites, guard paths, per interpreter version / line-table format); an "
                        "obligation is counted non-trivial when deciding it needed a provenance chain, a path/guard "
                        "walk, a finite-domain evaluation or an effect classification rather than a declaration look-up",
                "exhaustive": True,
                "per_rule": counts,
                "rules": self.rule_docs,
                "samples": [
                    {"rule": o.rule, "key": o.key, "status": o.status, "where": o.where, "detail": o.detail,
                     "configs": o.configs}
                    for o in sample
                ],
                "known_findings_reported": n_known,
                "warnings": [o.key for o in obs if o.status == "warn"],
                "checker_cmd": f"/venv/bin/python /verif/check {self.pid} --tier {self.tier}",
                "trusted_base": [
                    "CPython's ast parser (/venv/bin/python 3.12)",
                    "the analyser in /verif/sa (model, type graph, abstract interpreter, path walker, feval)",
                    "the CPython contract tables in /verif/reference",
                ],
                **self.stats,
                **self.extra,
            },
            "assumptions": self.assumptions,
            "wall_s": round(time.time() - self.t0, 3),
            "violations": n_new,
        }
        evdir = os.environ.get("VERIF_EVIDENCE_DIR") or os.path.join(VERIF, "evidence")
        os.makedirs(evdir, exist_ok=True)
        with open(os.path.join(evdir, f"{self.pid}.json"), "w") as f:
            json.dump(ev, f, indent=1, default=str)


def load_known() -> dict:
    if not os.path.exists(KNOWN_FILE):
        return {"findings": []}
    with open(KNOWN_FILE) as f:
        return json.load(f)
