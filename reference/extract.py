#!/usr/bin/env python3
"""
Extracts CPython's contract tables *statically* (ast parsing, no import) from the stdlib
source trees of the interpreters the library supports, and writes reference/cpython-3.X.json.
Run by the thorough tier to detect drift between the committed tables and the sources.
"""
import ast
import json
import os
import sys

HERE = os.path.dirname(os.path.abspath(__file__))
PYENV = "/root/.pyenv/versions"
TREES = {"3.7": "3.7.16", "3.8": "3.8.18", "3.9": "3.9.18", "3.10": "3.10.13"}


def libdir(v):
    return os.path.join(PYENV, TREES[v], "lib", f"python{v}")


def parse(path):
    with open(path, encoding="utf-8") as f:
        return ast.parse(f.read())


def extract_opcode(v):
    tree = parse(os.path.join(libdir(v), "opcode.py"))
    cats = {k: [] for k in ("hasconst", "hasname", "hasjrel", "hasjabs", "haslocal", "hascompare", "hasfree", "hasnargs")}
    opmap = {}
    have_argument = None
    helpers = {"name_op": "hasname", "jrel_op": "hasjrel", "jabs_op": "hasjabs"}
    for st in tree.body:
        if isinstance(st, ast.Expr) and isinstance(st.value, ast.Call):
            c = st.value
            if isinstance(c.func, ast.Name) and c.func.id in ("def_op", "name_op", "jrel_op", "jabs_op"):
                name, op = ast.literal_eval(c.args[0]), ast.literal_eval(c.args[1])
                opmap[name] = op
                if c.func.id in helpers:
                    cats[helpers[c.func.id]].append(op)
            elif isinstance(c.func, ast.Attribute) and c.func.attr == "append" and isinstance(c.func.value, ast.Name) and c.func.value.id in cats:
                cats[c.func.value.id].append(ast.literal_eval(c.args[0]))
        elif isinstance(st, ast.Assign) and isinstance(st.targets[0], ast.Name) and st.targets[0].id == "HAVE_ARGUMENT":
            have_argument = ast.literal_eval(st.value)
    return {"opmap": opmap, "HAVE_ARGUMENT": have_argument, "EXTENDED_ARG": opmap.get("EXTENDED_ARG"),
            **{k: sorted(v) for k, v in cats.items()}}


def extract_flags(v):
    tree = parse(os.path.join(libdir(v), "dis.py"))
    names = None
    for st in tree.body:
        if isinstance(st, ast.Assign) and isinstance(st.targets[0], ast.Name) and st.targets[0].id == "COMPILER_FLAG_NAMES":
            names = {int(k): val for k, val in ast.literal_eval(st.value).items()}
    ft = parse(os.path.join(libdir(v), "__future__.py"))
    consts = {}
    features = []
    feature_flag = {}
    for st in ft.body:
        if isinstance(st, ast.Assign) and isinstance(st.targets[0], ast.Name):
            n = st.targets[0].id
            if n.startswith("CO_"):
                consts[n] = ast.literal_eval(st.value)
            elif n == "all_feature_names":
                features = ast.literal_eval(st.value)
            elif isinstance(st.value, ast.Call) and getattr(st.value.func, "id", "") == "_Feature":
                flag = st.value.args[2]
                feature_flag[n] = consts[flag.id] if isinstance(flag, ast.Name) else ast.literal_eval(flag)
    return {"COMPILER_FLAG_NAMES": {str(k): v for k, v in sorted(names.items())}, "future_features": features,
            "future_flags": feature_flag}


def extract_dis_scale(v):
    """jump scale used by dis.findlabels / _get_instructions_bytes: 1 (byte offsets) or 2 (instruction offsets)."""
    src = open(os.path.join(libdir(v), "dis.py"), encoding="utf-8").read()
    tree = ast.parse(src)
    scale = 1
    for fn in ast.walk(tree):
        if isinstance(fn, ast.FunctionDef) and fn.name == "findlabels":
            for n in ast.walk(fn):
                if isinstance(n, ast.BinOp) and isinstance(n.op, ast.Mult):
                    for side in (n.left, n.right):
                        if isinstance(side, ast.Constant) and side.value == 2:
                            scale = 2
    return scale


def extract_enum_decompose(v):
    tree = parse(os.path.join(libdir(v), "enum.py"))
    for fn in ast.walk(tree):
        if isinstance(fn, ast.FunctionDef) and fn.name == "_decompose":
            rets = [n for n in ast.walk(fn) if isinstance(n, ast.Return)]
            last = rets[-1].value
            if isinstance(last, ast.Tuple) and len(last.elts) == 2:
                return [ast.unparse(e) for e in last.elts]
    return None


def extract_enum_pseudo_members(v):
    """Does calling a Flag class with an unnamed value register a pseudo-member in the class-level value map that _decompose reads?
    (Flag._create_pseudo_member_ -> cls._value2member_map_.setdefault(value, pseudo_member))"""
    tree = parse(os.path.join(libdir(v), "enum.py"))
    writes, reads = [], False
    for fn in ast.walk(tree):
        if isinstance(fn, ast.FunctionDef) and fn.name == "_create_pseudo_member_":
            for n in ast.walk(fn):
                if isinstance(n, ast.Call) and isinstance(n.func, ast.Attribute) and n.func.attr == "setdefault" \
                        and isinstance(n.func.value, ast.Attribute) and n.func.value.attr == "_value2member_map_":
                    writes.append(fn.lineno)
        if isinstance(fn, ast.FunctionDef) and fn.name == "_decompose":
            reads = any(isinstance(n, ast.Attribute) and n.attr == "_value2member_map_" for n in ast.walk(fn))
    return {"call_registers_pseudo_member": bool(writes), "decompose_reads_value_map": reads}


def build(v):
    d = {"version": v, "source_tree": TREES[v]}
    d.update(extract_opcode(v))
    d.update(extract_flags(v))
    d["jump_scale"] = extract_dis_scale(v)
    d["enum_decompose_returns"] = extract_enum_decompose(v)
    d["enum_pseudo_members"] = extract_enum_pseudo_members(v)
    return d


def main():
    check = "--check" in sys.argv
    drift = []
    for v in TREES:
        if not os.path.isdir(libdir(v)):
            print(f"reference: stdlib tree for {v} not present, skipped")
            continue
        d = build(v)
        path = os.path.join(HERE, f"cpython-{v}.json")
        if check:
            old = json.load(open(path))
            if old != d:
                drift.append(v)
        else:
            json.dump(d, open(path, "w"), indent=1, sort_keys=True)
            print("wrote", path)
    if check:
        print("reference drift:", drift or "none")
        return 2 if drift else 0
    return 0


if __name__ == "__main__":
    sys.exit(main())
