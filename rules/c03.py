"""C03 - encoding any well-formed CodeData yields code that says what the data says (DESIGN 5, R03.1-R03.7)."""
from __future__ import annotations

import ast
import copy
import os
from typing import Dict, List, Optional, Set, Tuple

from sa.analysis import VERSIONS, Analysis, vname
from sa.feval import FevalError, callable_for_feval, feval
from sa.model import AnalysisError, ClassInfo, FunctionInfo, loc, norm_src

from . import c08
from .c02 import find_parser, module_consts
from .common import attr_chain, returns_of
from .encode_model import constants_table_objs, guards_of, inline_locals, parent_map


def table_class(an: Analysis) -> ClassInfo:
    it, _ = an.interp("to_code")
    for c in an.prog.all_classes():
        if (not c.is_dataclass or not c.dc_args.get("frozen")) and "__setitem__" in c.methods and any(q.startswith(c.qual + ".") for q in it.reached):
            return c
    raise AnalysisError("encoder table class (with __setitem__) not found in the to_code closure")


def inline_len_self(ci: ClassInfo, expr: ast.AST, self_: str) -> ast.AST:
    """len(self) -> body of __len__ ; bool(self)/not self left alone."""
    lm = ci.methods.get("__len__")
    if lm is None:
        return expr
    rets = returns_of(lm.node.body)
    if len(rets) != 1:
        return expr
    ls = lm.params[0]

    class RenameSelf(ast.NodeTransformer):
        def visit_Name(self, n):
            return ast.copy_location(ast.Name(self_, n.ctx), n) if n.id == ls else n

    body = RenameSelf().visit(copy.deepcopy(rets[0].value))

    class Sub(ast.NodeTransformer):
        def visit_Call(self, n):
            self.generic_visit(n)
            if isinstance(n.func, ast.Name) and n.func.id == "len" and len(n.args) == 1 and isinstance(n.args[0], ast.Name) and n.args[0].id == self_:
                return copy.deepcopy(body)
            return n

    return ast.fix_missing_locations(Sub().visit(copy.deepcopy(expr)))


def run(an: Analysis, rep):
    rep.explanation = (
        "Decides guards, keys and width constants without which the encoder cannot be right on hand-built data: the table compaction "
        "is dominated by a check that the position overrides leave no gap (finite evaluation of the guard on contiguous / gapped / "
        "offset / empty index maps); a second value stored at an occupied index is compared through the table's key function "
        "(evaluated on 1 vs True vs 1.0); the constants table is keyed by the same function Constant.__eq__ uses; that key is type-, "
        "sign- and NaN-exact and recursive; the operand-width function has thresholds 2^(8k)-1, negatives take 4 units, and the "
        "emitted units ((arg >> 8i) & 0xFF, high unit first, EXTENDED_ARG prefixes) reassemble to the value under the decoder's "
        "shift; no Optional line reaches arithmetic without a None test; the relaxation loop recomputes block offsets before jump "
        "operands on every iteration, raises its flag exactly when a jump's size changes, and all three size computations agree. "
        "R03.E folds the whole layout function over witness block lists (equal relative jumps at different places, a target block that starts with "
        "a prefixed instruction, jumps that grow, recorded widths, cell / free variables, repeated entries) and reads the bytes back as CPython's "
        "disassembler does; R03.T folds the table class over call sequences; R03.Y folds the assembly loop. Termination of the relaxation in "
        "general and block lists outside the witness set are not decided."
    )
    rep.rule("R03.1", "position overrides with gaps are rejected before the table is compacted", 1)
    rep.rule("R03.2", "collisions are compared through the table's key function", 1)
    rep.rule("R03.3", "constants table keyed by the key function of Constant.__eq__", 1)
    rep.rule("R03.4", "constant key is type-, sign- and NaN-exact and recursive", 9)
    rep.rule("R03.5", "operand width thresholds and unit emission agree with the decoder", 4)
    rep.rule("R03.6", "no Optional line reaches arithmetic unguarded", 1)
    rep.rule("R03.7", "relaxation loop shape", 4)
    from .common import purity
    rep.run(purity, an, rep, "R03.P", ["to_code"])
    ci = table_class(an)
    rep.run(r031, an, rep, ci)
    rep.run(r032, an, rep, ci)
    rep.run(r032_sole_writer, an, rep, ci)
    rep.run(r033, an, rep, ci)
    rep.run(r033_injective, an, rep, ci)
    rep.run(c08.r084, an, rep, rule="R03.4", nan_sign_matters=True)
    rep.run(r035, an, rep)
    rep.run(r03w, an, rep)
    rep.run(r03f, an, rep)
    rep.run(r03y, an, rep)
    rep.run(r03t, an, rep)
    from . import c06 as _c06n, c01 as _c01o, c04 as _c04y
    from .common import SharedRules as _SR3n
    from . import c11 as _c11n3
    rep.run(_c11n3.r11n, an, _SR3n(rep, "R03.N3", "the names the encoder turns into flag bits carry CPython's values under every interpreter version (shared with C11's R11.N): 'flags ... are as described' - "
                                                   "a table that is right for 3.8+ only writes another future flag on 3.7"))
    rep.run(lambda a_, r_: _c04y.r04f(a_, r_, roundtrip=True), an, _SR3n(rep, "R03.Y2", "from_code then to_code folded over witness code objects (C04's R04.W witnesses): the flags word written for a "
                                                                                   "generator / coroutine / async generator is CPython's (an extra CO_GENERATOR on an async generator changes what inspect says)"))
    rep.run(_c06n.r06n, an, _SR3n(rep, "R03.N", "normalize folded over witness data full of artefacts (shared with C06's R06.N): 'decoding that code object again gives data equal to the input up to "
                                                "normalization' compares through normalize, which has to reach every nested code object"))
    sho3 = _SR3n(rep, "R03.O", "the shift by the first line number moves every line by exactly that amount, in both directions (shared with C01's R01.5): 'each instruction carries the given line' - also a line "
                               "before first_line_number, which the table can express")
    rep.run(_c01o.r015_every_line, an, sho3)
    rep.run(_c01o.r015_order, an, sho3)
    rep.run(r03e, an, rep)
    from . import c05 as _c05k
    from .common import SharedRules as _SR3
    rep.run(_c05k.r05k, an, _SR3(rep, "R03.K2", "constants are handed to CodeType with value and type unchanged (shared with C05's R05.K2): 'every operand resolves to exactly the given ... constant'"), "R05.K2")
    rep.run(r036, an, rep)
    rep.run(r037, an, rep)
    rep.run(r038, an, rep)
    from .common import SharedRules
    from . import c02, c04, c10
    from .common import assert_guard_rule, loop_var_after_loop_rule
    rep.run(assert_guard_rule, an, rep, "R03.G", ["to_code"])
    rep.run(loop_var_after_loop_rule, an, rep, "R03.U", ["to_code"])
    from .common import truthiness_rule
    rep.run(truthiness_rule, an, rep, "R03.9", ["to_code"], [("Instruction", "line_number"), ("AdditionalLine", "line")])
    from . import c01, c11
    shf = SharedRules(rep, "R03.F", "every flag described by the data is written into co_flags exactly when its datum is set (shared with C11's R11.3): 'flags ... are as described'")
    for V in VERSIONS:
        rep.run(c11.r113, an, shf, V, c01._dispositions(an, V)[0])
    from . import c05
    rep.run(c05.r053, an, SharedRules(rep, "R03.D", "docstring slot (shared with C05's R05.3): a function described with docstring None must not get its first string constant read as __doc__"))
    rep.run(c10.format_rules, an, SharedRules(rep, "R03.L", "line-table format constants (shared with C10's R10.*): 'each instruction carries the given line'"))
    from .common import old_interpreter_rule
    rep.run(old_interpreter_rule, an, rep, "R03.V", ["to_code"])
    from .common import rejection_paths_rule
    rep.run(rejection_paths_rule, an, rep, "R03.R", ["to_code"], ENCODER_REJECTIONS, "to_code")
    rep.run(c02.r028, an, SharedRules(rep, "R03.X", "the package's parser reassembles operands from their EXTENDED_ARG prefixes as CPython does (shared with C02's R02.8): 'decoding that code object again gives data equal to the input'"))
    rep.run(c02.jump_rules, an, SharedRules(rep, "R03.J", "jump operands are measured as CPython measures them (shared with C02's R02.3/R02.4): 'every jump lands on the first instruction of its target block'"))
    sh = SharedRules(rep, "R03.A", "signature encoding: co_varnames layout, counts and flags (shared with C04's R04.3/R04.4): 'signature ... as described'")
    rep.run(c04.r043, an, sh)
    rep.run(c04.r044, an, sh)
    rep.stats.update(an.stats([an.interp("to_code", V)[0] for V in VERSIONS]))
    rep.assumptions += ["`python -O` is covered: R03.G / R11.A require that no guard of the API closures is an assert statement"]


# Places where the encoder stops with an exception, confirmed by reading: (function, exception) -> (how many, why / which rule decides reachability).
ENCODER_REJECTIONS = {
    ("code_data._blocks::FromArgs.__setitem__", "AssertionError"):
        (1, "two different entries claim one table position: the colliding overrides the property wants rejected (R03.2 / R03.3 decide the test)"),
    ("code_data._blocks::FromArgs.to_tuple", "ValueError"):
        (1, "the overrides leave a gap in the table: the inconsistent overrides the property wants rejected (R03.1 decides the test over index-map models)"),
    ("code_data._blocks::from_arg", "ValueError"):
        (1, "a str constant pinned at index 0 of a function whose data says docstring=None: the override contradicts the docstring field (R03.D decides the test)"),
    ("code_data._code_data::from_code_data", "AssertionError"):
        (1, "co_varnames does not start with the parameter names: cannot happen when the variable table is seeded in layout order (C04's R04.4, shared as R03.A)"),
    ("code_data._code_data::from_code_data", "NotImplementedError"):
        (1, "positional-only parameters on an interpreter without co_posonlyargcount (3.7): such data cannot be described there"),
    ("code_data._constants::inner_constant_key", "NotImplementedError"):
        (1, "fall-through of the dispatch over constant types: R03.4 shows every constant type of the data model has an arm"),
}


def _index_map_attr(ci: ClassInfo) -> str:
    sm = ci.methods["__setitem__"]
    self_ = sm.params[0]
    for n in ast.walk(sm.node):
        if isinstance(n, ast.Assign) and isinstance(n.targets[0], ast.Subscript):
            t = n.targets[0]
            if isinstance(t.value, ast.Attribute) and isinstance(t.value.value, ast.Name) and t.value.value.id == self_ \
                    and isinstance(t.slice, ast.Name) and t.slice.id == sm.params[1]:
                return t.value.attr
    raise AnalysisError(f"{ci.qual}.__setitem__: index map not recognised")


def r031(an, rep, ci: ClassInfo):
    it, _ = an.interp("to_code")
    imap = _index_map_attr(ci)
    # the compaction method: returns a tuple built from the index map, result reaches the CodeType table slots
    comp = None
    for m in ci.methods.values():
        if m.qual in it.reached and m.name not in ("__setitem__", "__len__", "__bool__") and len(m.params) == 1:
            if any(isinstance(n, ast.Attribute) and n.attr == imap for n in ast.walk(m.node)):
                comp = m
    if comp is None:
        raise AnalysisError(f"{ci.qual}: table compaction method not found")
    self_ = comp.params[0]
    body = [st for st in comp.node.body if not (isinstance(st, ast.Expr) and isinstance(st.value, ast.Constant))]
    guards: List[Tuple[ast.AST, str, ast.AST]] = []
    loop_guard = False
    for st in body:
        if isinstance(st, ast.Return):
            break
        if isinstance(st, ast.Assert):
            guards.append((st.test, "assert", st))
        elif isinstance(st, ast.If) and any(isinstance(b, ast.Raise) for b in st.body):
            guards.append((st.test, "raise", st))
        elif isinstance(st, ast.For):
            # per-index membership loop with raise
            for n in ast.walk(st):
                if isinstance(n, ast.If) and any(isinstance(b, ast.Raise) for b in n.body) and isinstance(n.test, ast.Compare) and isinstance(n.test.ops[0], ast.NotIn):
                    if isinstance(st.iter, ast.Call) and isinstance(st.iter.func, ast.Name) and st.iter.func.id == "range":
                        loop_guard = True
    # position overrides are ints given by the caller: negative ones are possible too (a negative index hides a gap from a test on the maximum)
    models = {"contiguous": {0: "a", 1: "b", 2: "c"}, "empty": {}, "gap": {0: "a", 2: "b"}, "offset": {1: "a"}, "dangling": {5: "a"},
              "negative": {-1: "a", 0: "b", 1: "c"}, "negative hiding a gap": {-1: "a", 0: "b", 2: "c"}}
    want_reject = {"contiguous": False, "empty": False, "gap": True, "offset": True, "dangling": True, "negative": True, "negative hiding a gap": True}
    verdict = None
    why = ""
    for test, kind, node in guards:
        t = inline_len_self(ci, inline_locals(comp.node, test), self_)
        res = {}
        try:
            for name, mp in models.items():
                v = bool(feval(t, {self_: {imap: mp}}))
                res[name] = v if kind == "raise" else (not v)
        except (FevalError, KeyError, TypeError, ValueError) as ex:
            raise AnalysisError(f"{comp.qual}: guard {norm_src(test)} not evaluable on index-map models: {ex}")
        if res == want_reject:
            verdict, why = True, f"`{norm_src(test)}` ({kind}) rejects gapped / offset / dangling / negative index maps and accepts contiguous and empty ones"
            break
        why = f"guard `{norm_src(test)}` decides {res}, expected {want_reject}"
    if verdict is None and loop_guard:
        verdict, why = True, "per-index membership loop raises on a missing index"
    rep.add("R03.1", f"{comp.qual}::gap guard dominates the compaction", bool(verdict), loc(comp.module, comp.node),
            why if verdict else
            (why + ": " if why else "") + f"{comp.name} compacts the index -> value map (sorted by index) without checking that the indices are exactly 0..n-1: a dangling "
            f"position override (e.g. Name('a', _index_override=5) alone) yields a 1-entry table while the instruction keeps operand 5 - an operand outside its table")
    return comp


def r032(an, rep, ci: ClassInfo):
    imap = _index_map_attr(ci)
    sm = ci.methods["__setitem__"]
    self_, ip, ap = sm.params[:3]
    cands = []
    for n in ast.walk(sm.node):
        if isinstance(n, ast.If) and isinstance(n.test, ast.Compare) and isinstance(n.test.ops[0], ast.In):
            for b in n.body:
                if isinstance(b, ast.Assert):
                    cands.append((b.test, "assert", b))
                elif isinstance(b, ast.If) and any(isinstance(x, ast.Raise) for x in b.body):
                    cands.append((b.test, "raise", b))
    if not cands:
        rep.add("R03.2", f"{sm.qual}::collision check", False, loc(sm.module, sm.node),
                "no check at all when an index is assigned twice: colliding position overrides silently overwrite each other")
        return
    # which attribute holds the key function?  a field with a callable default / annotation Callable
    keyattr = None
    for f in ci.fields:
        if "Callable" in ast.dump(f.annotation):
            keyattr = f.name
    key = callable_for_feval(lambda v: (type(v).__name__, repr(v)))
    test, kind, node = cands[0]
    res = {}
    try:
        for name, newv in (("same", 1), ("bool-vs-int", True), ("float-vs-int", 1.0), ("other", 2)):
            env = {self_: {imap: {0: 1}, keyattr or "_hash_fn": key}, ip: 0, ap: newv}
            v = bool(feval(inline_locals(sm.node, test), env))
            res[name] = v if kind == "raise" else (not v)
    except (FevalError, KeyError, TypeError) as ex:
        raise AnalysisError(f"{sm.qual}: collision check {norm_src(test)} not evaluable: {ex}")
    want = {"same": False, "bool-vs-int": True, "float-vs-int": True, "other": True}
    rep.add("R03.2", f"{sm.qual}::collision check compares keys", res == want, loc(sm.module, node),
            f"`{norm_src(test)}` rejects 1 vs True / 1.0 / 2 at one index and accepts 1 vs 1" if res == want else
            f"`{norm_src(test)}` rejects {sorted(k for k, v in res.items() if v)} only: values are looked up by their key ({keyattr}) but collisions are compared with ==, "
            f"so Constant(1, 0) and Constant(True, 0) pass the check (1 == True) and the table silently becomes (True,)")


def r032_sole_writer(an, rep, ci: ClassInfo):
    """Every entry reaches the index map through the checked setter: a method that stores into the map directly skips the collision check."""
    imap = _index_map_attr(ci)
    sm = ci.methods["__setitem__"]
    n = 0
    for m in ci.methods.values():
        if m is sm:
            continue
        self_ = m.params[0] if m.params else None
        for st in ast.walk(m.node):
            tgt = None
            if isinstance(st, ast.Assign):
                for t in st.targets:
                    if isinstance(t, ast.Subscript) and isinstance(t.value, ast.Attribute) and t.value.attr == imap and isinstance(t.value.value, ast.Name) and t.value.value.id == self_:
                        tgt = t
            if isinstance(st, ast.Call) and isinstance(st.func, ast.Attribute) and st.func.attr in ("setdefault", "update", "__setitem__") and isinstance(st.func.value, ast.Attribute) \
                    and st.func.value.attr == imap and isinstance(st.func.value.value, ast.Name) and st.func.value.value.id == self_:
                tgt = st
            if tgt is not None:
                own_check = any(isinstance(c, ast.Compare) and isinstance(c.ops[0], (ast.In, ast.NotIn)) and isinstance(c.comparators[0], ast.Attribute) and c.comparators[0].attr == imap
                                for c in ast.walk(m.node))
                if own_check:
                    raise AnalysisError(f"{m.qual}: stores into {imap} directly after a membership test of its own: whether that test is the collision check is not decided")
                n += 1
                rep.add("R03.2", f"{m.qual}::stores into {imap} only through the checked setter", False, loc(m.module, st),
                        f"`{norm_src(st)[:70]}` writes the index map directly, without the collision check of {sm.name}: an index already taken by an earlier position override "
                        f"(e.g. index len(table)) is silently overwritten, and the instruction that used it loads another value")
    rep.add("R03.2", f"{ci.qual}::{imap} is written by {sm.name} only", n == 0, loc(ci.module, ci.node),
            f"no other method of {ci.name} stores into {imap}" if n == 0 else f"{n} direct store(s) outside {sm.name}", nontrivial=False)


def r033_injective(an, rep, ci: ClassInfo):
    """The key under which the encoder's tables look entries up identifies the entry: `hash` does not (two different names can have one hash
    value; the str hash is a 64-bit siphash, collisions can be constructed and are found in seconds for a fixed PYTHONHASHSEED)."""
    keyattr = next((fl for fl in ci.fields if "Callable" in ast.dump(fl.annotation)), None)
    if keyattr is None:
        raise AnalysisError(f"{ci.qual}: key-function field not found")
    sites = []
    d = keyattr.default
    if d is not None:
        sites.append((ci.module, keyattr.node, d, f"default of {ci.name}.{keyattr.name}"))
    for g in an.closure("to_code"):
        for c in ast.walk(g.node):
            if isinstance(c, ast.Call) and (norm_src(c.func).split("[")[0] == ci.name):
                for k in c.keywords:
                    if k.arg == keyattr.name:
                        sites.append((g.module, c, k.value, f"{norm_src(c)[:40]} in {g.name}"))
    if not sites:
        raise AnalysisError(f"{ci.qual}: no key function given anywhere")
    for mod, node, fnexpr, where in sites:
        is_hash = isinstance(fnexpr, ast.Name) and fnexpr.id == "hash" and an.prog.resolve_global(mod, "hash", None) is None
        is_id = isinstance(fnexpr, ast.Name) and fnexpr.id == "id"
        rep.add("R03.3", f"{ci.qual}::{where} identifies the entry", not (is_hash or is_id), loc(mod, node),
                f"key function `{norm_src(fnexpr)[:40]}`" if not (is_hash or is_id) else
                f"the table is keyed by `{norm_src(fnexpr)}(entry)`: two different entries with the same hash value are one key, so the second is looked up as the first - two global names "
                f"whose str hashes collide (`kmhbnkpohpoanbpa` / `beolekfbkiaiheik` under PYTHONHASHSEED=0) share one co_names slot and both loads resolve to the first name")


def r033(an, rep, ci: ClassInfo):
    it, _ = an.interp("to_code")
    eqm = an.prog.cls("code_data::Constant").methods.get("__eq__")
    it_eq, _ = an.interp("constant_eq")
    keyfns = sorted(q for (c, q) in it_eq.call_edges if eqm is not None and c == eqm.qual)
    if not keyfns:
        raise AnalysisError("Constant.__eq__ calls no key function")
    found = False
    for g in an.closure("to_code"):
        for n in ast.walk(g.node):
            if isinstance(n, ast.Call) and isinstance(n.func, ast.Attribute) and n.args and isinstance(n.args[0], ast.Attribute) and n.args[0].attr == "constant":
                recv = it.value_at(n.func.value)
                objs = [a for a in recv if a[0] == "obj" and it.obj_class(a) == ci.qual]
                if not objs:
                    continue
                found = True
                fns: Set[str] = set()
                for o in objs:
                    for fld, vals in it.obj_fields(o).items():
                        fns |= {a[1] for a in vals if a[0] == "func"}
                ok = fns == {keyfns[0]}
                rep.add("R03.3", f"{g.qual}::constants table key function", ok, loc(g.module, n),
                        f"the table receiving Constant.constant is keyed by {keyfns[0].split('::')[1]}, the function Constant.__eq__ compares with" if ok else
                        f"the table receiving Constant.constant is keyed by {sorted(fns) or 'the default hash'}, but Constant.__eq__ compares {keyfns[0]}: constants equal under == but "
                        f"distinct for CPython (0.0 / -0.0, 1 / True) are merged into one table entry")
    if not found:
        raise AnalysisError("the call adding Constant.constant to the constants table was not found")


# ----------------------------------------------------------------------------- R03.5
def eval_decision_tree(fn: FunctionInfo, env: dict):
    """Evaluate a pure if/return function body (a threshold table) on one point."""
    def run(stmts):
        for st in stmts:
            if isinstance(st, ast.Expr) and isinstance(st.value, ast.Constant):
                continue
            if isinstance(st, ast.Return):
                return ("ret", feval(st.value, env))
            if isinstance(st, ast.If):
                r = run(st.body if feval(st.test, env) else st.orelse)
                if r is not None:
                    return r
                continue
            raise FevalError(f"statement {type(st).__name__} in a threshold function")
        return None
    r = run(fn.node.body)
    if r is None:
        raise FevalError("no return reached")
    return r[1]


def find_size_fn(an: Analysis) -> FunctionInfo:
    """The operand-width function, by role: the one-parameter module function whose result is the fallback of `<width override> or f(operand)`."""
    cands = {}
    for g in an.closure("to_code"):
        for n in ast.walk(g.node):
            if isinstance(n, ast.BoolOp) and isinstance(n.op, ast.Or) and len(n.values) == 2 and isinstance(n.values[1], ast.Call) \
                    and isinstance(n.values[1].func, ast.Name) and len(n.values[1].args) == 1 \
                    and isinstance(n.values[0], ast.Attribute) and "override" in n.values[0].attr:
                r = an.prog.resolve_global(g.module, n.values[1].func.id, g)
                if r and r[0] == "func" and len(r[1].params) == 1:
                    cands[r[1].qual] = r[1]
    if not cands:
        # ... or of a helper that combines the recorded width with f(operand) some other way (`max(recorded or 1, f(operand))`)
        for g in an.closure("to_code"):
            if not any(isinstance(x, ast.Attribute) and "override" in x.attr and "arg" in x.attr for x in ast.walk(g.node)) or len(g.params) != 2:
                continue
            for c in ast.walk(g.node):
                if isinstance(c, ast.Call) and isinstance(c.func, ast.Name) and len(c.args) == 1 and isinstance(c.args[0], ast.Name) and c.args[0].id == g.params[1]:
                    r = an.prog.resolve_global(g.module, c.func.id, g)
                    if r and r[0] == "func" and len(r[1].params) == 1:
                        cands[r[1].qual] = r[1]
    if len(cands) == 1:
        return next(iter(cands.values()))
    best = None
    for g in an.closure("to_code"):
        if g.cls is None and len(g.params) == 1 and g.parent is None:
            rets = returns_of(g.node.body)
            if rets and all(isinstance(r.value, (ast.Constant, ast.IfExp)) for r in rets) and any(isinstance(c, ast.Compare) for c in ast.walk(g.node)):
                consts = {c.value for r in rets for c in ast.walk(r.value) if isinstance(c, ast.Constant) and isinstance(c.value, int)}
                if {1, 2, 3, 4} <= consts:
                    best = g
    if best is None:
        raise AnalysisError("operand-width function (returns 1..4 by thresholds) not found")
    return best


_size_eval_cache = {}


def eval_size(an: Analysis, sf: FunctionInfo, v: int):
    """The operand-width function at one point: a decision tree of comparisons, or - when written as a bounded loop over a table of
    limits - the finite-domain evaluator for pure scalar functions (module constants folded)."""
    try:
        return eval_decision_tree(sf, {sf.params[0]: v})
    except FevalError:
        pass
    from sa.feval import PureEval
    from .c02 import module_consts
    key = id(sf.node)
    if key not in _size_eval_cache:
        consts = module_consts(an, sf.module.name, (3, 10))
        fns = {n: f.node for n, f in sf.module.functions.items()}
        _size_eval_cache[key] = PureEval(lambda name: fns.get(name), extra=consts)
    return _size_eval_cache[key].call(sf.node, v)


def r035(an, rep):
    sf = find_size_fn(an)
    p = sf.params[0]
    bad = []
    from sa.feval import region_points
    # exhaustive for a tree of comparisons with constants: every constant of the source +-1, plus CPython's own boundaries
    pts = region_points(sf.node, {}, extra=(0, 0xFF, 0xFFFF, 0xFFFFFF, 0x7FFFFFFF, -0x100))
    for v in pts:
        want = 4 if v < 0 else (1 if v <= 0xFF else 2 if v <= 0xFFFF else 3 if v <= 0xFFFFFF else 4)
        try:
            got = eval_size(an, sf, v)
        except FevalError as ex:
            raise AnalysisError(f"{sf.qual}: not a threshold table: {ex}")
        if got != want:
            bad.append(f"{p}={v:#x}: {got} unit(s), CPython's instrsize gives {want}")
    rep.add("R03.5", f"{sf.qual}::thresholds", not bad, loc(sf.module, sf.node),
            "; ".join(bad[:3]) + ": an operand on the boundary is emitted with too few units (truncated) or too many (offsets shift)" if bad
            else f"1/2/3/4 units at the 2^8, 2^16, 2^24 boundaries and 4 for negatives ({len(pts)} boundary points)")
    # emission: for i in reversed(range(n)): append(op if i == 0 else EXTENDED_ARG); append((arg >> 8*i) & 0xFF)
    enc = None
    for g in an.closure("to_code"):
        for n in ast.walk(g.node):
            if isinstance(n, ast.For) and any(isinstance(x, ast.Attribute) and x.attr == "EXTENDED_ARG" for x in ast.walk(n)):
                enc = (g, n)
    if enc is None:
        raise AnalysisError("unit emission loop (mentions EXTENDED_ARG) not found in the encoder")
    g, loop = enc
    iv = loop.target.id if isinstance(loop.target, ast.Name) else None
    appends = [c for c in ast.walk(loop) if isinstance(c, ast.Call) and isinstance(c.func, ast.Attribute) and c.func.attr == "append" and c.args]
    if len(appends) != 2 or iv is None:
        raise AnalysisError(f"{g.qual}: emission loop shape not recognised")
    op_e, byte_e = appends[0].args[0], appends[1].args[0]
    # iteration order
    try:
        order = list(feval(loop.iter, {"n_args": 3, **{n.id: 3 for n in ast.walk(loop.iter) if isinstance(n, ast.Name) and n.id not in ("reversed", "range")}}))
    except Exception as ex:
        raise AnalysisError(f"{g.qual}: emission order {norm_src(loop.iter)} not evaluable: {ex}")
    ok_order = order == [2, 1, 0]
    names = {n.id for n in ast.walk(byte_e) if isinstance(n, ast.Name)} - {iv}
    if len(names) != 1:
        raise AnalysisError(f"{g.qual}: operand byte expression {norm_src(byte_e)} not recognised")
    av = names.pop()
    # how the interpreter (and dis._unpack_opargs) reassembles the units: each EXTENDED_ARG shifts what was gathered so far up by one byte
    pf = find_parser(an)
    shift_factor = 256
    bad = []
    for v in [x for x in pts if x >= 0] + [0x1234, 0xABCDEF, 0x12345678]:
        n = eval_size(an, sf, v)
        acc = 0
        units = []
        for i in (reversed(range(n)) if ok_order else range(n)):
            b = feval(byte_e, {av: v, iv: i})
            o = "?"
            if isinstance(op_e, ast.IfExp):
                try:
                    branch = op_e.body if feval(op_e.test, {iv: i}) else op_e.orelse
                    o = "EXT" if (isinstance(branch, ast.Attribute) and branch.attr == "EXTENDED_ARG") or (isinstance(branch, ast.Name) and branch.id == "EXTENDED_ARG") else "OP"
                except FevalError:
                    o = "?"
            units.append((o, b))
        for k, (o, b) in enumerate(units):
            acc |= b
            if k < len(units) - 1:
                acc = acc * shift_factor
        kinds = [o for o, _ in units]
        if acc != v or kinds[-1] != "OP" or any(x != "EXT" for x in kinds[:-1]) or any(not (0 <= b <= 255) for _, b in units):
            bad.append(f"value {v:#x}: emitted {units}, CPython reassembles {acc:#x}")
    rep.add("R03.5", f"{g.qual}::emitted units reassemble to the operand", not bad and ok_order, loc(g.module, loop),
            ("; ".join(bad[:2]) if bad else f"units are emitted in the order {order}, not high unit first") if (bad or not ok_order) else
            f"`{norm_src(byte_e)}` for i in {norm_src(loop.iter)}, EXTENDED_ARG on all but the last unit; CPython shifts by one byte per prefix: every sized value is reproduced")
    # decoder steps by two bytes and reads opcode / operand at i, i+1
    rng = next((n for n in pf.node.body if isinstance(n, ast.For)), None)
    ok_step = False
    if rng is not None and isinstance(rng.iter, ast.Call):
        try:
            ok_step = list(feval(rng.iter, {"len": len, pf.params[0]: b"\x00" * 6, "range": range})) == [0, 2, 4]
        except Exception:
            ok_step = False
    rep.add("R03.5", f"{pf.qual}::two bytes per code unit", ok_step, loc(pf.module, rng or pf.node),
            "the parser visits offsets 0, 2, 4, ..." if ok_step else "the parser does not step through the bytecode two bytes at a time")
    # (that the package's own parser reassembles prefixes the same way is R02.8, shared below as R03.X)


def r03f(an, rep, rule="R03.F2"):
    """A Freevar operand is encoded as the position of its name in the sequence of free variables (plus the number of cells): the tuple handed to CodeType as
    co_freevars must be that very sequence - re-ordered (sorted, reversed, de-duplicated) only at emit time, every LOAD_DEREF names another variable."""
    import reference.contracts as C
    from rules import c11
    rep.rule(rule, "co_freevars is emitted in the order the Freevar operands were indexed in", 1)
    for V in VERSIONS:
        it, _ = an.interp("to_code", V)
        calls = c11.codetype_calls(an, V)
        if len(calls) != 1:
            raise AnalysisError(f"expected exactly one live CodeType(...) call under {vname(V)}")
        f, call = calls[0]
        slots = C.CODE_SLOTS[V]
        slot = call.args[slots.index("freevars")]
        sv = it.value_at(slot)
        # the sequence the operand encoder indexes: receiver of `.index(<x>.freevar)`
        idx = None
        for g in an.closure("to_code", V):
            for c in ast.walk(g.node):
                if isinstance(c, ast.Call) and isinstance(c.func, ast.Attribute) and c.func.attr == "index" and c.args and isinstance(c.args[0], ast.Attribute) and c.args[0].attr == "freevar":
                    idx = (g, c)
        if idx is None:
            raise AnalysisError("how a Freevar operand is turned into an index (`<freevars>.index(arg.freevar)`) is not recognised")
        g, c = idx
        iv = it.value_at(c.func.value)
        same = bool(sv) and set(sv) == set(iv)
        rebuilt = [a for a in sv if a[0] == "obj"]
        rep.add(rule, f"{f.qual}::co_freevars is the sequence the operands index", same, loc(f.module, slot),
                f"`{norm_src(slot)}` and the receiver of `{norm_src(c)[:40]}` are the same value" if same else
                f"CodeType gets `{norm_src(slot)}` as co_freevars, the operands were computed with `{norm_src(c)[:50]}` over another sequence" +
                (" (the slot is rebuilt - sorted / filtered - when the code object is made)" if rebuilt else "") +
                ": for data whose freevars are not already in that order (hand-built `freevars=('y', 'x')`) every LOAD_DEREF / LOAD_CLOSURE names the other variable", config=vname(V))


def r03w(an, rep, rule="R03.5"):
    """Wherever the encoder decides how many code units an instruction gets, a recorded width is honoured only as long as the operand fits: a
    width override that is too small for the operand the layout arrived at (hand-edited data: 70000 instructions inserted into a loop whose jump was
    decoded with two units) must not truncate the operand - the emitted width is max(recorded, minimal)."""
    from sa.feval import callable_for_feval
    sf = find_size_fn(an)
    size = callable_for_feval(lambda v: eval_size(an, sf, v))

    def minimal(a):
        return 1 if a <= 0xFF else 2 if a <= 0xFFFF else 3 if a <= 0xFFFFFF else 4
    sites = []
    for g in an.closure("to_code"):
        for n in ast.walk(g.node):
            if isinstance(n, ast.Assign) and len(n.targets) == 1 and isinstance(n.targets[0], ast.Name) \
                    and any(isinstance(x, ast.Attribute) and x.attr == "_n_args_override" for x in ast.walk(n.value)) \
                    and any(isinstance(x, ast.Call) for x in ast.walk(n.value)):
                sites.append((g, n))
    # ... or the decision sits in a helper (instruction, operand) -> width that the encoder calls
    helpers = []
    for g in an.closure("to_code"):
        if isinstance(g.node, ast.FunctionDef) and len(g.params) == 2:
            rets = [r for r in ast.walk(g.node) if isinstance(r, ast.Return) and r.value is not None]
            rv = inline_locals(g.node, rets[0].value) if len(rets) == 1 else None
            if rv is not None and any(isinstance(x, ast.Attribute) and x.attr == "_n_args_override" for x in ast.walk(rv)):
                helpers.append((g, ast.Assign(targets=[ast.Name(id=g.name + "(...)", ctx=ast.Store())], value=rv, lineno=rets[0].lineno, col_offset=0)))
    if not sites and not helpers:
        raise AnalysisError("the encoder's width decisions (expressions over _n_args_override and the size function) were not found")
    # every place that reads the recorded width directly is decided; with a helper, the encoder's own reads must go through it
    sites = sites + helpers
    for g, n in sites:
        e = n.value
        # the one free name besides the instruction and the size function is the operand value
        inst = next((x.value.id for x in ast.walk(e) if isinstance(x, ast.Attribute) and x.attr == "_n_args_override" and isinstance(x.value, ast.Name)), None)
        callee = {c.func.id for c in ast.walk(e) if isinstance(c, ast.Call) and isinstance(c.func, ast.Name)}
        free = sorted({x.id for x in ast.walk(e) if isinstance(x, ast.Name)} - {inst} - callee - {"max", "min"})
        if inst is None or len(free) != 1:
            raise AnalysisError(f"{g.qual}: width expression `{norm_src(e)}` not recognised")
        bad = []
        for ov in (None, 1, 2, 3, 4, 6):
            for a in (0, 300, 70000, 0x1000000):
                env = {inst: {"_n_args_override": ov}, free[0]: a, "max": max, "min": min}
                for c in callee:
                    r = an.prog.resolve_global(g.module, c, g)
                    if r and r[0] == "func":
                        env[c] = callable_for_feval(lambda v, _f=r[1]: PureEvalCall(an, _f, v)) if r[1] is not sf else size
                try:
                    got = feval(e, env)
                except Exception as ex:
                    raise AnalysisError(f"{g.qual}: width expression `{norm_src(e)}` not evaluable ({ex})")
                want = max(ov or 1, minimal(a))
                if got != want:
                    bad.append(f"recorded width {ov}, operand {a} (needs {minimal(a)}): {got} code unit(s), expected {want}")
        rep.add(rule, f"{g.qual}::width = max(recorded, minimal) at `{n.targets[0].id} = ...` (#{sites.index((g, n)) + 1})", not bad, loc(g.module, n) if hasattr(n, "end_lineno") else loc(g.module, g.node),
                f"`{norm_src(e)}` honours a recorded width and never goes below what the operand needs" if not bad else
                f"`{norm_src(e)}`: {bad[0]} - a jump decoded with two code units whose loop body grew by hand (70000 inserted instructions) keeps two units and its operand is cut to "
                f"16 bits: the jump lands somewhere else, silently")


def PureEvalCall(an, f, v):
    from sa.feval import PureEval

    def resolve(name):
        r = an.prog.resolve_global(f.module, name, f)
        return r[1].node if r and r[0] == "func" else None
    return PureEval(resolve).call(f.node, v)


# ----------------------------------------------------------------------------- R03.6
def r036(an, rep):
    tg = an.tg
    lm = an.prog.cls("code_data._line_mapping::LineMapping")
    opt_fields = {f.name for f in lm.fields if tg.field_type(f)[0] == "dict" and any(x == ("leaf", "None") for x in tg.leaves_in(tg.field_type(f)[2]))}
    if not opt_fields:
        raise AnalysisError("LineMapping has no dict field with Optional values: anchor for R03.6 vanished")
    n_sites = 0
    for fmt, V in (("lnotab", (3, 9)), ("linetable", (3, 10))):
        it, _ = an.interp("to_code", V)
        for g in an.closure("to_code", V):
            if g.module.name != lm.module.name:
                continue
            # names bound to Optional values: loop targets over <x>.<opt_field>.items()
            optional_names: Set[str] = set()
            for n in ast.walk(g.node):
                if isinstance(n, ast.For) and isinstance(n.iter, ast.Call) and isinstance(n.iter.func, ast.Attribute) and n.iter.func.attr == "items" \
                        and isinstance(n.iter.func.value, ast.Attribute) and n.iter.func.value.attr in opt_fields and isinstance(n.target, ast.Tuple) and len(n.target.elts) == 2 \
                        and isinstance(n.target.elts[1], ast.Name):
                    optional_names.add(n.target.elts[1].id)
            if not optional_names:
                continue
            pm = parent_map(g.module)
            for c in ast.walk(g.node):
                if not (isinstance(c, ast.Call) and isinstance(c.func, ast.Name) and c.func.id == "cast" and len(c.args) == 2 and isinstance(c.args[1], ast.Name) and c.args[1].id in optional_names):
                    continue
                if not it.value_at(c):
                    continue  # dead under this format
                par = pm.get(id(c))
                arith = isinstance(par, (ast.BinOp, ast.AugAssign, ast.UnaryOp))
                tgt = None
                if isinstance(par, ast.Assign) and isinstance(par.targets[0], ast.Name):
                    tgt = par.targets[0].id
                    arith = any(isinstance(b, ast.BinOp) and any(isinstance(x, ast.Name) and x.id == tgt for x in ast.walk(b)) for b in ast.walk(g.node))
                if not arith:
                    continue
                n_sites += 1
                st = c
                while id(st) in pm and not isinstance(st, ast.stmt):
                    st = pm[id(st)]
                guarded = any(isinstance(t, ast.Compare) and isinstance(t.left, ast.Name) and t.left.id == c.args[1].id and isinstance(t.comparators[0], ast.Constant) and t.comparators[0].value is None
                              for t, _ in guards_of(g.module, g, st) for t in ast.walk(t))
                usage = "used directly in arithmetic" if isinstance(par, (ast.BinOp, ast.AugAssign, ast.UnaryOp)) else "stored for later arithmetic"
                rep.add("R03.6", f"{g.qual}::cast of the Optional line {usage}", guarded, loc(g.module, c),
                        f"cast of the Optional line `{c.args[1].id}` is under an `is None` test" if guarded else
                        f"`{norm_src(c)}` claims the line is an int, but `{c.args[1].id}` comes from LineMapping.{sorted(opt_fields)[0]} (Optional[int]) and is used in arithmetic with no "
                        f"None test: an Instruction built with the default line_number=None makes to_code() raise TypeError on the {fmt} path (3.7-3.9)", config=fmt)
    if n_sites == 0:
        rep.add("R03.6", "no cast of an Optional line reaches arithmetic", True, lm.module.relpath, "no cast(int, <Optional line>) used in arithmetic in the encode closure")


# ----------------------------------------------------------------------------- R03.7
def _conj(gs):
    from .encode_model import conj
    return conj(gs)


def r037(an, rep):
    sf = find_size_fn(an)
    it, _ = an.interp("to_code")
    enc = None
    for g in an.closure("to_code"):
        for n in g.node.body:
            if isinstance(n, ast.While) and isinstance(n.test, ast.Name):
                enc = (g, n)
    if enc is None:
        # a loop that re-lays out the blocks but is bounded by a constant instead of running until nothing changed
        width_fns = {sf.name} | {h.name for h in an.closure("to_code") if isinstance(h.node, ast.FunctionDef) and len(h.params) == 2
                                 and any(isinstance(x, ast.Attribute) and x.attr == "_n_args_override" for x in ast.walk(h.node))}
        for g in an.closure("to_code"):
            for n in g.node.body:
                if isinstance(n, ast.For) and any(isinstance(x, ast.Call) and isinstance(x.func, ast.Name) and x.func.id in width_fns for x in ast.walk(n)) \
                        and any(isinstance(x, ast.Assign) and isinstance(x.value, ast.Constant) and x.value.value is True for x in ast.walk(n)) \
                        and isinstance(n.iter, ast.Call) and isinstance(n.iter.func, ast.Name) and n.iter.func.id == "range":
                    rep.add("R03.7", f"{g.qual}::re-layout is iterated until no jump changes size", False, loc(g.module, n),
                            f"the re-layout loop is `for ... in {norm_src(n.iter)}`: a fixed number of rounds. A widening jump can push another jump over its size boundary, which pushes "
                            f"the next one, and so on; when the rounds run out the operands were computed for widths that are no longer the ones emitted, so jumps land off their targets")
                    return
        raise AnalysisError("relaxation loop (`while <flag>:`) not found in the encoder")
    g, wl = enc
    flag = wl.test.id
    rep.add("R03.7", f"{g.qual}::re-layout is iterated until no jump changes size", True, loc(g.module, wl), f"`while {flag}:` - the loop runs until a whole pass leaves every jump's size unchanged", nontrivial=False)
    # the operands the layout was computed for are the operands that are emitted: nothing changes an operand between the re-layout loop and the assembly
    opmaps = {n.value.id for n in ast.walk(wl) if isinstance(n, ast.Subscript) and isinstance(n.value, ast.Name) and isinstance(n.ctx, ast.Store)}
    body = g.node.body
    after = body[body.index(wl) + 1:]
    late = []
    for st in after:
        for n in ast.walk(st):
            tgt = None
            if isinstance(n, ast.AugAssign) and isinstance(n.target, ast.Subscript) and isinstance(n.target.value, ast.Name) and n.target.value.id in opmaps:
                tgt = n
            if isinstance(n, ast.Assign) and any(isinstance(t, ast.Subscript) and isinstance(t.value, ast.Name) and t.value.id in opmaps for t in n.targets):
                tgt = n
            if tgt is not None:
                late.append(tgt)
    rep.add("R03.7", f"{g.qual}::no operand changes after the layout is fixed", not late, loc(g.module, late[0]) if late else loc(g.module, wl),
            "operands are final when the re-layout loop starts" if not late else
            f"`{norm_src(late[0])}` changes an operand AFTER the loop that computed the size of every instruction and the offset of every block: an operand that grows across a "
            f"width boundary (a free variable in a function with 256 or more cell variables: index + len(cellvars)) is emitted with more code units than were laid out, and "
            f"every jump over it lands {2} bytes short")
    # placeholder for jumps sizes to one unit
    disp = None
    for h in an.closure("to_code"):
        from .common import isinstance_arms
        arms, _ = isinstance_arms(h, h.params[0]) if h.params else ([], [])
        for names, body, node in arms:
            if "Jump" in names:
                rets = returns_of(body)
                if rets:
                    disp = (h, rets[0])
    if disp is None:
        raise AnalysisError("encoder's Jump placeholder not found")
    try:
        ph = feval(disp[1].value, {})
        ok = eval_size(an, sf, ph) == 1
    except Exception:
        ok, ph = False, "?"
    rep.add("R03.7", f"{disp[0].qual}::jump placeholder has minimal size", ok, loc(disp[0].module, disp[1]),
            f"placeholder operand {ph} sizes to one unit, so sizes can only grow during relaxation" if ok else f"placeholder {ph} does not size to one unit")
    # flag reset and raise
    resets = [st for st in wl.body if isinstance(st, ast.Assign) and isinstance(st.targets[0], ast.Name) and st.targets[0].id == flag
              and isinstance(st.value, ast.Constant) and st.value.value is False]
    raises = [n for n in ast.walk(wl) if isinstance(n, ast.Assign) and isinstance(n.targets[0], ast.Name) and n.targets[0].id == flag
              and isinstance(n.value, ast.Constant) and n.value.value is True]
    ok = len(resets) == 1 and len(raises) == 1
    why = "flag is cleared once per iteration and raised at one site"
    if ok:
        gs = guards_of(g.module, g, raises[0])
        tests = [inline_locals(g.node, t) for t, pos in gs if pos]
        import itertools
        from sa.feval import callable_for_feval
        size = callable_for_feval(lambda v: eval_size(an, sf, v))
        # callables the guard may use: the size function and a width helper (instruction, operand) -> code units
        callenv = {sf.name: size, "max": max, "min": min}
        for h in an.closure("to_code"):
            if isinstance(h.node, ast.FunctionDef) and len(h.params) == 2 and h is not sf:
                hr = [r for r in ast.walk(h.node) if isinstance(r, ast.Return) and r.value is not None]
                hv = inline_locals(h.node, hr[0].value) if len(hr) == 1 else None
                if hv is not None and any(isinstance(x, ast.Attribute) and x.attr == "_n_args_override" for x in ast.walk(hv)):
                    callenv[h.name] = callable_for_feval(lambda inst, a, _h=h, _e=hv: feval(_e, {_h.params[0]: inst, _h.params[1]: a, sf.name: size, "max": max, "min": min}))
        # the innermost guard only (the enclosing `isinstance(arg, Jump)` selects the instructions the loop is about)
        guard = inline_locals(g.node, _conj([x for x in gs if not any(isinstance(c, ast.Call) and isinstance(c.func, ast.Name) and c.func.id == "isinstance" for c in ast.walk(x[0]))]), keep_calls=True)

        class _Sub(ast.NodeTransformer):  # a subscript expression is an opaque quantity of its own
            def __init__(self):
                self.n = {}

            def visit_Subscript(self, n):
                key = ast.dump(n)
                self.n.setdefault(key, f"subscript_{len(self.n)}")
                return ast.copy_location(ast.Name(self.n[key], ast.Load()), n)
        guard = ast.fix_missing_locations(_Sub().visit(guard))
        ins = an.prog.cls("code_data::Instruction")
        names = sorted({n.id for n in ast.walk(guard) if isinstance(n, ast.Name)} - set(callenv))
        it_g, _ = an.interp("to_code")
        inst_names = [n for n in names if any(isinstance(a, ast.Attribute) and isinstance(a.value, ast.Name) and a.value.id == n for a in ast.walk(guard))
                      or any(isinstance(c, ast.Call) and isinstance(c.func, ast.Name) and c.func.id in callenv and c.args and isinstance(c.args[0], ast.Name) and c.args[0].id == n
                             and c.func.id not in (sf.name, "max", "min") for c in ast.walk(guard))]
        # the new operand: argument of the size function / second argument of the width helper; the old size: the name compared with that call
        newop = oldsz = None
        for c in ast.walk(guard):
            if isinstance(c, ast.Compare) and len(c.ops) == 1 and isinstance(c.ops[0], ast.NotEq):
                for side, other in ((c.left, c.comparators[0]), (c.comparators[0], c.left)):
                    if isinstance(side, ast.Call) and isinstance(side.func, ast.Name) and side.func.id in callenv and isinstance(other, ast.Name):
                        a_ = side.args[-1]
                        if isinstance(a_, ast.Name):
                            newop, oldsz = a_.id, other.id
        if newop is None or len(inst_names) != 1:
            ok = False
            why = f"`{flag} = True` is not guarded by a comparison of the old and the new operand size: the loop may stop before sizes are stable (jumps land mid-instruction) or never stop"
        else:
            others = [n for n in names if n not in (newop, oldsz, inst_names[0])]
            bad = []
            for ov, new in itertools.product((None, 2), (5, 300, 70000)):
                for old in (1, 2, 3):
                    if old < (ov or 1):
                        continue  # the size used so far is never below the recorded width
                    for combo in itertools.product((0, 7), repeat=len(others)):
                        for flip in (False, True):
                            env = dict(callenv)
                            env.update({inst_names[0]: {"_n_args_override": ov}, oldsz: old, newop: new})
                            for l, v in zip(others, combo):
                                env[l] = bool(v) if flip else v
                            try:
                                got = bool(feval(guard, env))
                            except (FevalError, TypeError, KeyError) as ex:
                                raise AnalysisError(f"{g.qual}: relaxation guard `{norm_src(guard)}` not evaluable: {ex}")
                            want = old != max(ov or 1, size(new))
                            if got != want:
                                bad.append((dict(zip(others, combo)), ov, old, new, got))
            ok = not bad
            if bad:
                ex = bad[0]
                why = (f"`{flag} = True` is guarded by `{norm_src(guard)}`" + (f", which also depends on {others}" if others else "") + f": with recorded width {ex[1]}, size so far {ex[2]} and new operand "
                       f"{ex[3]}{(' and ' + str(ex[0])) if ex[0] else ''} a jump whose size has to change does {'not ' if not ex[4] else ''}trigger a new layout pass - offsets computed for the old "
                       f"layout are emitted next to a jump of another width, so jumps land in the middle of an instruction or the operand is cut off")
            else:
                why = f"`{flag} = True` exactly when the width the new jump operand needs (at least the recorded one) differs from the width used for the offsets (guard `{norm_src(guard)}` on every combination)"
    rep.add("R03.7", f"{g.qual}::changed flag", ok, loc(g.module, raises[0] if raises else wl), why)
    # offsets recomputed before operands within each iteration: two top-level for loops in the while body, the first assigns block offsets
    fors = [st for st in wl.body if isinstance(st, ast.For)]
    ok = False
    if len(fors) >= 2:
        first_writes_offsets = any(isinstance(n, ast.Assign) and isinstance(n.targets[0], ast.Subscript) and isinstance(n.targets[0].value, ast.Name) for n in ast.walk(fors[0]))
        jump_if = [n for n in ast.walk(fors[1]) if isinstance(n, ast.If) and "Jump" in {x.id for x in ast.walk(n.test) if isinstance(x, ast.Name)}]
        reads_offsets = False
        if jump_if:
            written = {n.targets[0].value.id for n in ast.walk(fors[0]) if isinstance(n, ast.Assign) and isinstance(n.targets[0], ast.Subscript) and isinstance(n.targets[0].value, ast.Name)}
            reads_offsets = any(isinstance(x, ast.Subscript) and isinstance(x.value, ast.Name) and x.value.id in written for x in ast.walk(jump_if[0]))
        ok = first_writes_offsets and bool(jump_if) and reads_offsets and wl.body.index(fors[0]) < wl.body.index(fors[1])
    rep.add("R03.7", f"{g.qual}::block offsets are recomputed before jump operands", ok, loc(g.module, wl),
            "each iteration first recomputes every block's offset, then the jump operands from those offsets" if ok else
            "jump operands are not computed from block offsets recomputed in the same iteration")
    # sibling agreement: every width computation in the encoder is the same expression (inline `recorded or size(operand)` or a call of the width helper)
    helpers = set()
    for h in an.closure("to_code"):
        if isinstance(h.node, ast.FunctionDef) and len(h.params) == 2 and any(isinstance(x, ast.Attribute) and x.attr == "_n_args_override" for x in ast.walk(h.node)) and h is not g:
            helpers.add(h.name)
    sizes = []
    for n in ast.walk(g.node):
        if isinstance(n, ast.Assign) and ((isinstance(n.value, ast.BoolOp) and any(isinstance(x, ast.Call) and isinstance(x.func, ast.Name) and x.func.id == sf.name for x in ast.walk(n.value)))
                                          or (isinstance(n.value, ast.Call) and isinstance(n.value.func, ast.Name) and n.value.func.id in helpers)):
            sizes.append(n)
    same = len({ast.dump(n.value) for n in sizes}) == 1 and len(sizes) >= 3
    rep.add("R03.7", f"{g.qual}::offsets and emission use the same instruction size", same, loc(g.module, sizes[0]) if sizes else loc(g.module, g.node),
            f"{len(sizes)} size computations, all `{norm_src(sizes[0].value)}`" if same else
            f"the size of an instruction is computed differently at {[s.lineno for s in sizes]}: {sorted({norm_src(s.value) for s in sizes})} - offsets used for jumps and units emitted disagree")


# ----------------------------------------------------------------------------- R03.8
def r038(an, rep):
    """Encoder mirror of R02.5: an instruction's line is keyed at the offset of its FIRST code unit (CPython's line table and
    dis.findlinestarts attribute a line from the first EXTENDED_ARG prefix on), before any unit of the instruction is emitted."""
    from .encode_model import inline_reaching, parent_map
    rep.rule("R03.8", "the encoder keys an instruction's line at the offset of its first code unit", 1)
    lm = an.prog.cls("code_data._line_mapping::LineMapping")
    dict_fields = [f.name for f in lm.fields if an.tg.field_type(f)[0] == "dict"]
    found = 0
    for f in an.closure("to_code"):
        if f.cls is lm or (f.cls is not None and f.cls.qual == lm.qual):
            continue
        pm = parent_map(f.module)
        stores = [n for n in ast.walk(f.node) if isinstance(n, ast.Assign) and isinstance(n.targets[0], ast.Subscript)
                  and isinstance(n.targets[0].value, ast.Attribute) and n.targets[0].value.attr in dict_fields]
        if not stores:
            continue
        # the per-instruction loop: innermost loop containing the first store (in source order)
        first = min(stores, key=lambda n: (n.lineno, n.col_offset))

        def loops_of(node):
            out = []
            cur = node
            while id(cur) in pm and pm[id(cur)] is not f.node:
                cur = pm[id(cur)]
                if isinstance(cur, (ast.For, ast.While)):
                    out.append(cur)
            return out
        lps = loops_of(first)
        if not lps:
            raise AnalysisError(f"{f.qual}: the store of an instruction's line is not inside a loop over instructions")
        # the unit loop emits the code units of ONE instruction (it holds the appends); the instruction loop is the loop around it
        app_calls = [c for c in ast.walk(f.node) if isinstance(c, ast.Call) and isinstance(c.func, ast.Attribute) and c.func.attr in ("append", "extend") and isinstance(c.func.value, ast.Name)]
        unit = None
        for c in app_calls:
            ch = loops_of(c)
            if ch and any(x is lps[-1] or x is lps[0] for x in ch) and (unit is None or len(ch) > len(loops_of(unit))):
                unit = ch[0]
        loop = lps[0]
        if unit is not None and loop is unit and len(loops_of(unit)) >= 1:
            loop = loops_of(unit)[0]
        # stores made inside the unit loop: one per unit is right for the line itself (R01.7); anything else must be made for the FIRST unit only
        if unit is not None and unit is not loop and isinstance(unit, ast.For) and isinstance(unit.target, ast.Name):
            from .encode_model import conj, guards_of
            line_field = dict_fields[0]
            for st in stores:
                ch = loops_of(st)
                if not ch or ch[0] is not unit:
                    continue
                fld = st.targets[0].value.attr
                if fld == line_field:
                    continue
                found += 1
                iv = unit.target.id
                gs = [g for g, pos in guards_of(f.module, f, st) if any(isinstance(x, ast.Name) for x in ast.walk(g))]
                # evaluate: for a 3-unit instruction, on which iterations does the guard hold?
                try:
                    seq = None
                    for nunits in (3,):
                        envi = {n_.id: nunits for n_ in ast.walk(unit.iter) if isinstance(n_, ast.Name) and n_.id not in ("reversed", "range", "enumerate")}
                        seq = list(feval(unit.iter, envi))
                    holds = []
                    for pos_, ival in enumerate(seq):
                        v = True
                        for g in gs:
                            ge0 = inline_reaching(unit, st, g)
                            for ge in (ge0.values if isinstance(ge0, ast.BoolOp) and isinstance(ge0.op, ast.And) else [ge0]):
                                names = {x.id for x in ast.walk(ge) if isinstance(x, ast.Name)}
                                if iv not in names:
                                    continue  # a condition on the data, not on the unit
                                envg = {iv: ival}
                                v = v and bool(feval(ge, envg))
                        holds.append(v)
                except Exception as ex:
                    raise AnalysisError(f"{f.qual}: the store `{norm_src(st)[:50]}` inside the unit loop is guarded in a way that is not evaluable: {ex}")
                okf = holds == [True] + [False] * (len(holds) - 1)
                rep.add("R03.8", f"{f.qual}::{fld} keyed by the first code unit", okf, loc(f.module, st),
                        "made for the first unit of the instruction only" if okf else
                        f"inside the unit loop `{norm_src(st)[:60]}` is made for unit(s) {[i for i, h in enumerate(holds) if h]} of a 3-unit instruction (0 = the first EXTENDED_ARG), not for the first "
                        f"unit only: the extra line-table entries of an instruction with EXTENDED_ARG prefixes are written {2 * (len(holds) - 1)} bytes late (or once per unit)")
        # byte list: the list whose length the keys measure / that the unit loop appends to
        applists = {c.func.value.id for c in ast.walk(loop) if isinstance(c, ast.Call) and isinstance(c.func, ast.Attribute) and c.func.attr in ("append", "extend")
                    and isinstance(c.func.value, ast.Name)}
        keys = []
        for st in stores:
            if loops_of(st)[:1] != [loop]:
                continue  # a store in a deeper loop (one per unit) is judged by R01.7
            k = inline_reaching(loop, st, st.targets[0].slice)
            keys.append((st, k))
        if not keys:
            if unit is not None and any(loops_of(st_)[:1] == [unit] for st_ in stores):
                continue  # every store is made per unit: the key domain is R01.7's business
            raise AnalysisError(f"{f.qual}: no per-instruction line store")
        for st, k in keys:
            found += 1
            lens = [x for x in ast.walk(k) if isinstance(x, ast.Call) and isinstance(x.func, ast.Name) and x.func.id == "len" and x.args
                    and isinstance(x.args[0], ast.Name) and x.args[0].id in applists]
            if not lens:
                raise AnalysisError(f"{f.qual}: key `{norm_src(k)}` of the line store is not measured on the emitted bytes")
            exact = isinstance(k, ast.Call) and k is not None and norm_src(k) == norm_src(lens[0])
            B = lens[0].args[0].id
            # nothing emitted yet in this iteration: no append to B in an earlier statement of the loop body
            idx = next(i for i, s in enumerate(loop.body) if any(x is st for x in ast.walk(s)))
            # where was the key's len() taken?  at the assignment that reaches the store, or at the store itself
            key_stmt_idx = idx
            if isinstance(st.targets[0].slice, ast.Name):
                for j in range(idx - 1, -1, -1):
                    s = loop.body[j]
                    if isinstance(s, ast.Assign) and len(s.targets) == 1 and isinstance(s.targets[0], ast.Name) and s.targets[0].id == st.targets[0].slice.id:
                        key_stmt_idx = j
                        break
            emitted_before = any(isinstance(c, ast.Call) and isinstance(c.func, ast.Attribute) and c.func.attr in ("append", "extend") and isinstance(c.func.value, ast.Name)
                                 and c.func.value.id == B for s in loop.body[:key_stmt_idx] for c in ast.walk(s))
            ok = exact and not emitted_before
            fld = st.targets[0].value.attr
            rep.add("R03.8", f"{f.qual}::{fld} keyed by the first code unit", ok, loc(f.module, st),
                    f"key `{norm_src(k)}` is the length of the bytes emitted before this instruction: the offset of its first unit" if ok else
                    (f"key `{norm_src(k)}` is not the offset of the instruction's first code unit (`len({B})` before anything is emitted for it): with EXTENDED_ARG prefixes the line "
                     f"starts at the wrong unit - the prefixes stay on the previous line, a line that begins with a wide instruction loses its line event" if not emitted_before or not exact else
                     f"`len({B})` is taken after units of this instruction were already emitted"))
    if not found:
        raise AnalysisError("no store of an instruction's line found in the encoder")


# ----------------------------------------------------------------------------- R03.Y
def r03y(an, rep, rule="R03.Y"):
    """The statements that write the code units and rebuild the line mapping (from the creation of the mapping to the return) are folded over
    witness instruction lists with known operands.  Expected, from what CPython does with the result and from where the decoder finds things: the
    units are EXTENDED_ARG prefixes (high byte first) and the opcode with the low byte; every code unit of an instruction maps to the
    instruction's line; the redundant table entries an instruction carries are registered at its FIRST code unit (where the table had them)."""
    from sa.feval import BlockOutcome, FevalError, Obj, ObjEval
    from .c11 import reference as _ref
    from .common import data_classes
    from .line_fold import _ctor
    rep.rule(rule, "the final assembly (code units, per-unit lines, extra table entries at the first unit) folded over witness instruction lists", 2)
    cand = None
    for g in an.closure("to_code"):
        if not isinstance(g.node, ast.FunctionDef):
            continue
        body = g.node.body
        for i, st in enumerate(body):
            if isinstance(st, ast.Assign) and len(st.targets) == 1 and isinstance(st.targets[0], ast.Name) and isinstance(st.value, ast.Call) \
                    and isinstance(st.value.func, ast.Name) and not st.value.args and not st.value.keywords:
                r = an.prog.resolve_global(g.module, st.value.func.id, g)
                if r and r[0] == "class" and any(fl.name == "offset_to_line" for fl in r[1].fields):
                    cand = (g, i, st.targets[0].id)
    if cand is None:
        raise AnalysisError("the place where the encoder creates the line mapping it fills while writing code units was not found")
    g, i0, M = cand
    body = g.node.body
    loops = [st for st in body[i0 + 1:] if isinstance(st, ast.For)]
    if len(loops) != 1 or not isinstance(body[-1], ast.Return):
        raise AnalysisError(f"{g.qual}: expected one assembly loop between the creation of the mapping and the return")
    loop = loops[0]
    # the list of code units: the receiver of .append() in the loop that the return turns into bytes
    B = {c.func.value.id for c in ast.walk(loop) if isinstance(c, ast.Call) and isinstance(c.func, ast.Attribute) and c.func.attr in ("append", "extend") and isinstance(c.func.value, ast.Name)}
    B = {b for b in B if any(isinstance(c, ast.Call) and isinstance(c.func, ast.Name) and c.func.id in ("bytes", "bytearray") and c.args and isinstance(c.args[0], ast.Name) and c.args[0].id == b
                             for c in ast.walk(body[-1]))}
    if len(B) != 1:
        raise AnalysisError(f"{g.qual}: the list of code units the assembly loop fills was not recognised")
    B = next(iter(B))
    binit = next((k for k, st in enumerate(body) if isinstance(st, (ast.Assign, ast.AnnAssign)) and any(isinstance(t, ast.Name) and t.id == B for t in (st.targets if isinstance(st, ast.Assign) else [st.target]))), None)
    if binit is None:
        raise AnalysisError(f"{g.qual}: `{B}` is not initialised at the top level")
    region = [body[binit]] + [st for k, st in enumerate(body[i0:-1]) if k + i0 != binit]
    if binit < i0 and any(isinstance(st, (ast.For, ast.While)) for st in body[binit + 1:i0]):
        raise AnalysisError(f"{g.qual}: code units are written before the line mapping exists")
    # the blocks and the operand table: the loop's iterable and the subscripted name keyed by (block, instruction)
    it_names = [n.id for n in ast.walk(loop.iter) if isinstance(n, ast.Name) and n.id in g.params]
    subs = {s.value.id for s in ast.walk(loop) if isinstance(s, ast.Subscript) and isinstance(s.value, ast.Name) and isinstance(s.slice, ast.Tuple) and len(s.slice.elts) == 2}
    if len(it_names) != 1 or len(subs) != 1:
        raise AnalysisError(f"{g.qual}: the assembly loop's inputs (blocks, operand table) were not recognised")
    blocks_name, args_name = it_names[0], next(iter(subs))
    ins_ci = next((ci for ci in data_classes(an) if ci.name == "Instruction"), None)
    if ins_ci is None:
        raise AnalysisError("Instruction class not found")
    mk = _ctor(ins_ci)

    def resolve(name):
        r = an.prog.resolve_global(g.module, name, g)
        return r[1].node if r and r[0] == "func" and r[1].cls is None else None
    for V in VERSIONS:
        R = _ref(V)
        EXT = R["EXTENDED_ARG"]
        om = R["opmap"]
        # (name, blocks as lists of (opname, operand, recorded width, line, extra entries))
        W = [
            ("a prefixed instruction that carries extra table entries", [[("LOAD_CONST", 300, None, 5, (1, -1))]]),
            ("three code units after a plain instruction, then a block without a line", [[("NOP", 0, None, 1, ()), ("LOAD_CONST", 70000, None, 2, (0,))], [("RETURN_VALUE", 0, None, None, ())]]),
            ("a recorded width of three for a small operand", [[("LOAD_NAME", 1, 3, 7, (2,)), ("POP_TOP", 0, None, 7, ())]]),
            ("four code units", [[("LOAD_CONST", 0x01020304, None, 3, ())]]),
        ]
        bad = []
        for wname, wb in W:
            blocks = tuple(tuple(mk(name=n, arg=a, _n_args_override=w, line_number=ln, _line_offsets_override=tuple(x)) for n, a, w, ln, x in b) for b in wb)
            argtab = {(bi, ii): ins[1] for bi, b in enumerate(wb) for ii, ins in enumerate(b)}
            units, lines, extra = [], {}, {}
            for b in wb:
                for n, a, w, ln, x in b:
                    k = max(w or 1, 1 if a <= 0xFF else 2 if a <= 0xFFFF else 3 if a <= 0xFFFFFF else 4)
                    if x:
                        extra[len(units)] = list(x)
                    for j in reversed(range(k)):
                        lines[len(units)] = ln
                        units += [om[n] if j == 0 else EXT, (a >> (8 * j)) & 0xFF]
            extra_cls = {}
            for mod in an.prog.modules.values():
                if mod.name.startswith("code_data") and not mod.is_test:
                    for ci in mod.classes.values():
                        if ci.is_dataclass:
                            extra_cls[ci.name] = _ctor(ci)
            ev = ObjEval(resolve, extra={**extra_cls, "dis": {"opmap": dict(om), "EXTENDED_ARG": EXT, "HAVE_ARGUMENT": R["HAVE_ARGUMENT"]}, "EXTENDED_ARG": EXT, "opmap": dict(om),
                                         "opcode": {"opmap": dict(om), "EXTENDED_ARG": EXT}, "sys": {"version_info": tuple(V) + (0, "final", 0)}})
            ev.module_assigns = g.module.assigns
            env = {blocks_name: blocks, args_name: argtab}
            try:
                ev.exec(region, env)
            except BlockOutcome as o:
                bad.append(f"{wname}: the assembly stops at `{norm_src(o.node)[:60]}`")
                continue
            except Exception as ex:  # noqa: BLE001 - a gap of the evaluator, never a verdict
                raise AnalysisError(f"{g.qual}: the assembly statements are not evaluable on the witness instructions ({type(ex).__name__}: {ex})")
            mp = env.get(M)
            gl, gx, gu = (mp.get("offset_to_line"), mp.get("offset_to_additional_line_offsets")) + (env.get(B),) if isinstance(mp, Obj) else (None, None, None)
            if not isinstance(gl, dict) or not isinstance(gx, dict) or not isinstance(gu, list):
                raise AnalysisError(f"{g.qual}: mapping / code units after the assembly are not in a form the fold can read")
            gx = {k: list(v) for k, v in gx.items() if v}
            if list(gu) != units:
                bad.append(f"{wname}: code units {list(gu)[:12]}, expected {units[:12]}")
            elif dict(gl) != lines:
                bad.append(f"{wname}: lines per code-unit offset {dict(gl)}, expected {lines}")
            elif gx != extra:
                bad.append(f"{wname}: extra table entries registered at {gx}, the decoder found them at the instruction's first code unit: {extra}")
        rep.add(rule, f"{g.qual}::assembly of witness instructions [{vname(V)}]", not bad, loc(g.module, loop),
                f"{len(W)} witness lists (1-4 code units, recorded width, extra table entries, a block without a line): units, per-unit lines and the offsets of extra entries as expected" if not bad else
                bad[0] + (f" (+{len(bad) - 1} more)" if len(bad) > 1 else "") + " - the line table written for such data differs from the one it was decoded from")


# ----------------------------------------------------------------------------- R03.T
def r03t(an, rep, rule="R03.T"):
    """The encoder's table (the class with __setitem__) folded over witness call sequences.  Expected, from what a table of a code object is and
    from what the decoder reports: an entry given without position takes the position equal to the number of positions already taken (the mirror
    of the decoder's first-use rank - R09.7), the same entry given again resolves to its position, a pinned entry takes its pin, two different
    entries at one position are refused, and the compaction returns the entries in position order (or refuses gaps)."""
    from sa.feval import BlockOutcome, FevalError, Obj, ObjEval
    rep.rule(rule, "the encoder's table folded over witness call sequences: positions as first-use ranks, pins honoured, collisions refused, compaction in position order", 2)
    ci = table_class(an)
    methods = {m.name: m.node for m in ci.methods.values() if isinstance(m.node, ast.FunctionDef)}
    adders = [m for m in ci.methods.values() if len(m.params) == 3 and m.name != "__setitem__" and any(isinstance(n, ast.Return) for n in ast.walk(m.node))]
    comps = [m for m in ci.methods.values() if len(m.params) == 1 and not m.name.startswith("__") and any(isinstance(n, ast.Return) and n.value is not None for n in ast.walk(m.node))]
    if len(adders) != 1 or len(comps) != 1:
        raise AnalysisError(f"{ci.qual}: the add (entry, position or None) -> position method / the compaction method were not recognised")
    add, comp = adders[0], comps[0]

    def resolve(name):
        r = an.prog.resolve_global(ci.module, name, add)
        return r[1].node if r and r[0] == "func" else None
    keyf = lambda v: (type(v).__name__, v[0] if isinstance(v, tuple) else v)  # noqa: E731 - the witness key: ("tuple", first member) makes (1, "x") and (1, "y") one key
    RAISE = "<raises>"
    # (name, key function or None for the default, [(entry, pin) ...], expected positions, expected table or RAISE)
    T1, T1b = (1, "x"), (1, "y")
    W = [
        ("entries in order of first use", None, [("a", None), ("b", None), ("a", None), ("c", None), ("b", None)], [0, 1, 0, 2, 1], ("a", "b", "c")),
        ("entries met out of table order, as the decoder reports them", None, [("a", None), ("z", 2), ("b", 1), ("z", 2)], [0, 2, 1, 2], ("a", "b", "z")),
        ("the rank of a new entry is a position a pin has taken: refused, not overwritten", None, [("a", None), ("z", 2), ("b", None)], [0, 2, RAISE], None),
        ("pins out of order", None, [("b", 1), ("a", 0), ("c", None)], [1, 0, 2], ("a", "b", "c")),
        ("two entries with one key pinned apart, then a new entry", keyf, [(T1, 0), (T1b, 1), ("u", None)], [0, 1, 2], (T1, T1b, "u")),
        ("1 and True are different entries", lambda v: (type(v).__name__, v), [(1, None), (True, None), (1, None)], [0, 1, 0], (1, True)),
        ("entries whose hashes collide (hash(-1) == hash(-2))", None, [(-1, None), (-2, None), (-1, None), (-2, None)], [0, 1, 0, 1], (-1, -2)),
        ("a pin that leaves a gap", None, [("a", None), ("q", 5)], [0, 5], RAISE),
        ("two different entries pinned at one position", None, [("a", 0), ("b", 0)], [0, RAISE], None),
        ("a new entry after a pinned first position", None, [("p", 0), ("a", None), ("b", None)], [0, 1, 2], ("p", "a", "b")),
    ]
    bad = []
    n_calls = 0
    for name, kf, seq, want_pos, want_tab in W:
        ev = ObjEval(resolve, extra={}, methods=methods)
        ev.module_assigns = ci.module.assigns
        obj = Obj({"__cls__": ci.name})
        try:
            for fl in ci.fields:
                if fl.default_factory is not None:
                    obj[fl.name] = ev.ev(ast.Call(func=fl.default_factory, args=[], keywords=[]), {})
                elif fl.default is not None:
                    obj[fl.name] = ev.ev(fl.default, {})
                else:
                    raise AnalysisError(f"{ci.qual}: field {fl.name} has no default: how the table is constructed is not recognised")
            if kf is not None:
                kfields = [fl.name for fl in ci.fields if "hash" in fl.name or "key" in fl.name]
                if len(kfields) != 1:
                    raise AnalysisError(f"{ci.qual}: the field holding the key function was not recognised")
                obj[kfields[0]] = kf
            if "__post_init__" in methods:
                ev.call_method(methods["__post_init__"], obj)
            stop = False
            for k, ((entry, pin), want) in enumerate(zip(seq, want_pos)):
                n_calls += 1
                try:
                    got = ev.call_method(add.node, obj, entry, pin)
                except BlockOutcome:
                    got = RAISE
                if got != want or (got is not RAISE and isinstance(got, bool)):
                    bad.append(f"{name}: call #{k + 1} `{add.name}({entry!r}, {pin!r})` gives {got!r}, expected {want!r}")
                    stop = True
                    break
                if got is RAISE:
                    stop = True
                    break
            if stop or want_tab is None:
                continue
            n_calls += 1
            try:
                tab = ev.call_method(comp.node, obj)
            except BlockOutcome:
                tab = RAISE
            if tab != want_tab or (tab is not RAISE and [type(x) for x in tab] != [type(x) for x in want_tab]):
                bad.append(f"{name}: after {[(e, p) for e, p in seq]} `{comp.name}()` gives {tab!r}, expected {want_tab!r}")
        except AnalysisError:
            raise
        except Exception as ex:  # noqa: BLE001 - a gap of the evaluator, never a verdict
            raise AnalysisError(f"{ci.qual}: table methods not evaluable on the witness sequence '{name}' ({type(ex).__name__}: {ex})")
    rep.add(rule, f"{add.qual}::positions on witness call sequences", not bad, loc(add.module, add.node),
            f"{len(W)} call sequences ({n_calls} calls): positions, refusals and compacted tables as expected" if not bad else
            bad[0] + (f" (+{len(bad) - 1} more)" if len(bad) > 1 else "") + " - the operand written for the instruction and the table handed to CodeType disagree with what the decoder reported "
            "(first-use rank = number of positions taken; entries with one key are kept apart by their pins)")


# ----------------------------------------------------------------------------- R03.E
def package_evaluator(an, module, V, max_iter=4096, stubs=None):
    """An ObjEval over the whole package: module-level functions of any package module by name (ambiguous names are not resolved), every data
    class constructible, `dis` / `opcode` / `sys` / `ctypes` as the reference tables of interpreter V."""
    from sa.feval import ObjEval
    from .c11 import reference as _ref
    fns, amb = {}, set()
    for mod in an.prog.modules.values():
        if mod.name.startswith("code_data") and not mod.is_test:
            for name, f in mod.functions.items():
                if f.cls is None and isinstance(f.node, ast.FunctionDef):
                    if name in fns and fns[name] is not f.node:
                        amb.add(name)
                    fns[name] = f.node
    R = _ref(V)
    om = dict(R["opmap"])
    opname = [f"<{i}>" for i in range(256)]
    for k, v in om.items():
        opname[v] = k
    dis_ = {"opmap": om, "opname": opname, "EXTENDED_ARG": R["EXTENDED_ARG"], "HAVE_ARGUMENT": R["HAVE_ARGUMENT"],
            **{k: list(R[k]) for k in ("hasjabs", "hasjrel", "hasname", "haslocal", "hasfree", "hasconst", "hascompare")}}
    import collections as _c
    import math as _m
    stubs = stubs or {}
    ev = ObjEval(lambda name: None if (name in amb or name in stubs) else fns.get(name),
                 extra={"dis": dis_, "opcode": dis_, "EXTENDED_ARG": R["EXTENDED_ARG"], "HAVE_ARGUMENT": R["HAVE_ARGUMENT"], "opmap": om, "opname": opname,
                        "sys": {"version_info": tuple(V) + (0, "final", 0), "flags": {"optimize": 0, "debug": 0, "bytes_warning": 0, "dont_write_bytecode": 0}, "maxsize": 2 ** 63 - 1},
                        "codeop": {"PyCF_DONT_IMPLY_DEDENT": 0x200, "PyCF_ALLOW_INCOMPLETE_INPUT": 0x4000},
                        "ast": {"PyCF_ONLY_AST": 0x400, "PyCF_TYPE_COMMENTS": 0x1000, "PyCF_ALLOW_TOP_LEVEL_AWAIT": 0x2000}, "ctypes": {"sizeof": lambda x: {"c_int": 4}[x], "c_int": lambda *a: "c_int"},
                        "Counter": _c.Counter, "isnan": _m.isnan, "copysign": _m.copysign, "NotImplementedError": NotImplementedError, "ValueError": ValueError,
                        "AssertionError": AssertionError, "OrderedDict": dict, "bisect_left": __import__("bisect").bisect_left, "bisect_right": __import__("bisect").bisect_right,
                        "bisect": {"bisect_left": __import__("bisect").bisect_left, "bisect_right": __import__("bisect").bisect_right, "bisect": __import__("bisect").bisect},
                        "collections": {"defaultdict": _c.defaultdict, "Counter": _c.Counter, "OrderedDict": dict}, "defaultdict": _c.defaultdict,
                        "id": id, "accumulate": lambda xs, *a, **k: tuple(__import__("itertools").accumulate(xs, *a, **k)),
                        "chain": __import__("itertools").chain, "itertools": {"accumulate": lambda xs, *a, **k: tuple(__import__("itertools").accumulate(xs, *a, **k)), "chain": __import__("itertools").chain},
                        "_ParameterKind": {"POSITIONAL_ONLY": 0, "POSITIONAL_OR_KEYWORD": 1, "VAR_POSITIONAL": 2, "KEYWORD_ONLY": 3, "VAR_KEYWORD": 4}})
    # the CO_* constants of `inspect` on this interpreter (reference table), by name and as attributes of the module
    co_ = {"CO_" + str(n_): int(v_) for v_, n_ in R.get("COMPILER_FLAG_NAMES", {}).items()}
    for k_, v_ in co_.items():
        ev.lib.setdefault(k_, v_)
    ev.lib.setdefault("inspect", dict(co_))
    ev.lib.update(stubs)
    ev.module_assigns = {}
    for mod in an.prog.modules.values():
        if mod.name.startswith("code_data") and not mod.is_test:
            for k, v in mod.assigns.items():
                ev.module_assigns.setdefault(k, v)
    ev.module_assigns.update(module.assigns)
    for mod in an.prog.modules.values():
        if mod.name.startswith("code_data") and not mod.is_test:
            for ci in mod.classes.values():
                if ci.is_dataclass:
                    ev.register_class(ci)
    ev.MAX_ITER = max_iter
    ev.MAX_STEPS = 3_000_000
    return ev, R


def read_units(code: bytes, R):
    """dis._unpack_opargs: (first offset, opcode offset, opcode, operand, number of code units) per instruction."""
    out = []
    ext = 0
    first = None
    for i in range(0, len(code), 2):
        op, b = code[i], code[i + 1]
        if first is None:
            first = i
        if op == R["EXTENDED_ARG"]:
            ext = (ext | b) << 8
            continue
        out.append((first, i, op, ext | b, (i - first) // 2 + 1))
        ext, first = 0, None
    return out


def _find_layout_fn(an):
    g = None
    for f in an.closure("to_code"):
        if isinstance(f.node, ast.FunctionDef) and f.cls is None and any(isinstance(n, ast.While) for n in ast.walk(f.node)) \
                and any(isinstance(n, ast.Attribute) and n.attr == "EXTENDED_ARG" for n in ast.walk(f.node)):
            g = f
    if g is None or len(g.params) != 4:
        raise AnalysisError("the encoder's layout function (blocks, additional args, free variables, kind of code) was not found")
    return g


def _layout_witnesses():
    J = lambda t, rel=True: ("J", t, rel)  # noqa: E731
    N, K, X, C, F = (lambda n, o=None: ("N", n, o)), (lambda v, o=None: ("K", v, o)), (lambda i: ("X", i)), (lambda n: ("C", n)), (lambda n: ("F", n))  # noqa: E731
    fill = [("LOAD_CONST", K(7)), ("POP_TOP", None)]
    # (name, blocks: [(opname, arg spec, recorded width)], freevars)
    W = [
        ("two equal relative jumps to one block from different places",
         [[("JUMP_FORWARD", J(2)), ("NOP", None), ("NOP", None), ("JUMP_FORWARD", J(2))], [("LOAD_CONST", K(1)), ("POP_TOP", None)], [("LOAD_CONST", K(None)), ("RETURN_VALUE", None)]], ()),
        ("a jump to a block whose first instruction has a prefix",
         [[("LOAD_NAME", N("a")), ("POP_JUMP_IF_FALSE", J(1, False)), ("NOP", None)], [("BUILD_TUPLE", X(300)), ("JUMP_ABSOLUTE", J(0, False))]], ()),
        ("a relative jump over more than 255 bytes, an absolute jump back behind it",
         [[("LOAD_NAME", N("a")), ("JUMP_FORWARD", J(2))], fill * 70, [("LOAD_NAME", N("b")), ("POP_JUMP_IF_TRUE", J(1, False)), ("JUMP_ABSOLUTE", J(2, False)), ("RETURN_VALUE", None)]], ()),
        ("a jump recorded with three code units, and one whose operand crosses 255 when the other grows",
         [[("JUMP_FORWARD", J(1), 3)], fill * 63 + [("JUMP_ABSOLUTE", J(2, False))], [("RETURN_VALUE", None)]], ()),
        ("cell and free variables",
         [[("LOAD_CLOSURE", C("c")), ("LOAD_DEREF", F("f1")), ("LOAD_DEREF", F("f0")), ("LOAD_DEREF", C("c")), ("RETURN_VALUE", None)]], ("f0", "f1")),
        ("names and constants met twice, 1 / True / 1.0 kept apart",
         [[("LOAD_NAME", N("x")), ("LOAD_CONST", K(1)), ("LOAD_CONST", K(True)), ("LOAD_NAME", N("y")), ("LOAD_CONST", K(1.0)), ("LOAD_NAME", N("x")), ("LOAD_CONST", K(1)), ("RETURN_VALUE", None)]], ()),
        ("a function without docstring whose first constant is a string, met in its second block",
         [[("LOAD_GLOBAL", N("g")), ("POP_JUMP_IF_FALSE", J(1, False))], [("LOAD_CONST", K("s")), ("RETURN_VALUE", None)]], (), "nodoc"),
        ("a function with a docstring that an instruction loads as well",
         [[("LOAD_CONST", K("doc")), ("POP_TOP", None), ("LOAD_CONST", K(2)), ("RETURN_VALUE", None)]], (), "doc"),
        ("a function without docstring whose first constant is not a string",
         [[("LOAD_CONST", K(5)), ("POP_TOP", None), ("LOAD_CONST", K("s")), ("RETURN_VALUE", None)]], (), "nodoc"),
        ("a function without docstring: a string pinned at index 0 that is not the first constant met",
         [[("LOAD_CONST", K(1, 1)), ("POP_TOP", None), ("LOAD_CONST", K("s", 0)), ("RETURN_VALUE", None)]], (), "nodoc-refused"),
        # entries no instruction uses come after the ones in use (that is where the decoder found them when it left them without a position)
        ("unreferenced names and constants behind the ones in use",
         [[("LOAD_NAME", N("first")), ("LOAD_ATTR", N("attr")), ("LOAD_CONST", K(1)), ("RETURN_VALUE", None)]], (), None, [N("second"), N("third"), K("unused")]),
    ]
    return W


def _layout_bad(an, g, V, W):
    """The layout function folded over the block lists W under interpreter V: the list of witnesses that do not read back as given."""
    from sa.feval import BlockOutcome, Obj
    bad = []
    for wname, wb, freevars, *rest in W:
        kind = rest[0] if rest else None
        extra_specs = rest[1] if len(rest) > 1 else []
        ev, R = package_evaluator(an, g.module, V)
        mk = ev.lib

        def arg_obj(spec):
            if spec is None:
                return mk["NoArg"]()
            if spec[0] == "J":
                return mk["Jump"](spec[1], spec[2])
            if spec[0] == "N":
                return mk["Name"](spec[1], spec[2])
            if spec[0] == "K":
                return mk["Constant"](spec[1], spec[2])
            if spec[0] == "C":
                return mk["Cellvar"](spec[1])
            if spec[0] == "F":
                return mk["Freevar"](spec[1])
            return spec[1]
        if any(op not in R["opmap"] for b in wb for op, *_ in b):
            continue
        try:
            blocks = tuple(tuple(mk["Instruction"](name=ins[0], arg=arg_obj(ins[1]), _n_args_override=(ins[2] if len(ins) > 2 else None), line_number=1) for ins in b) for b in wb)
            btype = None if kind is None else mk["Function"](mk["Args"](), "doc" if kind == "doc" else None, None)
            if kind == "nodoc-refused":
                kind_check = "nodoc"
            else:
                kind_check = kind
            res = ev.call_method(g.node, blocks, tuple(arg_obj(x) for x in extra_specs), tuple(freevars), btype)
        except BlockOutcome as o:
            if kind != "nodoc-refused":  # (that witness contradicts itself - a str at index 0 and no docstring: refusing it is right)
                bad.append(f"{wname}: the layout stops at `{norm_src(o.node)[:60]}`")
            continue
        except AnalysisError:
            raise
        except Exception as ex:  # noqa: BLE001 - a gap of the evaluator, never a verdict
            raise AnalysisError(f"{g.qual}: not evaluable on the witness blocks '{wname}' ({type(ex).__name__}: {ex})")
        code = next((x for x in res if isinstance(x, (bytes, bytearray))), None) if isinstance(res, tuple) else None
        tables = [x for x in res if isinstance(x, tuple)] if isinstance(res, tuple) else []
        if code is None or len(tables) != 4:
            raise AnalysisError(f"{g.qual}: the result on the witness blocks is not (code, mapping, names, varnames, cellvars, constants)")
        names, varnames, cellvars, consts = tables
        units = read_units(bytes(code), R)
        flat = [ins for b in wb for ins in b]
        if [u[2] for u in units] != [R["opmap"][ins[0]] for ins in flat]:
            bad.append(f"{wname}: the code units read back as opcodes {[u[2] for u in units][:8]}..., expected {[R['opmap'][ins[0]] for ins in flat][:8]}...")
            continue
        starts, k = [], 0
        for b in wb:
            starts.append(units[k][0])
            k += len(b)
        scale = R["jump_scale"]
        why = None
        for (first, opoff, op, operand, n), ins in zip(units, flat):
            spec = ins[1]
            rec = ins[2] if len(ins) > 2 else None
            if rec and n < rec:
                why = f"{ins[0]} at {first} was recorded with {rec} code units and is written with {n}"
            elif spec is None:
                continue
            elif spec[0] == "J":
                tgt = (opoff + 2 + operand * scale) if spec[2] else operand * scale
                if op in R["hasjabs"] and spec[2] or op in R["hasjrel"] and not spec[2]:
                    continue
                if tgt != starts[spec[1]]:
                    why = f"{ins[0]} at {first} lands on {tgt}; block {spec[1]} begins at {starts[spec[1]]}"
            elif spec[0] == "N" and (operand >= len(names) or names[operand] != spec[1]):
                why = f"{ins[0]} {spec[1]!r} has operand {operand}, co_names is {names}"
            elif spec[0] == "K" and (operand >= len(consts) or consts[operand] != spec[1] or type(consts[operand]) is not type(spec[1])):
                why = f"{ins[0]} {spec[1]!r} has operand {operand}, co_consts is {consts}"
            elif spec[0] == "C" and (operand >= len(cellvars) or cellvars[operand] != spec[1]):
                why = f"{ins[0]} cell {spec[1]!r} has operand {operand}, co_cellvars is {cellvars}"
            elif spec[0] == "F" and operand != len(cellvars) + list(freevars).index(spec[1]):
                why = f"{ins[0]} free variable {spec[1]!r} has operand {operand}; CPython counts {len(cellvars)} cell(s) first, then {freevars}"
            elif spec[0] == "X" and operand != spec[1]:
                why = f"{ins[0]} {spec[1]} has operand {operand}"
            if why:
                break
        if not why and extra_specs:
            # first-use order of the instructions, then the unreferenced entries in the order given
            en, ek = [], []
            for ins in flat + [(None, x) for x in extra_specs]:
                sp = ins[1]
                if sp and sp[0] == "N" and sp[1] not in en:
                    en.append(sp[1])
                if sp and sp[0] == "K" and sp[1] not in ek:
                    ek.append(sp[1])
            if list(names) != en or list(consts) != ek:
                why = f"co_names / co_consts are {names} / {consts}; entries without a position take the next free one in order of first use, unreferenced ones last: {tuple(en)} / {tuple(ek)}"
        if not why and kind_check == "nodoc" and consts and isinstance(consts[0], str):
            why = f"co_consts is {consts}: CPython reads a str at index 0 as the docstring of a function, the data says it has none"
        if not why and kind_check == "doc" and (not consts or consts[0] != "doc"):
            why = f"co_consts is {consts}: the docstring 'doc' is not its first entry"
        if not why and kind_check == "nodoc" and len(consts) != len({(type(c), c) for c in consts}):
            why = f"co_consts is {consts}: an entry is listed twice"
        if why:
            bad.append(f"{wname}: {why}")
    return bad


def _layout_chunk(args):
    repo, V, W = args
    from sa import model
    model.REPO = repo
    an = Analysis(repo)
    try:
        return _layout_bad(an, _find_layout_fn(an), V, W), None
    except AnalysisError as ex:
        return [], str(ex)


def r03e(an, rep, rule="R03.E"):
    """The function that lays the instructions out (operands, widths, jump relaxation, code units) folded over witness block lists; the bytes it
    returns are read back the way CPython's disassembler reads them: same opcodes in order, every jump lands on the first code unit of the first
    instruction of its target block, every other operand is the expected table position / number, widths never below what was recorded."""
    from sa.feval import BlockOutcome, Obj
    rep.rule(rule, "the encoder's layout folded over witness block lists; the bytes read back as CPython's disassembler reads them", 4)
    g = _find_layout_fn(an)
    W = _layout_witnesses()
    deep = getattr(rep, "tier", "quick") == "thorough" and getattr(rep, "pid", "") == "C03"
    for V in VERSIONS:
        if deep:
            # thorough tier of C03 itself: generated block lists (seeded by VERIF_SEED), folded on all cores
            import concurrent.futures as cf
            from .deep_fold import generated_programs
            WG = W + generated_programs(getattr(rep, "seed", 0), 160)
            n_w = max(1, min(16, os.cpu_count() or 1))
            bad = []
            with cf.ProcessPoolExecutor(max_workers=n_w) as ex:
                for b_, gap in ex.map(_layout_chunk, [(an.prog.repo, V, WG[i::n_w]) for i in range(n_w)]):
                    if gap:
                        raise AnalysisError(gap)
                    bad += b_
            W_used = WG
        else:
            bad = _layout_bad(an, g, V, W)
            W_used = W
        rep.add(rule, f"{g.qual}::layout of witness blocks [{vname(V)}]", not bad, loc(g.module, g.node),
                f"{len(W_used)} witness block lists (equal relative jumps, prefixed block starts, jumps that grow, recorded widths, cell / free variables, repeated entries): read back as given" if not bad else
                bad[0] + (f" (+{len(bad) - 1} more)" if len(bad) > 1 else "") + " - CPython's disassembler reads something else than the data says")
