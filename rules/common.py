"""Helpers shared by rule modules."""
from __future__ import annotations

import ast
from typing import Dict, List, Optional, Set, Tuple

from sa.analysis import Analysis
from sa.model import AnalysisError, ClassInfo, FunctionInfo, loc, norm_src

ROOT_CLASS = "code_data::CodeData"


def data_classes(an: Analysis) -> List[ClassInfo]:
    return [an.prog.cls(q) for q in an.tg.reachable_classes(ROOT_CLASS)]


def isinstance_arms(fn: FunctionInfo, param: str):
    """
    Decompose a type-dispatch function into arms: [(type names, body stmts, If node)], plus the
    trailing statements after the chain.  Recognised spellings: a sequence of `if isinstance(p, T): ...`
    (with or without elif), each arm ending in return/raise.
    """
    arms = []
    rest: List[ast.stmt] = []

    def rec(stmts):
        for i, st in enumerate(stmts):
            if isinstance(st, ast.Expr) and isinstance(st.value, ast.Constant):
                continue
            if isinstance(st, ast.If):
                names = _isinstance_names(st.test, param)
                if names is not None:
                    arms.append((names, st.body, st))
                    if st.orelse:
                        rec(st.orelse)
                        return
                    continue
            rest.extend(stmts[i:])
            return

    rec(fn.node.body)
    return arms, rest


def _isinstance_names(test, param) -> Optional[List[str]]:
    from sa.absint import _class_names
    if isinstance(test, ast.Call) and isinstance(test.func, ast.Name) and test.func.id == "isinstance" and len(test.args) == 2:
        a0 = test.args[0]
        if isinstance(a0, ast.Name) and a0.id == param:
            return _class_names(test.args[1])
    # `value == ...` / `value is ...` spelling for Ellipsis
    if isinstance(test, ast.Compare) and isinstance(test.left, ast.Name) and test.left.id == param and len(test.ops) == 1:
        c = test.comparators[0]
        if isinstance(c, ast.Constant) and c.value is Ellipsis and isinstance(test.ops[0], (ast.Eq, ast.Is)):
            return ["ellipsis"]
    return None


def returns_of(stmts) -> List[ast.Return]:
    out = []
    for st in stmts:
        for n in ast.walk(st):
            if isinstance(n, ast.Return):
                out.append(n)
    return out


def mentions(node: ast.AST, name: str) -> bool:
    return any(isinstance(n, ast.Name) and n.id == name for n in ast.walk(node))


def attr_chain(node) -> Optional[str]:
    if isinstance(node, ast.Name):
        return node.id
    if isinstance(node, ast.Attribute):
        b = attr_chain(node.value)
        return f"{b}.{node.attr}" if b else None
    return None


def called_names(node: ast.AST) -> Set[str]:
    out = set()
    for n in ast.walk(node):
        if isinstance(n, ast.Call):
            c = attr_chain(n.func)
            if c:
                out.add(c.split(".")[-1])
        if isinstance(n, ast.Name):
            out.add(n.id)
    return out


MEMO_DECORATORS = {"lru_cache", "cache", "cached_property", "memoize", "memoized"}


def purity(an: Analysis, rep, rule: str, entries, versions=((3, 10),)):
    """
    Shared obligation (same facts as C12's R12.3): the closure of the given API entries keeps no state between calls -
    no memoising decorator, no write to a module-level / class-level object.  A result that depends on earlier calls breaks
    every property stated per input (decoded view, signature, equality, iteration ...).
    """
    from sa.absint import MODULE_CTX
    rep.rule(rule, "the closure is a function of its argument: no memoisation, no module-level state (shared with R12.3)", 1)
    n_fn = 0
    for entry in entries:
        for V in versions:
            it, _ = an.interp(entry, V)
            for f in an.closure(entry, V):
                n_fn += 1
                memo = [d for d in f.decorators if d in MEMO_DECORATORS]
                if memo:
                    rep.add(rule, f"{f.qual}::decorators", False, loc(f.module, f.node),
                            f"{f.name} is memoised ({memo[0]}): results are shared between calls through a cache keyed by ==/hash, which is coarser than the "
                            f"identity the library must preserve (1 / 1.0 / True, 0.0 / -0.0; code objects compare equal regardless of file name and line table) and "
                            f"hands out one object to unrelated callers", config=entry)
            for m in it.mutations:
                bad = [a for a in m["targets"] if (a[0] == "obj" and a[2] == MODULE_CTX) or a[0] in ("class", "module")]
                if bad:
                    node = it.node_index[m["node"]]
                    mod = an.prog.module(m["module"])
                    rep.add(rule, f"{m['fn']}::{norm_src(node)}", False, loc(mod, node),
                            f"{m['kind']} on a module-level object (created at {bad[0][1][0]}:{bad[0][1][1]}" + ") that survives the call: later calls see state left by earlier ones"
                            if bad[0][0] == "obj" else f"{m['kind']} on {bad[0][0]} {bad[0][1]}", config=entry)
    rep.add(rule, "closure keeps no state between calls", True, "code_data/", f"{n_fn} function activations in the closures of {list(entries)} examined", nontrivial=False)


class SharedRules:
    """Proxy that files the obligations of another property's rule functions under one alias rule of this property."""

    def __init__(self, rep, alias: str, doc: str):
        self._rep, self._alias = rep, alias
        rep.rule(alias, doc, 1)

    def rule(self, rid, doc, min_instances=1):
        pass

    def add(self, rule, construct, ok, where, detail, **kw):
        return self._rep.add(self._alias, f"[{rule}] {construct}", ok, where, detail, **kw)

    def run(self, fn, *args, **kw):
        return self._rep.run(fn, *args, **kw)

    def __getattr__(self, name):
        return getattr(self._rep, name)
