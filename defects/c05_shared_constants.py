# Interpreters: 3.8.18, 3.9.18, 3.10.13 (3.7 does not share these constants itself)
# CPython >= 3.8 shares equal constants: a tuple constant nested in another one,
# or used in two code objects of one module, is ONE object.  to_code() copies
# every tuple constant (from_constant), so the shared object is split up and
# identity tests in the program give another answer.
from code_data import CodeData

SRC = '''
a = ((1000, 2000), 3)
b = (1000, 2000)
def f(x=(1000, 2000)):
    y = (1000, 2000)
    return x is y
r = (a[0] is b, f())
'''
c = compile(SRC, "<find2>", "exec")
n = CodeData.from_code(c).normalize().to_code()


def run(code):
    d = {}
    exec(code, d)
    return d["r"]


orig, new = run(c), run(n)
print("original  :", orig)
print("normalized:", new)
assert orig == new, "executing the normalized code gives a different result"
