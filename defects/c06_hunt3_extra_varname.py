# Run with 3.8.18 / 3.9.18 / 3.10.13 (PYTHONPATH=/tmp/shim:/tmp/hunt3_C06); code.replace needs 3.8+
# An extra unreferenced entry appended to co_varnames with code.replace (which keeps co_nlocals) gives a code object
# CPython runs exactly like the original; it differs only in the unreferenced table entry, but from_code refuses it,
# so the two code objects do not normalize to equal CodeData. The same entry in co_names / co_consts is accepted.
from code_data import CodeData

def f(a):
    b = a + 1
    return b

base = f.__code__
variant = base.replace(co_varnames=base.co_varnames + ("unused",))
assert variant.co_nlocals == base.co_nlocals == 2 and variant.co_code == base.co_code
f.__code__ = variant
assert f(1) == 2  # CPython does not mind: only the first co_nlocals entries are slots

# the other tables take an unreferenced entry
other = base.replace(co_names=base.co_names + ("unused",), co_consts=base.co_consts + ("unused",))
assert CodeData.from_code(other).normalize() == CodeData.from_code(base).normalize()

try:
    got = CodeData.from_code(variant).normalize()
except Exception as e:
    raise AssertionError("from_code refuses the variant: %r" % e)
assert got == CodeData.from_code(base).normalize()
