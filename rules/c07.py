"""C07 - JSON form is strict, schema-valid and round-trips without loss (DESIGN 5, R07.1-R07.5)."""
from __future__ import annotations

import ast
from typing import Dict, List, Optional, Set, Tuple

from sa import paths
from sa.analysis import VERSIONS, Analysis, fmt_atom, vname
from sa.feval import FevalError, feval
from sa.model import AnalysisError, FunctionInfo, loc, norm_src

from .c02 import module_consts
from .common import attr_chain, data_classes, isinstance_arms, returns_of
from .json_model import (decoder_tags, deref, encoder_tags, find_json_functions, load_schema, schema_accepts,
                         string_constants)
from .normalize_model import NOFOLD, field_default

# every string a code object carries is arbitrary: compile() of an ast accepts any str as an identifier (a lone surrogate included)
ARBITRARY_SOURCES = {"co_filename", "co_consts", "co_name", "co_names", "co_varnames", "co_freevars", "co_cellvars"}


def run(an: Analysis, rep):
    rep.explanation = (
        "Decides agreement between the three descriptions of the JSON format (encoder, decoder, JSON_SCHEMA): the tag key sets, the "
        "string enumerations and the operand-class unions are equal on all sides and every decoder discriminator is unambiguous; for "
        "every data-class field, every JSON shape the encoder can emit for the field's declared type - armed only where the decoder's "
        "provenance shows the value can be arbitrary (constants, co_filename) - is accepted by the schema node of that property and "
        "converted back by the decoder; raw float returns are dominated by isinf/isnan tests, raw int returns by a range test whose "
        "bounds fold to +-(2^53-1); the document contains only dicts and lists; default-hiding cannot conflate values; int<->decimal "
        "text conversions of unbounded integers are reported. Behaviour of JSON libraries and equality of to_code() results are "
        "not decided."
    )
    rep.rule("R07.1", "tags, enumerations and unions agree between encoder, decoder and schema", 25)
    rep.rule("R07.2", "emitted shape of every field is accepted by the schema and converted back by the decoder", 30)
    rep.rule("R07.3", "strictness guards dominate every raw numeric return; only dicts and lists are built", 5)
    rep.rule("R07.4", "default hiding is injective", 15)
    rep.rule("R07.5", "no decimal text conversion of unbounded integers", 0)
    from .common import purity
    rep.run(purity, an, rep, "R07.P", ["to_json", "from_json"])
    from .common import assert_guard_rule as _agrx
    rep.run(_agrx, an, rep, "R07.G", ["to_json", "from_json"])
    root, defs = load_schema(an)
    enc, cdec = find_json_functions(an)
    rep.run(r071, an, rep, enc, cdec, defs)
    rep.run(r072, an, rep, enc, cdec, defs)
    rep.run(r073, an, rep, enc)
    rep.run(r074, an, rep)
    rep.run(r07a, an, rep, enc)
    rep.run(r07b, an, rep, defs)
    rep.run(r07r, an, rep)
    from . import json_fold
    rep.run(json_fold.fold_rule, an, rep)
    rep.run(json_fold.encode_fold_rule, an, rep)
    rep.run(json_fold.constants_fold_rule, an, rep)
    rep.run(r07l, an, rep)
    from .common import SharedRules as _SRE
    from . import c08 as _c08e
    she = _SRE(rep, "R07.E", "fields equal to their default are left out of the document, and 'equal' is the data classes' own ==: every field takes part in equality, hand-written __eq__ covers every "
                               "field, and the constant key identifies all NaNs and nothing else (shared with C08's R08.1 / R08.2 / R08.4) - a field left out of == makes a non-default value vanish from the document")
    rep.run(_c08e.r081, an, she)
    rep.run(_c08e.r082, an, she)
    rep.run(_c08e.r084, an, she)
    from .common import old_interpreter_rule
    rep.run(old_interpreter_rule, an, rep, "R07.V", ["to_json", "from_json"])
    rep.run(r075, an, rep, enc, cdec)
    rep.run(r076, an, rep, enc, defs)
    rep.run(r077, an, rep, enc)
    rep.run(r079, an, rep, enc, defs)
    from .common import SharedRules
    from . import c08
    from .common import rebuild_rule
    rep.run(rebuild_rule, an, rep, "R07.8", ["from_json"], "a data class built key by key from a JSON object reads every field of the class (an omitted one silently takes its default)")
    rep.run(c08.r083, an, SharedRules(rep, "R07.S", "from_json_data stores tuples where the data classes declare tuples (shared with C08's R08.3): a list left in place makes the result unequal to x and unhashable"))
    from . import c04 as _c04j
    rep.run(_c04j.r04f, an, SharedRules(rep, "R07.D", "what from_code stores in each field has the type the published schema gives that field (C04's R04.W fold over witness code objects: a field declared "
                                                   "bool holds a bool, the docstring a str or None, ...): to_json_data writes the values as they are, so a flag kept as `word & BIT` makes the document of "
                                                   "decoded data invalid against the schema"))
    rep.stats.update(an.stats([an.interp("to_json")[0], an.interp("from_json")[0]]))


# ----------------------------------------------------------------------------- R07.1
def _schema_constant_tags(defs) -> List[Tuple[frozenset, str]]:
    out = []
    seen = set()

    def walk(node, name, depth=0):
        if depth > 8 or not isinstance(node, dict):
            return
        if "$ref" in node:
            nm = node["$ref"].split("/")[-1]
            if nm in seen or nm == "CodeData":
                return
            seen.add(nm)
            walk(defs.get(nm), nm, depth + 1)
            return
        for alt in node.get("anyOf", []) or []:
            walk(alt, name, depth + 1)
        if node.get("type") == "object" and node.get("required"):
            out.append((frozenset(node["required"]), name))
        if node.get("type") == "array":
            walk(node.get("items"), name, depth + 1)
        for p in (node.get("properties") or {}).values():
            walk(p, name, depth + 1)

    walk(defs.get("ConstantValue"), "ConstantValue")
    return out


CODEC_INVERSES = {
    "base64.b64encode": {"base64.b64decode", "base64.standard_b64decode"},
    "base64.standard_b64encode": {"base64.b64decode", "base64.standard_b64decode"},
    "base64.urlsafe_b64encode": {"base64.urlsafe_b64decode"},
    "base64.b32encode": {"base64.b32decode"},
    "base64.b16encode": {"base64.b16decode"},
    "base64.b85encode": {"base64.b85decode"},
    "base64.a85encode": {"base64.a85decode"},
    "base64.encodebytes": {"base64.decodebytes", "base64.b64decode"},
    "binascii.hexlify": {"binascii.unhexlify", "bytes.fromhex"},
    "binascii.b2a_base64": {"binascii.a2b_base64", "base64.b64decode"},
    "bytes.hex": {"bytes.fromhex", "binascii.unhexlify"},
}


def r071(an, rep, enc: FunctionInfo, cdec: FunctionInfo, defs):
    tg = an.tg
    etags = {}
    for s, node in encoder_tags(enc):
        etags.setdefault(frozenset(s), node)
    dtags = decoder_tags(cdec)
    stags = _schema_constant_tags(defs)
    wenc = loc(enc.module, enc.node)
    for s, node in sorted(etags.items(), key=lambda x: sorted(x[0])):
        name = "+".join(sorted(s))
        in_schema = any(r == s for r, _ in stags)
        rep.add("R07.1", f"tag {{{name}}}::schema", in_schema, loc(enc.module, node),
                f"schema has an object definition requiring exactly {sorted(s)}" if in_schema else
                f"the encoder emits objects tagged {sorted(s)} but no constant definition of JSON_SCHEMA requires exactly these keys: such documents fail validation")
        arms = [(k, read, n) for k, read, n in dtags if k in s]
        ok = bool(arms) and any(read <= s and s <= (read | {k}) for k, read, n in arms)
        rep.add("R07.1", f"tag {{{name}}}::decoder", ok, loc(cdec.module, arms[0][2]) if arms else loc(cdec.module, cdec.node),
                f"decoder arm tests {arms[0][0]!r} and reads {sorted(arms[0][1])}" if ok else
                (f"decoder arm for {sorted(s)} reads keys {sorted(arms[0][1])}" if arms else f"no decoder arm recognises objects tagged {sorted(s)}: that constant kind cannot be loaded back"))
    for r, nm in stags:
        ok = r in etags
        rep.add("R07.1", f"schema {nm} {{{'+'.join(sorted(r))}}}::encoder", ok, "code_data/__init__.py",
                "the encoder emits this tag" if ok else f"schema definition {nm} requires {sorted(r)}, a tag the encoder never emits")
    for k, read, n in dtags:
        ok = any(k in s for s in etags)
        rep.add("R07.1", f"decoder key {k!r}::encoder", ok, loc(cdec.module, n), "the encoder emits this tag" if ok else f"decoder tests key {k!r}, which the encoder never emits", nontrivial=False)
    # ---- library codecs come in inverse pairs: what the encoder arm of a tag applies, the decoder arm of that tag undoes
    def ext_codecs(mod, fn, node):
        out = set()
        for c in ast.walk(node):
            if isinstance(c, ast.Call):
                if isinstance(c.func, ast.Name):
                    r = an.prog.resolve_global(mod, c.func.id, fn)
                    if r and r[0] == "ext":
                        out.add(r[1])
                elif isinstance(c.func, ast.Attribute):
                    base = c.func.value
                    if isinstance(base, ast.Name):
                        r = an.prog.resolve_global(mod, base.id, fn)
                        if r and r[0] == "ext":
                            out.add(f"{r[1]}.{c.func.attr}")
                    if c.func.attr in ("hex", "fromhex"):
                        out.add("bytes." + c.func.attr)
        return out
    for s_, node in sorted(etags.items(), key=lambda x: sorted(x[0])):
        encs = {c for c in ext_codecs(enc.module, enc, node) if c in CODEC_INVERSES}
        if not encs:
            continue
        name = "+".join(sorted(s_))
        arms = [(k, read, n) for k, read, n in dtags if k in s_]
        if not arms:
            continue
        decs = set()
        for k, read, n in arms:
            decs |= ext_codecs(cdec.module, cdec, n)
        for e in sorted(encs):
            ok = bool(decs & CODEC_INVERSES[e])
            rep.add("R07.1", f"tag {{{name}}}::{e} is undone by its inverse", ok, loc(cdec.module, arms[0][2]),
                    f"encoder applies {e}, decoder applies {sorted(decs & CODEC_INVERSES[e])}" if ok else
                    f"the encoder writes this tag with {e} but the decoder arm applies {sorted(decs) or 'no library codec'}, not its inverse ({sorted(CODEC_INVERSES[e])}): values whose "
                    f"text differs between the two alphabets / formats come back changed (e.g. bytes whose base64 text contains '+' or '/')")
    # ---- text codecs: what ascii() / repr() wrote is handed to literal_eval as it is (the pair is an inverse only on the whole literal, quotes included:
    #      ascii() picks double quotes for a string that holds an apostrophe)
    from .encode_model import inline_locals as _il
    for s_, node in sorted(etags.items(), key=lambda x: sorted(x[0])):
        for k_, v_ in zip(node.value.keys, node.value.values):
            v2 = _il(enc.node, v_)
            calls = [c for c in ast.walk(v2) if isinstance(c, ast.Call) and isinstance(c.func, ast.Name) and c.func.id in ("ascii", "repr")]
            name = "+".join(sorted(s_))
            jcalls = [c for c in ast.walk(v2) if isinstance(c, ast.Call) and (attr_chain(c.func) or "") in ("json.dumps", "dumps", "json.encoder.encode_basestring_ascii", "encode_basestring_ascii")]
            if jcalls and "str" in {n for ns, body, nd in isinstance_arms(enc, enc.params[0])[0] for n in ns if any(x is node for b in body for x in ast.walk(b))}:
                rep.add("R07.1", f"tag {{{name}}}::the text codec is an inverse pair on every string", False, loc(enc.module, v_),
                        f"`{norm_src(jcalls[0])[:50]}` / json.loads is not an inverse pair on strings: JSON escapes a code point above U+FFFF as a surrogate PAIR, so json.loads fuses a high surrogate "
                        f"followed by a low surrogate - two code points in the Python string (`'\\ud83d\\ude00'`) - into one character: the constant / name / docstring comes back as another string")
                continue
            if not calls:
                continue
            whole = v2 is calls[0] or (isinstance(v2, ast.Call) and isinstance(v2.func, ast.Name) and v2.func.id == "str" and v2.args and v2.args[0] is calls[0])
            surgery = [x for x in ast.walk(v2) if isinstance(x, ast.Subscript) and isinstance(x.slice, ast.Slice)] + \
                      [x for x in ast.walk(v2) if isinstance(x, ast.Call) and isinstance(x.func, ast.Attribute) and x.func.attr in ("strip", "lstrip", "rstrip", "replace", "removeprefix", "removesuffix")] + \
                      [x for x in ast.walk(v2) if isinstance(x, (ast.BinOp, ast.JoinedStr))]
            if not whole and not surgery:
                raise AnalysisError(f"{enc.qual}: the text written under {k_.value!r} is `{norm_src(v2)[:60]}`: whether it is the whole literal {calls[0].func.id}() returned is not decided")
            arms = [(k, read, n) for k, read, n in dtags if k in s_]
            dec_whole = True
            for k, read, n in arms:
                for c in ast.walk(n):
                    if isinstance(c, ast.Call) and (attr_chain(c.func) or "").split(".")[-1] == "literal_eval" and c.args:
                        a0 = c.args[0]
                        if not (isinstance(a0, ast.Subscript) and isinstance(a0.slice, ast.Constant)):
                            dec_whole = False
            rep.add("R07.1", f"tag {{{name}}}::the literal written by {calls[0].func.id}() is read back whole", whole and dec_whole, loc(enc.module, v_),
                    f"encoder writes {norm_src(v2)}, decoder evaluates exactly that text" if whole and dec_whole else
                    f"the encoder writes `{norm_src(v2)[:70]}` / the decoder rebuilds a literal around the text: {calls[0].func.id}() chooses the quote character by content (double quotes when the string "
                    f"holds an apostrophe and no double quote), so a literal cut open and re-quoted by hand is a different string or a SyntaxError for \"it's \\udc80\"")
    # ---- the complex arm of the decoder rebuilds the value with complex(real part, imaginary part)
    for k, read, n in dtags:
        if k in ("real", "imag") or {"real", "imag"} <= read:
            rets = returns_of(n.body)
            okc = False
            why = "no return"
            if rets:
                rv = rets[0].value
                if isinstance(rv, ast.Call) and isinstance(rv.func, ast.Name) and rv.func.id == "complex" and len(rv.args) == 2:
                    keys = []
                    for a in rv.args:
                        ks = [s.slice.value for s in ast.walk(a) if isinstance(s, ast.Subscript) and isinstance(s.slice, ast.Constant)]
                        keys.append(ks[0] if len(ks) == 1 else None)
                    dec_called = all(any(isinstance(c, ast.Call) and isinstance(c.func, ast.Name) and c.func.id == cdec.name for c in ast.walk(a)) for a in rv.args)
                    okc = keys == ["real", "imag"] and dec_called
                    why = f"complex({keys[0]}, {keys[1]})" + ("" if dec_called else " without decoding the parts (tagged inf/nan parts stay dicts)")
                elif isinstance(rv, ast.BinOp) or (isinstance(rv, ast.Call) and isinstance(rv.func, ast.Name) and rv.func.id == "complex"):
                    why = f"`{norm_src(rv)}`"
                else:
                    raise AnalysisError(f"{cdec.qual}: complex arm `{norm_src(rv)}` not recognised")
            rep.add("R07.1", f"{cdec.qual}::complex is rebuilt as complex(real, imag)", okc, loc(cdec.module, n),
                    "complex(decoded real, decoded imag)" if okc else
                    f"the complex arm returns {why}: only the two-argument constructor reproduces every component exactly (arithmetic such as real + imag*1j turns -0.0 into 0.0 and "
                    f"an infinite imaginary part into a NaN real part; swapped keys exchange the parts)")
    # ---- decoding must not depend on the order of the members of a JSON object
    it_ord, _ = an.interp("from_json")
    for g in an.closure("from_json"):
        for c in ast.walk(g.node):
            order_dep = None
            if isinstance(c, ast.Call) and isinstance(c.func, ast.Name) and c.func.id == "next" and c.args and isinstance(c.args[0], ast.Call) \
                    and isinstance(c.args[0].func, ast.Name) and c.args[0].func.id == "iter" and c.args[0].args:
                order_dep = c.args[0].args[0]
            if isinstance(c, ast.Subscript) and isinstance(c.slice, ast.Constant) and isinstance(c.slice.value, int) and isinstance(c.value, ast.Call) \
                    and isinstance(c.value.func, ast.Name) and c.value.func.id in ("list", "tuple") and c.value.args:
                order_dep = c.value.args[0]
            if isinstance(c, ast.Call) and isinstance(c.func, ast.Attribute) and c.func.attr == "popitem":
                order_dep = c.func.value
            if order_dep is not None:
                v = it_ord.value_at(order_dep)
                if any(a[0] == "src" for a in v) or not v:
                    rep.add("R07.1", f"{g.qual}::{norm_src(c)} does not depend on member order", False, loc(g.module, c),
                            f"`{norm_src(c)}` takes the first member of a JSON object: the members of an object are unordered, a document re-serialised with sorted keys (or by another "
                            f"JSON library) is decoded differently or rejected")
    # ---- string enumerations of the float and ellipsis tags
    for tag, prop in (("float", "float"), ("type", "type")):
        enc_vals: Set[str] = set()
        for s, node in encoder_tags(enc):
            if s == {tag}:
                enc_vals |= string_constants(node.value.values[0])
        dec_vals: Set[str] = set()
        for k, read, n in dtags:
            if k == tag:
                for c in ast.walk(n):
                    if isinstance(c, ast.Compare) and isinstance(c.ops[0], ast.Eq):
                        for side in [c.left] + c.comparators:
                            if isinstance(side, ast.Constant) and isinstance(side.value, str):
                                dec_vals.add(side.value)
        sch_vals: Set[str] = set()
        for d in defs.values():
            for alt in [d] + list((d or {}).get("anyOf") or []):
                if isinstance(alt, dict) and alt.get("type") == "object" and (alt.get("required") or []) == [tag]:
                    sch_vals |= set(((alt.get("properties") or {}).get(prop) or {}).get("enum") or [])
        ok = enc_vals == dec_vals == sch_vals and bool(enc_vals)
        rep.add("R07.1", f"enumeration of tag {tag!r}", ok, wenc,
                f"encoder, decoder and schema agree on {sorted(enc_vals)}" if ok else f"encoder emits {sorted(enc_vals)}, decoder accepts {sorted(dec_vals)}, schema allows {sorted(sch_vals)}")
    # ---- Arg union
    ins = an.prog.cls("code_data::Instruction")
    argt = tg.field_type(ins.field("arg"))
    members = {q.split("::")[1] for q in tg.classes_in(argt)}
    has_int = any(x == ("leaf", "int") for x in tg.leaves_in(argt))
    it_i, _ = an.interp("from_json")
    argdec = None
    for f in an.closure("from_json"):
        disc = _discriminators(an, f)
        if len(disc) >= 4:
            argdec = (f, disc)
    if argdec is None:
        if any(o.status == "violated" and "member order" in o.key for o in rep.obs.values()) if hasattr(rep, "obs") else False:
            return
        raise AnalysisError("JSON operand decoder (chain of `\"key\" in value` tests returning constructors) not found")
    f, disc = argdec
    built = {c for _, c, _ in disc}
    rep.add("R07.1", "Arg union::decoder cases", built == members, loc(f.module, f.node),
            f"decoder builds {sorted(built)} == Arg members" if built == members else f"Arg members {sorted(members)} but the JSON decoder builds {sorted(built)}")
    for key, cname, node in disc:
        ci = an.prog.cls(f"code_data::{cname}")
        fld = ci.field(key)
        owners = [m for m in members if an.prog.cls(f"code_data::{m}").field(key) is not None]
        always = fld is not None and (not fld.has_default or len(ci.fields) == 1)
        ok = fld is not None and owners == [cname] and always
        rep.add("R07.1", f"discriminator {key!r} -> {cname}", ok, loc(f.module, node),
                f"{key!r} is a field of {cname} only and is always present in its JSON form" if ok else
                (f"{key!r} is not a field of {cname}" if fld is None else
                 f"{key!r} also belongs to {sorted(set(owners) - {cname})}" if owners != [cname] else
                 f"{key!r} has a default in {cname}: when hidden, the object is not recognised"))
    int_arm = any(isinstance(n, ast.If) and isinstance(n.test, ast.Call) and getattr(n.test.func, "id", "") == "isinstance"
                  and "int" in {x.id for x in ast.walk(n.test.args[1]) if isinstance(x, ast.Name)} for n in f.node.body)
    rep.add("R07.1", "Arg union::raw int case", int_arm == has_int, loc(f.module, f.node), "raw integer operands are passed through" if int_arm else "no raw int case", nontrivial=False)
    sch_arg = ((defs.get("Instruction") or {}).get("properties") or {}).get("arg") or {}
    refs = {a["$ref"].split("/")[-1] for a in sch_arg.get("anyOf", []) if "$ref" in a}
    sch_int = any(a.get("type") == "integer" for a in sch_arg.get("anyOf", []))
    ok = refs == members and sch_int == has_int
    rep.add("R07.1", "Arg union::schema anyOf", ok, "code_data/__init__.py",
            f"schema Instruction.arg.anyOf == {sorted(refs)} + integer" if ok else f"schema allows {sorted(refs)}{' + integer' if sch_int else ''}, Arg members are {sorted(members)}{' + int' if has_int else ''}")
    cdq = an.prog.cls("code_data::CodeData")
    addt = tg.field_type(cdq.field("_additional_args"))
    amem = {q.split("::")[1] for q in tg.classes_in(addt)}
    sch_add = (((defs.get("CodeData") or {}).get("properties") or {}).get("_additional_args") or {}).get("items") or {}
    arefs = {a["$ref"].split("/")[-1] for a in sch_add.get("anyOf", []) if "$ref" in a}
    rep.add("R07.1", "AdditionalArg union::schema anyOf", arefs == amem, "code_data/__init__.py",
            f"schema _additional_args.items.anyOf == {sorted(arefs)}" if arefs == amem else f"schema allows {sorted(arefs)}, AdditionalArg members are {sorted(amem)}")
    # decoded operands are Arg members
    it_d, ret_d = an.interp("from_code")
    v = it_d.navigate(ret_d, [("a", "blocks"), ("e",), ("e",), ("a", "arg")])
    produced = {it_d.obj_class(a).split("::")[1] for a in v if a[0] == "obj" and it_d.obj_class(a)}
    rep.add("R07.1", "Arg union::classes produced by the bytecode decoder", produced <= members, loc(ins.module, ins.field("arg").node),
            f"bytecode decoder produces {sorted(produced)}" if produced <= members else f"bytecode decoder produces {sorted(produced - members)} outside the Arg union")
    # CodeData discriminator inside constants
    cd_keys = set()
    for n in ast.walk(f.node):
        if isinstance(n, ast.Compare) and isinstance(n.ops[0], ast.In) and isinstance(n.left, ast.Constant) and isinstance(n.comparators[0], ast.Subscript):
            cd_keys.add((n.left.value, n))
    for key, n in cd_keys:
        fld = cdq.field(key)
        ok = fld is not None and not fld.has_default and not any(key in s for s in etags)
        rep.add("R07.1", f"nested CodeData discriminator {key!r}", ok, loc(f.module, n),
                f"{key!r} is a no-default field of CodeData and not a constant tag" if ok else f"{key!r} cannot tell a nested CodeData from a tagged constant")


def _discriminators(an, f: FunctionInfo):
    out = []
    if not f.params:
        return out
    p = f.params[0]
    for n in f.node.body:
        if isinstance(n, ast.If) and isinstance(n.test, ast.Compare) and len(n.test.ops) == 1 and isinstance(n.test.ops[0], ast.In) \
                and isinstance(n.test.left, ast.Constant) and isinstance(n.test.comparators[0], ast.Name) and n.test.comparators[0].id == p:
            for r in returns_of(n.body):
                if isinstance(r.value, ast.Call) and isinstance(r.value.func, ast.Name):
                    res = an.prog.resolve_global(f.module, r.value.func.id, f)
                    if res and res[0] == "class":
                        out.append((n.test.left.value, res[1].name, n))
    return out


# ----------------------------------------------------------------------------- R07.2
def shapes_of(tg, t, depth=0) -> Set:
    t = tg.unfold_rec(t)
    k = t[0]
    if depth > 6:
        return set()
    if k == "leaf":
        return {
            "str": {"string", ("tag", frozenset({"string"}))},
            "int": {"integer", ("tag", frozenset({"int"}))},
            "bool": {"boolean"},
            "float": {"number", ("tag", frozenset({"float"}))},
            "None": {"null"},
            "bytes": {("tag", frozenset({"bytes"}))},
            "complex": {("tag", frozenset({"real", "imag"}))},
            "ellipsis": {("tag", frozenset({"type"}))},
        }.get(t[1], set())
    if k == "literal":
        return {"string" if isinstance(v, str) else "integer" for v in t[1]}
    if k in ("tuple", "tuplefix"):
        return {("array", t[1])}
    if k == "frozenset":
        return {("tag", frozenset({"frozenset"}))}
    if k == "class":
        return {("class", t[1])}
    if k == "union":
        out = set()
        for x in t[1]:
            out |= shapes_of(tg, x, depth + 1)
        return out
    return set()


def field_sources(an) -> Dict[Tuple[str, str], Set[str]]:
    """co_* attributes each decoded field's value originates in (over all versions)."""
    res: Dict[Tuple[str, str], Set[str]] = {}
    for V in VERSIONS:
        it, _ = an.interp("from_code", V)
        for cq, objs in it.ctor_sites.items():
            ci = an.prog.cls(cq)
            for o in objs:
                for f in ci.fields:
                    v = it.hget(o, ("a", f.name))
                    # values of tuple-typed fields: look at elements too
                    org = it.origins(v, stop_kinds=("call:len",), through_inst=False)  # a value bounded by a table's length is not the table's content
                    for a in org:
                        if a[0] == "src" and a[1] == "code" and a[2]:
                            res.setdefault((cq, f.name), set()).add(a[2][0][1])
    return res


def unbounded_operand_fields(an):
    """Fields that receive the operand the bytecode parser assembled, as it is: the operand of an instruction grows by one byte with every EXTENDED_ARG
    prefix (dis and the package's parser alike, CPython keeps the low 32 bits), so hand-written bytecode with more than six prefixes gives an int
    beyond 2**53.  Operands that index a table or name a jump target are bounded by that table / by the code (R13.6) and are not listed."""
    from . import c02
    out = {}
    f, _arms = c02.find_operand_decoder(an, (3, 10))
    if len(f.params) < 2:
        raise AnalysisError(f"{f.qual}: operand parameter not recognised")
    argp = f.params[1]
    for r in ast.walk(f.node):
        if not (isinstance(r, ast.Return) and r.value is not None):
            continue
        v = r.value
        if isinstance(v, ast.Name) and v.id == argp:
            out[("code_data::Instruction", "arg")] = r
        elif isinstance(v, ast.Call) and isinstance(v.func, ast.Name) and len(v.args) == 1 and not v.keywords and isinstance(v.args[0], ast.Name) and v.args[0].id == argp:
            res = an.prog.resolve_global(f.module, v.func.id, f)
            if res and res[0] == "class" and res[1].is_dataclass and res[1].fields:
                out[(res[1].qual, res[1].fields[0].name)] = r
    return out


def r072(an, rep, enc, cdec, defs):
    tg = an.tg
    srcs = field_sources(an)
    unbounded = unbounded_operand_fields(an)
    it_i, _ = an.interp("from_json")
    dcs = data_classes(an)
    for ci in dcs:
        sdef = defs.get(ci.name)
        if sdef is None:
            rep.add("R07.2", f"{ci.qual}::schema definition", False, loc(ci.module, ci.node), f"JSON_SCHEMA has no definition for {ci.name}")
            continue
        props = sdef.get("properties") or {}
        req = set(sdef.get("required") or [])
        for f in ci.fields:
            ft = tg.field_type(f)
            key = f"{ci.qual}.{f.name}"
            w = loc(ci.module, f.node)
            # required fields must always be emitted
            if f.name in req and f.has_default:
                rep.add("R07.2", key + "::required", False, w, f"schema requires {f.name} but the encoder hides it when it equals its default")
            node = props.get(f.name)
            if f.name not in props and sdef.get("additionalProperties") is False:
                rep.add("R07.2", key + "::listed in a closed object", False, w,
                        f"the schema definition of {ci.name} has additionalProperties: false but does not list {f.name}: every document in which {f.name} is not at its default "
                        f"(e.g. code compiled under `from __future__ import annotations` for future_annotations) fails validation")
            shapes = shapes_of(tg, ft)
            d = field_default(f)
            if f.has_default and d is None:
                shapes.discard("null")  # None is the default: hidden, never emitted
            origin = srcs.get((ci.qual, f.name), set())
            arbitrary = bool(origin & ARBITRARY_SOURCES)
            raw_operand = (ci.qual, f.name) in unbounded
            problems, warns, notes = [], [], []
            for sh in sorted(shapes, key=str):
                is_tag = isinstance(sh, tuple) and sh[0] == "tag"
                if is_tag and raw_operand and sh[1] == frozenset({"int"}) or (is_tag and raw_operand and set(sh[1]) == {"int"}):
                    # the raw operand: unbounded through EXTENDED_ARG prefixes, so the tagged big-int form is really written
                    reads_int_tag = True
                    if ci.name == "Instruction":
                        # the operand goes through the operand decoder (the function with the `"target" in value` arm): it needs an arm for the tagged int
                        argdec = [g for g in an.closure("from_json") if g.params and any(k == "target" for k, _r, _n in decoder_tags(g))]
                        if len(argdec) != 1:
                            raise AnalysisError("the JSON decoder of instruction operands (arm for the key 'target') was not found")
                        reads_int_tag = any(k == "int" for k, _r, _n in decoder_tags(argdec[0]))
                    if not _decoder_converts(an, it_i, ci, f) or not reads_int_tag:
                        problems.append(f"shape {_sh(sh)} is written for {f.name} when the operand is beyond 2**53 (hand-written bytecode with more than six EXTENDED_ARG prefixes - CPython runs it, "
                                        f"keeping the low 32 bits) but from_json_data does not convert it back: the document to_json_data wrote does not load")
                    continue
                if is_tag and not arbitrary:
                    notes.append(f"{_sh(sh)} not armed (value comes from {sorted(origin) or 'constants'}: identifier / C int by CPython's contract)")
                    continue
                if not schema_accepts(defs, node, sh):
                    if sh == "null" and not arbitrary:
                        warns.append(f"the encoder emits null for {f.name}=None (no default hides it) but the schema node {node} does not accept null")
                    else:
                        problems.append(f"shape {_sh(sh)} is emitted for {f.name}: {tg.show(ft)} (value from {sorted(origin)}) but the schema node {_short(node)} rejects it")
                if is_tag and arbitrary and not _decoder_converts(an, it_i, ci, f):
                    problems.append(f"shape {_sh(sh)} is emitted for {f.name} but from_json_data stores the raw JSON value into {ci.name}.{f.name} without converting tagged objects back")
                if isinstance(sh, tuple) and sh[0] == "array":
                    # element shapes against items
                    items = deref(defs, node).get("items") if isinstance(node, dict) else None
                    for es in sorted(shapes_of(tg, sh[1]), key=str):
                        if isinstance(es, tuple) and es[0] == "tag" and not arbitrary:
                            continue
                        if items is not None and not schema_accepts(defs, items, es):
                            problems.append(f"element shape {_sh(es)} of {f.name} rejected by schema items {_short(items)}")
            if problems:
                rep.add("R07.2", key, False, w, "; ".join(problems[:3]) + (": e.g. a string with a lone surrogate (`def f(): \"\\ud800\"`, a surrogate-escaped file name) produces a document that fails "
                                                                         "the schema and loads back as a dict" if any("string" in p for p in problems) else ""))
            elif warns:
                rep.add("R07.2", key, False, w, "; ".join(warns), warn=True)
            else:
                rep.add("R07.2", key, True, w, f"{tg.show(ft)}: shapes {sorted(map(_sh, shapes))} accepted by schema and decoder" + (f" ({'; '.join(notes[:1])})" if notes else ""))


def _sh(s):
    if isinstance(s, tuple):
        if s[0] == "tag":
            return "{" + ",".join(sorted(s[1])) + "}"
        if s[0] == "array":
            return "array"
        return s[1].split("::")[-1]
    return s


def _short(node):
    s = repr(node)
    return s if len(s) < 80 else s[:77] + "..."


def _decoder_converts(an, it_i, ci, f) -> bool:
    objs = it_i.ctor_sites.get(ci.qual, set())
    if not objs:
        return False
    for o in objs:
        v = it_i.hget(o, ("a", f.name))
        for a in v:
            if a[0] == "src":
                tail = a[2][-1] if a[2] else ("",)
                if tail[0] not in ("t", "nt"):
                    return False
    return True


# ----------------------------------------------------------------------------- R07.3
class GuardVisitor(paths.Visitor):
    def __init__(self, param, names):
        self.param, self.names = param, names

    def branch(self, test, state):
        t = test
        if isinstance(t, ast.Call) and isinstance(t.func, (ast.Name, ast.Attribute)):
            fn = t.func.id if isinstance(t.func, ast.Name) else t.func.attr
            if fn in self.names and t.args and isinstance(t.args[0], ast.Name) and t.args[0].id == self.param:
                return state | {("in", fn)}, state | {("not", fn)}
        return state, state


def r073(an, rep, enc: FunctionInfo):
    p = enc.params[0]
    arms, rest = isinstance_arms(enc, p)
    farm = next(((n, b, node) for n, b, node in arms if "float" in n), None)
    iarm = next(((n, b, node) for n, b, node in arms if "int" in n), None)
    if farm is None or iarm is None:
        raise AnalysisError(f"{enc.qual}: float / int arms not found")
    outs = paths.walk(farm[1], frozenset(), GuardVisitor(p, {"isinf", "isnan"}))
    bad = []
    n_ret = 0
    for kind, st, node in outs:
        if kind == "return" and isinstance(node, ast.Return):
            n_ret += 1
            raw = isinstance(node.value, ast.Name) and node.value.id == p
            if raw and not ({("not", "isinf"), ("not", "isnan")} <= st):
                bad.append(node)
            if not raw and isinstance(node.value, ast.Dict) and not ({x for x in st if x[0] == "in"}):
                bad.append(node)
    rep.add("R07.3", f"{enc.qual}::raw float only when finite", not bad and n_ret >= 2, loc(enc.module, bad[0] if bad else farm[2]),
            f"`return {p}` is reached without a failed isinf/isnan test: Infinity / NaN tokens reach the JSON document" if bad
            else f"all {n_ret} returns of the float arm: raw value only after both isinf and isnan were false, tagged form otherwise")
    # order: float arm must come before any arm that would also catch floats - and bool must not be caught before int as a tagged form
    env = module_consts(an, enc.module.name, (3, 10))
    ifs = [st for st in iarm[1] if isinstance(st, ast.If)]
    if not ifs:
        raise AnalysisError(f"{enc.qual}: int arm has no range test")
    test = ifs[0].test
    tagged_ret = any(isinstance(r.value, ast.Dict) for r in returns_of(ifs[0].body))
    bad = []
    lim = 2 ** 53 - 1
    from sa.feval import region_points
    e0 = dict(env)
    pts = region_points(test, e0, extra=(lim, -lim, 0, 10 ** 30, -(10 ** 30)))
    for v in pts + [True, False]:
        want = (v > lim or v < -lim) if not isinstance(v, bool) else False
        e = dict(env)
        e[p] = v
        try:
            got = bool(feval(test, e))
        except FevalError as ex:
            raise AnalysisError(f"{enc.qual}: integer range test not evaluable: {ex}")
        if got != want:
            bad.append(f"value {v}: tagged={got}, expected {want}")
    rep.add("R07.3", f"{enc.qual}::raw int only within +-(2^53-1)", not bad and tagged_ret, loc(enc.module, ifs[0]),
            "; ".join(bad[:2]) + ": integers a JSON reader cannot represent exactly are emitted as numbers (or small ones needlessly as strings)" if bad
            else f"`{norm_src(test)}` selects exactly the integers beyond +-(2^53-1) for the string form")
    # plain str only when it can be encoded as UTF-8 (a str holding ANY surrogate code point - lone or in a pair - cannot)
    sarm = next(((n, b, node) for n, b, node in arms if "str" in n), None)
    if sarm is None:
        raise AnalysisError(f"{enc.qual}: str arm not found")
    sbody = sarm[1]
    tr = next((st for st in sbody if isinstance(st, ast.Try)), None)
    bad_w = ["\ud800", "x\udfff", "\ud83d\ude00", "\udc00\ud800"]
    if tr is not None:
        enc_call = any(isinstance(c, ast.Call) and isinstance(c.func, ast.Attribute) and c.func.attr == "encode" and isinstance(c.func.value, ast.Name) and c.func.value.id == p
                       and c.args and isinstance(c.args[0], ast.Constant) and str(c.args[0].value).lower().replace("-", "").replace("_", "") == "utf8" for b in tr.body for c in ast.walk(b))
        handler_ok = any((h.type is None or {x.id for x in ast.walk(h.type) if isinstance(x, ast.Name)} & {"UnicodeEncodeError", "UnicodeError", "ValueError", "Exception"})
                         and any(isinstance(r.value, ast.Dict) for r in returns_of(h.body)) for h in tr.handlers)
        rep.add("R07.3", f"{enc.qual}::plain str only when UTF-8 encodable", enc_call and handler_ok, loc(enc.module, tr),
                "value.encode('utf-8') is attempted; the UnicodeEncodeError handler returns the tagged form" if enc_call and handler_ok else
                "the try/except around the UTF-8 encoding does not return the tagged form on failure")
    else:
        ifs_ = [st for st in sbody if isinstance(st, ast.If) and any(isinstance(r.value, ast.Dict) for r in returns_of(st.body))]
        if not ifs_:
            rep.add("R07.3", f"{enc.qual}::plain str only when UTF-8 encodable", False, loc(enc.module, sarm[2]),
                    "the str arm has no test for strings that cannot be UTF-8 encoded: lone surrogates reach the JSON text and the document cannot be serialised")
        else:
            import re as _re
            from sa.feval import callable_for_feval
            envs = module_consts_with(an, enc.module.name, {"re_compile": callable_for_feval(_re.compile), "compile": callable_for_feval(_re.compile),
                                                             "re.compile": callable_for_feval(_re.compile)})
            missed = []
            for w in bad_w:
                e = dict(envs)
                e[p] = w
                try:
                    v = feval_with_regex(ifs_[0].test, e)
                except FevalError as ex:
                    raise AnalysisError(f"{enc.qual}: test for non-encodable strings `{norm_src(ifs_[0].test)}` not evaluable: {ex}")
                if not v:
                    missed.append(w)
            rep.add("R07.3", f"{enc.qual}::plain str only when UTF-8 encodable", not missed, loc(enc.module, ifs_[0]),
                    f"`{norm_src(ifs_[0].test)}` is false for {[ascii(w) for w in missed]}, strings that cannot be encoded as UTF-8 (they contain surrogate code points): they are emitted as plain "
                    f"strings, a JSON serialise/parse cycle merges a surrogate pair into one character or fails" if missed
                    else f"`{norm_src(ifs_[0].test)}` holds for every witness string containing a surrogate code point")
    carm = next(((n, b, node) for n, b, node in arms if "complex" in n), None)
    if carm is not None:
        rets = [r for r in returns_of(carm[1]) if isinstance(r.value, ast.Dict)]
        okc = bool(rets)
        raw = []
        for r in rets:
            for k, v in zip(r.value.keys, r.value.values):
                if not (isinstance(v, ast.Call) and isinstance(v.func, ast.Name) and v.func.id == enc.name and len(v.args) == 1
                        and isinstance(v.args[0], ast.Attribute) and isinstance(k, ast.Constant) and v.args[0].attr == k.value):
                    raw.append((k, v))
        # a violation only when the stored value provably is the raw component (or the component of the other name); any other spelling is 'not recognised'
        provable = [(k, v) for k, v in raw if isinstance(v, ast.Attribute) and v.attr in ("real", "imag")
                    or (isinstance(v, ast.Call) and len(v.args) == 1 and isinstance(v.args[0], ast.Attribute) and v.args[0].attr in ("real", "imag") and isinstance(k, ast.Constant) and v.args[0].attr != k.value)]
        if raw and not provable:
            raise AnalysisError(f"{enc.qual}: complex arm `{norm_src(rets[0].value)}` not recognised")
        rep.add("R07.3", f"{enc.qual}::complex parts are encoded through the float arm", okc and not raw, loc(enc.module, carm[2]),
                f"the complex arm stores `{norm_src(raw[0][1])}` under {norm_src(raw[0][0])}: the part is not passed through {enc.name} (or not the part its key names), so an infinite / NaN "
                f"component reaches the document as a raw float (Infinity / NaN tokens) or the parts are swapped" if raw or not okc
                else "each of real / imag is the encoder applied to the component of the same name")
    # bool: must reach the int arm (or an own arm) before any arm tagging it
    first = None
    for names, body, node in arms:
        if "int" in names or "bool" in names:
            first = names
            break
    # containers
    it, ret = an.interp("to_json")
    kinds = {}
    seen, todo = set(), list(ret)
    while todo:
        a = todo.pop()
        if a in seen:
            continue
        seen.add(a)
        if a[0] == "obj":
            kinds.setdefault(it.obj_kind(a), a)
            for (o, fld), vals in it.heap.items():
                if o == a:
                    todo.extend(vals)
    badk = {k: v for k, v in kinds.items() if k not in ("dict", "list")}
    rep.add("R07.3", f"{enc.qual}::document is built from dicts and lists only", not badk, loc(enc.module, enc.node),
            f"the returned structure contains {sorted(badk)} object(s) (created at line {[v[1][1] for v in badk.values()]}): not plain JSON" if badk
            else f"every container reachable from the result is a dict or a list ({sum(1 for a in seen if a[0] == 'obj')} abstract objects)")
    # keys are strings: every dict display in the encoder has constant string keys or f.name
    nonstr = []
    for n in ast.walk(enc.node):
        if isinstance(n, ast.Dict):
            for k in n.keys:
                if not (isinstance(k, ast.Constant) and isinstance(k.value, str)):
                    nonstr.append(k)
        if isinstance(n, ast.DictComp):
            if not (isinstance(n.key, ast.Attribute) and n.key.attr == "name"):
                nonstr.append(n.key)
    rep.add("R07.3", f"{enc.qual}::string keys", not nonstr, loc(enc.module, enc.node), "every dict key is a string constant or a field name" if not nonstr else f"non-string key {norm_src(nonstr[0])}", nontrivial=False)
    # unknown values raise
    raises = any(isinstance(st, ast.Raise) for st in rest)
    rep.add("R07.3", f"{enc.qual}::unknown value types raise", raises, loc(enc.module, enc.node), "fall-through raises" if raises else "an unsupported value falls through silently", nontrivial=False)


def module_consts_with(an, modname, extra):
    """Module constants foldable with the given callables available (e.g. compiled regular expressions)."""
    m = an.prog.module(modname)
    env = dict(extra)
    for _ in range(3):
        for name, exprs in m.assigns.items():
            if len(exprs) == 1 and name not in env:
                try:
                    env[name] = feval_with_regex(exprs[0], env)
                except Exception:
                    pass
    return env


def feval_with_regex(node, env):
    """feval plus `.search/.match/.fullmatch` on compiled patterns that are module constants (pattern literals are data)."""
    import re as _re

    class Sub(ast.NodeTransformer):
        def visit_Call(self, n):
            self.generic_visit(n)
            return n
    if isinstance(node, ast.Call) and isinstance(node.func, ast.Attribute) and node.func.attr in ("search", "match", "fullmatch", "findall"):
        recv = feval_with_regex(node.func.value, env)
        if isinstance(recv, _re.Pattern):
            return getattr(recv, node.func.attr)(*[feval_with_regex(a, env) for a in node.args])
    if isinstance(node, ast.UnaryOp) and isinstance(node.op, ast.Not):
        return not feval_with_regex(node.operand, env)
    if isinstance(node, ast.BoolOp):
        vals = [feval_with_regex(v, env) for v in node.values]
        return all(vals) if isinstance(node.op, ast.And) else any(vals)
    if isinstance(node, ast.Compare) and len(node.ops) == 1 and isinstance(node.comparators[0], ast.Constant) and node.comparators[0].value is None:
        l = feval_with_regex(node.left, env)
        return (l is None) if isinstance(node.ops[0], ast.Is) else (l is not None)
    return feval(node, env)


# ----------------------------------------------------------------------------- R07.6
def r076(an, rep, enc, defs):
    """Witness documents for every tagged constant shape validate against the ConstantValue schema (all keywords, not only `type`)."""
    from .json_model import CONSTANT_WITNESSES, validate
    rep.rule("R07.6", "witness documents of every constant shape validate against JSON_SCHEMA (patterns, enums, lengths included)", 15)
    node = {"$ref": "#/definitions/ConstantValue"}
    etagsets = {frozenset(s) for s, _ in encoder_tags(enc)}
    for name, doc in CONSTANT_WITNESSES:
        if isinstance(doc, dict) and frozenset(doc) not in etagsets:
            continue  # the encoder does not emit this tag (R07.1 reports tag disagreements)
        why = validate(defs, node, doc)
        rep.add("R07.6", f"witness::{name}", why is None, "code_data/__init__.py",
                f"{doc!r} validates" if why is None else
                f"the encoder emits {doc!r} for a {name} constant, but JSON_SCHEMA rejects it: {why}. to_json_data output for such programs fails validation")
    # the same witnesses inside an operand, an additional argument and a nested code object must be reachable by the schema
    wrapper = {"blocks": [[{"name": "LOAD_CONST", "arg": {"constant": {"int": "-9007199254740992"}}}]], "filename": "f", "first_line_number": 1, "name": "n", "stacksize": 1,
               "_additional_args": [{"constant": {"int": "-9007199254740992"}}, {"constant": {"string": "'\\ud800'"}}]}
    why = validate(defs, {"$ref": "#/definitions/CodeData"}, wrapper)
    rep.add("R07.6", "witness::document with tagged constants in operands and additional args", why is None, "code_data/__init__.py",
            "validates" if why is None else f"a whole document carrying tagged constants is rejected: {why}")


# ----------------------------------------------------------------------------- R07.4
def r074(an, rep):
    tg = an.tg
    for ci in data_classes(an):
        for f in ci.fields:
            if not f.has_default:
                continue
            d = field_default(f)
            ft = tg.unfold_rec(tg.field_type(f))
            leaves = {x[1] for x in tg.leaves_in(ft) if x[0] == "leaf"}
            ok, why = True, ""
            if d is NOFOLD:
                ok, why = False, "default is not a constant: cannot decide what the encoder hides"
            elif d is None:
                why = "default None: only None equals it"
            elif d == () and isinstance(d, tuple) and not (isinstance(d, tuple) and len(d) == 2 and d[0] == "<all-defaults>"):
                why = "default (): only the empty tuple equals it"
            elif isinstance(d, bool):
                ok = leaves <= {"bool", "None"}
                why = "default is a bool and the field is bool-typed" if ok else f"default {d!r} on a field typed {tg.show(ft)}: {int(d)} (and {float(d)}) compare equal to it and would be hidden, then decoded as {d!r}"
            elif isinstance(d, int):
                ok = not (leaves & {"float", "complex"})
                why = "default is an int on an int-typed field" if ok else f"default {d!r} on a field that admits floats: {float(d)!r} and -0.0 compare equal and are conflated"
            elif isinstance(d, float):
                ok, why = False, f"float default {d!r}: -0.0 == 0.0 is hidden and decoded as the default"
            elif isinstance(d, tuple) and d and d[0] == "<all-defaults>":
                why = f"default {d[1]}() compares equal only to an all-default {d[1]}"
                dc = next((c for c in an.prog.all_classes() if c.name == d[1]), None)
                if dc is not None:
                    loose = [fl.name for fl in dc.fields if fl.flags.get("compare", True) is False]
                    if loose:
                        ok = False
                        why = (f"default {d[1]}() equals every {d[1]} whatever its {loose} (declared compare=False): such a value is hidden as 'the default' and decoded "
                               f"as {d[1]}() - e.g. {d[1]}(7) vanishes from the document and re-encodes with a different operand byte")
                    elif "__eq__" in dc.methods:
                        raise AnalysisError(f"{dc.qual}: custom __eq__ on a class used as a hidden default - cannot decide which values equal the default")
            else:
                why = f"default {d!r}"
            rep.add("R07.4", f"{ci.qual}.{f.name}", ok, loc(ci.module, f.node), why, nontrivial=not isinstance(d, type(None)))


def r07a(an, rep, enc: FunctionInfo, rule="R07.4"):
    """The predicate by which the encoder leaves a field out of the document ("is at its default") evaluated on witness (default, value)
    pairs: it must hold exactly when the value equals the declared default - a falsy value that is not the default ('' for a docstring,
    0 for a position) must be written, or it is decoded as the default."""
    from sa.feval import BlockOutcome, FevalError, Obj, ObjEval
    helpers = []
    for c in ast.walk(enc.node):
        if isinstance(c, ast.Call) and isinstance(c.func, ast.Name) and len(c.args) == 2:
            r = an.prog.resolve_global(enc.module, c.func.id, enc)
            if r and r[0] == "func" and any(isinstance(x, ast.Attribute) and x.attr in ("default", "default_factory") for x in ast.walk(r[1].node)):
                helpers.append((c, r[1]))
    if not helpers:
        if any(isinstance(x, ast.Attribute) and x.attr in ("default", "default_factory") for x in ast.walk(enc.node)):
            raise AnalysisError(f"{enc.qual}: fields are left out by an inline test on their defaults: the predicate is not evaluated")
        rep.add(rule, f"{enc.qual}::fields at their default are recognised by equality", True, loc(enc.module, enc.node), "the encoder writes every field", nontrivial=False)
        return
    call, h = helpers[0]
    MISSING = type("MISSING", (), {"__repr__": lambda self: "MISSING"})()

    def resolve(name):
        r = an.prog.resolve_global(h.module, name, h)
        if r and r[0] == "func":
            return r[1].node
        return None
    # (default, default_factory, value, hidden?)
    W = [(None, MISSING, None, True), (None, MISSING, 0, False), (None, MISSING, "", False), (None, MISSING, False, False), (None, MISSING, (), False), (None, MISSING, 5, False),
         ((), MISSING, (), True), ((), MISSING, (1,), False), (False, MISSING, False, True), (False, MISSING, True, False), (False, MISSING, None, False),
         (0, MISSING, 0, True), (0, MISSING, None, False), (0, MISSING, 3, False), (MISSING, tuple, (), True), (MISSING, tuple, (None,), False), (MISSING, MISSING, None, False), (MISSING, MISSING, 0, False),
         ("x", MISSING, "x", True), ("x", MISSING, "", False)]
    params = h.params
    if len(params) != 2:
        raise AnalysisError(f"{h.qual}: expected (field, instance)")
    # which argument is the field?  the one whose .default is read
    fpar = next((x.value.id for x in ast.walk(h.node) if isinstance(x, ast.Attribute) and x.attr in ("default", "default_factory") and isinstance(x.value, ast.Name) and x.value.id in params), None)
    if fpar is None:
        raise AnalysisError(f"{h.qual}: which parameter is the dataclass field is not recognised")
    bad = []
    for d, df, v, want in W:
        ev = ObjEval(resolve, extra={"MISSING": MISSING, "getattr": lambda o, n, *dflt: o[n] if n in o or not dflt else dflt[0], "dataclasses": {"MISSING": MISSING}})
        ev.module_assigns = h.module.assigns
        fobj = Obj({"name": "fld", "default": d, "default_factory": df})
        inst = Obj({"fld": v})
        try:
            got = ev.call_method(h.node, *([fobj, inst] if params[0] == fpar else [inst, fobj]))
        except BlockOutcome as o:
            raise AnalysisError(f"{h.qual}: raises on a witness field ({norm_src(o.node)[:50]})")
        except (FevalError, KeyError, TypeError) as e:
            raise AnalysisError(f"{h.qual}: not evaluable on witness fields ({e})")
        if bool(got) != want:
            dd = f"default_factory={df.__name__}" if df is not MISSING else (f"default={d!r}" if d is not MISSING else "no default")
            bad.append(f"field with {dd} holding {v!r}: {h.name} says {'default' if got else 'not default'}")
    rep.add(rule, f"{h.qual}::a field is left out exactly when it equals its default", not bad, loc(h.module, h.node),
            f"{len(W)} witness (default, value) pairs: hidden iff value == default" if not bad else
            f"{bad[0]} - the encoder leaves the field out, the decoder fills in the default, and the value is lost (a function whose docstring is the empty string loads back with "
            f"docstring None; a position override 0 loads back as 'no override'); {len(bad)} of {len(W)} witness pairs wrong")


# Places where from_json_data stops with an exception, confirmed by reading: (function, exception) -> (how many, what is refused).
JSON_DECODER_REJECTIONS = {
    ("code_data._json_data::arg_from_json", "ValueError"): (2, "an operand that is neither an int nor an object / an object with none of the operand keys: not something to_json_data writes (R07.1 compares the keys)"),
    ("code_data._json_data::code_data_from_json", "ValueError"): (1, "a code object that is not a JSON object"),
    ("code_data._json_data::instruction_from_json", "ValueError"): (1, "an instruction that is not a JSON object"),
    ("code_data._json_data::constant_value_from_json", "ValueError"): (1, "the text of a tagged string is the literal of something else than a str: to_json_data writes ascii(str) there (R07.1), R07.3 decides the test"),
    ("code_data._json_data::constant_value_from_json", "NotImplementedError"): (2, "a constant object with none of the constant tags / a float tag other than inf, -inf, nan: R07.1 and R07.3 compare tags and special values with the encoder"),
}


def r07l(an, rep, rule="R07.3"):
    """What `literal_eval` makes of the text of a tagged string is a str: the schema accepts ANY string under {"string": ...}, and literal_eval turns "[1, 2]" into a
    list and "{}" into a dict - so its result must be checked (`isinstance(result, str)`, anything else raises) before it reaches the data."""
    n = 0
    for f in an.closure("from_json"):
        for c in ast.walk(f.node):
            if not (isinstance(c, ast.Call) and (attr_chain(c.func) or "").split(".")[-1] == "literal_eval" and c.args):
                continue
            n += 1
            from .encode_model import parent_map
            pm = parent_map(f.module)
            par = pm.get(id(c))
            checked = False
            var = None
            if isinstance(par, ast.Assign) and len(par.targets) == 1 and isinstance(par.targets[0], ast.Name):
                var = par.targets[0].id
            elif isinstance(par, ast.NamedExpr):
                var = par.target.id
            if var is not None:
                for st in ast.walk(f.node):
                    if isinstance(st, ast.If) and any(isinstance(x, ast.Raise) for b in st.body for x in ast.walk(b)):
                        t = st.test
                        if isinstance(t, ast.UnaryOp) and isinstance(t.op, ast.Not) and isinstance(t.operand, ast.Call) and isinstance(t.operand.func, ast.Name) and t.operand.func.id == "isinstance" \
                                and isinstance(t.operand.args[0], ast.Name) and t.operand.args[0].id == var and norm_src(t.operand.args[1]) == "str":
                            checked = True
                        if isinstance(t, ast.Compare) and len(t.ops) == 1 and isinstance(t.ops[0], (ast.IsNot, ast.NotEq)) and norm_src(t.left) == f"type({var})" and norm_src(t.comparators[0]) == "str":
                            checked = True
            rep.add(rule, f"{f.qual}::the value literal_eval returns is checked to be a str", checked, loc(f.module, c),
                    f"`{var}` is refused unless it is a str" if checked else
                    f"`{norm_src(c)[:60]}` is used as it comes: the schema accepts any string in the {{\"string\": ...}} form, and literal_eval turns \"[1, 2]\" into a list and \"{{}}\" into a dict - a "
                    f"schema-valid document loads into a CodeData that holds a mutable, unhashable value (hash(cd) raises, `const.append(3)` changes the 'immutable' data)")
    if n == 0:
        rep.add(rule, "no literal_eval in the JSON decoder", True, "code_data/_json_data.py", "n/a", nontrivial=False)


def r07r(an, rep, rule="R07.R"):
    from .common import rejection_paths_rule
    rejection_paths_rule(an, rep, rule, ["from_json"], JSON_DECODER_REJECTIONS, "from_json_data")


def r07b(an, rep, defs, rule="R07.8"):
    """A decoder that keeps only some keys of the object it is given (`{k: v for k, v in doc.items() if k in ALLOWED}`) keeps every key the
    encoder can write for the class it builds: ALLOWED is folded (schema literal / constant collection) and compared with the class's fields."""
    from sa.feval import FevalError, PureEval
    n = 0
    for f in an.closure("from_json"):
        for dc in ast.walk(f.node):
            if not (isinstance(dc, ast.DictComp) and len(dc.generators) == 1 and dc.generators[0].ifs):
                continue
            g = dc.generators[0]
            if not (isinstance(g.iter, ast.Call) and isinstance(g.iter.func, ast.Attribute) and g.iter.func.attr == "items" and isinstance(g.target, ast.Tuple)
                    and len(g.target.elts) == 2 and isinstance(g.target.elts[0], ast.Name)):
                continue
            kname = g.target.elts[0].id
            tests = [t for t in g.ifs if isinstance(t, ast.Compare) and len(t.ops) == 1 and isinstance(t.ops[0], ast.In) and isinstance(t.left, ast.Name) and t.left.id == kname]
            if not tests:
                continue
            # which class is built from the filtered dict in this function?
            pm_ = {id(ch): par for par in ast.walk(f.node) for ch in ast.iter_child_nodes(par)}
            asg = pm_.get(id(dc))
            var = asg.targets[0].id if isinstance(asg, ast.Assign) and len(asg.targets) == 1 and isinstance(asg.targets[0], ast.Name) else None

            def from_var(e):
                return (isinstance(e, ast.Name) and e.id == var) or (isinstance(e, ast.Call) and len(e.args) == 1 and from_var(e.args[0]))
            built = [c for c in ast.walk(f.node) if isinstance(c, ast.Call) and isinstance(c.func, ast.Name) and any(k.arg is None and from_var(k.value) for k in c.keywords)]
            classes = [an.prog.resolve_global(f.module, c.func.id, f) for c in built]
            classes = [r[1] for r in classes if r and r[0] == "class" and r[1].is_dataclass]
            if len(classes) != 1:
                raise AnalysisError(f"{f.qual}: keys of the document are filtered by `{norm_src(tests[0])}` but which class is built from the result is not recognised")
            ci = classes[0]
            from .encode_model import inline_locals
            allowed_e = inline_locals(f.node, tests[0].comparators[0])
            pe = PureEval(lambda name: None, extra={"_definitions": defs, "JSON_SCHEMA": {"definitions": defs}})
            pe.module_assigns = {k: v for k, v in f.module.assigns.items() if k not in ("_definitions", "JSON_SCHEMA")}
            try:
                allowed = set(pe.ev(allowed_e, {}))
            except (FevalError, KeyError, TypeError) as ex:
                raise AnalysisError(f"{f.qual}: the set of keys kept by `{norm_src(tests[0])}` is not foldable ({ex})")
            n += 1
            missing = [fl.name for fl in ci.fields if fl.name not in allowed]
            rep.add(rule, f"{f.qual}::keys kept for {ci.name} cover its fields", not missing, loc(f.module, dc),
                    f"`{norm_src(tests[0])}` keeps all {len(ci.fields)} fields of {ci.name}" if not missing else
                    f"`{norm_src(tests[0])}` keeps {len(allowed)} keys; {missing} - which to_json_data writes whenever the field is not at its default - is not among them, so the loaded {ci.name} "
                    f"silently gets the default (a module compiled under `from __future__ import annotations` loads back with future_annotations=False)")
    rep.add(rule, "key filters in the decoder", True, "code_data/_json_data.py", f"{n} dict comprehension(s) filtering document keys examined", nontrivial=False)


# ----------------------------------------------------------------------------- R07.5
def r075(an, rep, enc, cdec):
    p = enc.params[0]
    arms, _ = isinstance_arms(enc, p)
    for names, body, node in arms:
        if "int" in names:
            for st in body:
                for c in ast.walk(st):
                    if isinstance(c, ast.Call) and isinstance(c.func, ast.Name) and c.func.id in ("str", "repr") and c.args and isinstance(c.args[0], ast.Name) and c.args[0].id == p:
                        rep.add("R07.5", f"{enc.qual}::{norm_src(c)} of an unbounded int", False, loc(enc.module, c),
                                "decimal conversion of an arbitrarily large int: interpreters with the int/str digit limit (3.7.14+, 3.8.14+, 3.9.14+, 3.10.7+) "
                                "raise ValueError for constants with more than 4300 digits, e.g. `x = 0x` + 4200*`F` compiles but to_json_data raises")
    q = cdec.params[0]
    for k, read, n in decoder_tags(cdec):
        if k == "int":
            for c in ast.walk(n):
                if isinstance(c, ast.Call) and isinstance(c.func, ast.Name) and c.func.id == "int" and len(c.args) == 1:
                    rep.add("R07.5", f"{cdec.qual}::{norm_src(c)} of unbounded decimal text", False, loc(cdec.module, c),
                            "decimal parsing of an arbitrarily long digit string: raises ValueError beyond 4300 digits on interpreters with the int/str digit limit, "
                            "so a document written on an older interpreter does not load")


# ----------------------------------------------------------------------------- R07.7
def r077(an, rep, enc: FunctionInfo):
    """No ordering of encoded values: `sorted` / `min` / `max` / `.sort()` without a key over the results of the encoder (which are dicts
    for bytes, large ints, inf, Ellipsis, nested sets; None for None) or over constants of several types raises TypeError
    (`dict < dict`, `None < str`) - to_json_data fails on a valid program such as `x in {b'GET', b'POST'}`."""
    rep.rule("R07.7", "encoded values and mixed-type constants are never ordered", 0)
    it, _ = an.interp("to_json")
    enc_can_return_dict = any(isinstance(r.value, (ast.Dict, ast.DictComp)) for r in returns_of(enc.node.body))
    n = 0
    for f in an.closure("to_json"):
        for c in ast.walk(f.node):
            if not isinstance(c, ast.Call):
                continue
            if isinstance(c.func, ast.Name) and c.func.id in ("sorted", "min", "max") and c.args:
                arg = c.args[0]
            elif isinstance(c.func, ast.Attribute) and c.func.attr == "sort":
                arg = c.func.value
            else:
                continue
            if any(k.arg == "key" for k in c.keywords):
                continue
            n += 1
            # elements produced by the encoder?
            prod = None
            if isinstance(arg, ast.Call) and isinstance(arg.func, ast.Name) and arg.func.id == "map" and len(arg.args) == 2 and isinstance(arg.args[0], ast.Name) and arg.args[0].id == enc.name:
                prod = enc.name
            if isinstance(arg, (ast.GeneratorExp, ast.ListComp, ast.SetComp)) and isinstance(arg.elt, ast.Call) and isinstance(arg.elt.func, ast.Name) and arg.elt.func.id == enc.name:
                prod = enc.name
            mixed = None
            if prod is None:
                leaves = set()
                for a in it.elements(it.value_at(arg)):
                    if a[0] == "src":
                        t = an.tg.unfold_rec(it.src_type(a))
                        leaves |= {y[1] for y in an.tg.leaves_in(t) if y[0] == "leaf"} | {"object:" + y[1] for y in an.tg.leaves_in(t) if y[0] == "class"}
                    elif a[0] == "obj":
                        leaves.add("object:" + it.obj_kind(a))
                groups = {("num" if x in ("int", "float", "bool") else x) for x in leaves}
                if len(groups) > 1 or any(g.startswith("object:") or g in ("None", "complex") for g in groups):
                    mixed = sorted(leaves)
            bad = (prod is not None and enc_can_return_dict) or mixed is not None
            rep.add("R07.7", f"{f.qual}::{norm_src(c)[:50]}", not bad, loc(f.module, c),
                    "elements of one orderable type" if not bad else
                    (f"`{norm_src(c)[:70]}` orders the results of {prod}, which are dicts for every tagged constant (bytes, huge ints, inf/nan, Ellipsis, nested frozensets) and None for "
                     f"None: `dict < dict` raises TypeError, so to_json_data fails on a valid program (e.g. `x in {{b'GET', b'POST'}}`)" if prod else
                     f"`{norm_src(c)[:70]}` orders values that may be of types {mixed}: comparison between them raises TypeError"))
    rep.add("R07.7", "orderings examined", True, "code_data/", f"{n} key-less sorted/min/max/.sort() call(s) in the to_json closure", nontrivial=False)


# ----------------------------------------------------------------------------- R07.9
def r079(an, rep, enc: FunctionInfo, defs):
    """A hand-written encoder arm for one data class (next to the generic `is_dataclass` arm) writes what the schema accepts: a key it stores
    unconditionally for a field that can be None must be allowed to be null (the generic arm hides a None default)."""
    rep.rule("R07.9", "class-specific encoder arms emit only what the schema accepts", 0)
    tg = an.tg
    p = enc.params[0]
    arms, _ = isinstance_arms(enc, p)
    dcs = {c.name: c for c in data_classes(an)}
    n = 0
    for names, body, node in arms:
        for cname in names:
            ci = dcs.get(cname)
            if ci is None:
                continue
            n += 1
            sdef = defs.get(ci.name) or {}
            props = sdef.get("properties") or {}
            # keys stored at the top level of the arm (not under an `if`): dict displays and `res["k"] = ...`
            uncond = {}
            for st in body:
                if isinstance(st, ast.Assign) and isinstance(st.targets[0], ast.Subscript) and isinstance(st.targets[0].slice, ast.Constant):
                    uncond[st.targets[0].slice.value] = st.value
                for d in ([st.value] if isinstance(st, (ast.Assign, ast.Return, ast.AnnAssign)) and isinstance(getattr(st, "value", None), ast.Dict) else []):
                    for k, v in zip(d.keys, d.values):
                        if isinstance(k, ast.Constant):
                            uncond[k.value] = v
            for key, v in sorted(uncond.items(), key=lambda kv: str(kv[0])):
                f = ci.field(key)
                if f is None:
                    rep.add("R07.9", f"{enc.qual}::{cname} arm key {key!r}", False, loc(enc.module, v), f"the {cname} arm writes the key {key!r}, which is not a field of {cname}")
                    continue
                ft = tg.unfold_rec(tg.field_type(f))
                can_none = any(x == ("leaf", "None") for x in tg.leaves_in(ft))
                raw = isinstance(v, ast.Attribute) and v.attr == key
                ok = not (can_none and raw) or schema_accepts(defs, props.get(key), "null")
                rep.add("R07.9", f"{enc.qual}::{cname} arm key {key!r}", ok, loc(enc.module, v),
                        f"{key} written as `{norm_src(v)[:40]}`" if ok else
                        f"the {cname} arm always writes `{key}` = `{norm_src(v)}`; the field is {tg.show(ft)}, so None is written as null, but the schema node {_short(props.get(key))} does not accept "
                        f"null (the generic arm would have hidden the None default): documents of programs with such values (3.10: instructions without a line) fail JSON_SCHEMA")
    rep.add("R07.9", "class-specific encoder arms examined", True, loc(enc.module, enc.node), f"{n} arm(s) for single data classes", nontrivial=False)
