# Run on 3.8.18, 3.9.18 or 3.10.13 (PYTHONPATH=/tmp/shim:/tmp/hunt2_C06)
# A jump that lands BEHIND a redundant EXTENDED_ARG 0 prefix: CPython runs it like
# the code without the prefix, the library numbers the jump's block wrongly.
import dis, sys, types
from code_data import CodeData

U = 2 if sys.version_info >= (3, 10) else 1  # bytes per jump unit
op = dis.opmap


def f(a):
    if a:
        return 1
    return 2


c = f.__code__
assert c.co_code == bytes([op["LOAD_FAST"], 0, op["POP_JUMP_IF_FALSE"], 8 // U,
                           op["LOAD_CONST"], 1, op["RETURN_VALUE"], 0,
                           op["LOAD_CONST"], 2, op["RETURN_VALUE"], 0])
# B = A plus a redundant "EXTENDED_ARG 0" in front of "LOAD_CONST 2" (offset 8);
# the jump goes to the real opcode at offset 10, i.e. behind the prefix.
codeB = bytes([op["LOAD_FAST"], 0, op["POP_JUMP_IF_FALSE"], 10 // U,
               op["LOAD_CONST"], 1, op["RETURN_VALUE"], 0,
               dis.EXTENDED_ARG, 0, op["LOAD_CONST"], 2, op["RETURN_VALUE"], 0])
kw = {"co_code": codeB}
if sys.version_info >= (3, 10):
    # same ranges, the last one is one code unit longer
    lt = bytearray(c.co_linetable)
    lt[-2] += 2
    kw["co_linetable"] = bytes(lt)
B = c.replace(**kw)

# CPython: both behave the same, and the lines are the same
fa, fb = types.FunctionType(c, {}), types.FunctionType(B, {})
assert [fa(0), fa(1)] == [fb(0), fb(1)] == [2, 1]
assert [l for _, l in dis.findlinestarts(c)] == [l for _, l in dis.findlinestarts(B)]

nA = CodeData.from_code(c).normalize()
nB = CodeData.from_code(B).normalize()
print("blocks A:", len(nA.blocks), " blocks B:", len(nB.blocks))
print("jump in B:", nB.blocks[0][1].arg)
try:
    nB.to_code()
except Exception as e:
    print("nB.to_code() raises", repr(e))
assert nA == nB, "differ only in a redundant EXTENDED_ARG prefix, normalize differently"
