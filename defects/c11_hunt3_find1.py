# Run with 3.10.13 only (co_linetable format of 3.10).
# Hand-altered co_linetable: CPython reads the same lines, from_code accepts it,
# to_code() returns another co_linetable (entries merged / dropped silently).
from code_data import CodeData

base = compile("\nx = 1\n", "f.py", "exec")  # 8 bytes of code, co_linetable (8, +1)
assert base.co_linetable == b"\x08\x01", base.co_linetable
variants = {
    "two ranges, same line": b"\x02\x01\x06\x00",
    "empty range in front": b"\x00\x01\x08\x00",
    "empty range in the middle": b"\x02\x01\x00\x03\x06\xfd",
}
bad = []
for what, table in variants.items():
    code = base.replace(co_linetable=table)
    # CPython itself is happy with the table: every instruction is on line 2
    assert {line for _, _, line in code.co_lines()} == {2}, list(code.co_lines())
    data = CodeData.from_code(code)  # does not raise
    back = data.to_code()
    assert back.co_flags == code.co_flags and back.co_code == code.co_code
    print(what, list(table), "->", list(back.co_linetable))
    if back.co_linetable != code.co_linetable:
        bad.append(what)
assert not bad, f"co_linetable not reproduced and nothing raised: {bad}"
