"""C06 - normalization yields a canonical form (DESIGN 5, R06.1-R06.4)."""
from __future__ import annotations

import ast

from sa.analysis import Analysis
from sa.model import AnalysisError, loc, norm_src

from .normalize_model import (keeps_acting_entries, NOFOLD, arm_for, classes_with_private_reach, field_default, fold_default,
                              is_recursion_on, parse_normalize)



def reset_rules(an: Analysis, rep):
    """R06.1 / R06.2: every private field reachable from CodeData is reset by normalize, and normalize recurses wherever such a field can sit."""
    fn, p, arms, fall_identity = parse_normalize(an)
    tg = an.tg
    dcs, has_priv, reach = classes_with_private_reach(an)
    needs_tuple_arm = False
    for ci in dcs:
        arm = arm_for(arms, ci.name)
        for f in ci.fields:
            ft = tg.field_type(f)
            w = loc(ci.module, f.node)
            if f.private:
                d = field_default(f)
                if d is NOFOLD:
                    rep.add("R06.1", f"{ci.qual}.{f.name}", False, w, "private field without a constant default: normalize cannot reset it to a canonical value")
                    continue
                if arm is None:
                    # acceptable only if the class is unreachable after normalisation (every path to it goes through a reset field)
                    ok = _unreachable_after_reset(an, ci, dcs)
                    rep.add("R06.1", f"{ci.qual}.{f.name}", ok, w,
                            f"class has no arm in {fn.name} but is only reachable through private fields that are reset" if ok
                            else f"{fn.name} has no arm for {ci.name}: private field {f.name} survives normalization, so two decodes that differ only in this artefact stay different")
                    continue
                if arm.kind in ("replace", "ctor"):
                    if f.name in arm.kws and d == () and keeps_acting_entries(p, arm.kws[f.name], f.name):
                        rep.add("R06.1", f"{ci.qual}.{f.name}", True, loc(fn.module, arm.kws[f.name]),
                                f"restricted to its non-zero entries ({norm_src(arm.kws[f.name])[:60]}): the zero entries are the redundant ones, the restriction is idempotent and depends on nothing else")
                    elif f.name in arm.kws:
                        v = fold_default(arm.kws[f.name])
                        if v is NOFOLD and not _mentions(arm.kws[f.name], p):
                            raise AnalysisError(f"{fn.qual}: cannot fold the reset value {norm_src(arm.kws[f.name])} of {f.name}")
                        ok = v is not NOFOLD and v == d
                        rep.add("R06.1", f"{ci.qual}.{f.name}", ok, loc(fn.module, arm.kws[f.name]),
                                f"reset to {norm_src(arm.kws[f.name])} == declared default" if ok
                                else f"set to {norm_src(arm.kws[f.name])}, which is not the declared default {d!r}")
                    elif f.name in arm.cond:
                        g, v = arm.cond[f.name]
                        rep.add("R06.1", f"{ci.qual}.{f.name}", False, loc(fn.module, v),
                                f"private field {f.name} is reset only when `{norm_src(g)}`: otherwise the serialization artefact survives normalization - two values that differ only "
                                f"in {f.name} (e.g. the CO_NESTED flag set on a code object where the guard is false) normalize to different data")
                    elif arm.kind == "ctor":
                        rep.add("R06.1", f"{ci.qual}.{f.name}", True, loc(fn.module, arm.ret), "constructor call omits the field: declared default")
                    else:
                        rep.add("R06.1", f"{ci.qual}.{f.name}", False, loc(fn.module, arm.ret),
                                f"the {ci.name} arm of {fn.name} does not reset private field {f.name}: the serialization artefact survives normalization (not canonical, and normalize-after-decode is no fixed point across variants)")
                else:
                    rep.add("R06.1", f"{ci.qual}.{f.name}", False, loc(fn.module, arm.ret), f"arm kind {arm.kind} cannot reset {f.name}")
            else:
                inner = [q for q in tg.classes_in(ft) if reach.get(q, False)]
                if not inner:
                    continue
                if any(k in ("tuple", "tuplefix") for k in _shape_kinds(tg, ft)):
                    needs_tuple_arm = True
                ok = arm is not None and arm.kind in ("replace", "ctor") and f.name in arm.kws and is_recursion_on(fn, p, arm.kws[f.name], f.name)
                rep.add("R06.2", f"{ci.qual}.{f.name}", ok, loc(fn.module, arm.ret) if arm else w,
                        f"{f.name}={fn.name}({p}.{f.name}) recurses into {[q.split('::')[1] for q in inner]}" if ok
                        else f"field {f.name}: {tg.show(ft)} can hold {[q.split('::')[1] for q in inner]} (which carry private fields) but {fn.name} does not recurse into it: nested artefacts survive")
    tarm = arm_for(arms, "tuple")
    if needs_tuple_arm:
        ok = tarm is not None and tarm.kind == "map"
        rep.add("R06.2", f"{fn.qual}::tuple arm", ok, loc(fn.module, tarm.ret) if tarm else loc(fn.module, fn.node),
                "tuples are normalized element-wise" if ok else "no element-wise tuple arm: blocks / nested constants are not reached")

def r065(an: Analysis, rep):
    """from_code starts a block exactly at the first instruction and at jump targets (C13).  Hand-edited data (docs/example_modify.md replaces
    instructions with dataclasses.replace) can have a block boundary that no jump targets any more; to_code() lays the blocks out one after another,
    from_code() of that code merges them - so the normal form is stable under that round trip only if normalize already merges such blocks
    (and renumbers the jump targets behind them)."""
    rep.rule("R06.5", "normalize brings the block partition to the one from_code computes (blocks no jump targets are merged)", 1)
    fn, p, arms, fall_identity = parse_normalize(an)
    arm = arm_for(arms, "CodeData")
    if arm is None or arm.kind not in ("replace", "ctor") or "blocks" not in arm.kws:
        raise AnalysisError(f"{fn.qual}: how the CodeData arm treats `blocks` is not recognised")
    plain = is_recursion_on(fn, p, arm.kws["blocks"], "blocks")
    renumbers = any(isinstance(c, ast.keyword) and c.arg == "target" for c in ast.walk(fn.node)) or any(
        isinstance(c, ast.Call) and isinstance(c.func, ast.Name) and c.func.id == "Jump" for c in ast.walk(fn.node))
    if not plain and not renumbers:
        raise AnalysisError(f"{fn.qual}: `blocks={norm_src(arm.kws['blocks'])[:60]}` is neither the element-wise recursion nor a visible re-partition: not decided")
    rep.add("R06.5", f"{fn.qual}::block partition is canonical", not plain or renumbers, loc(fn.module, arm.kws["blocks"]),
            "normalize re-partitions the blocks and renumbers the jump targets" if (not plain or renumbers) else
            f"`blocks={norm_src(arm.kws['blocks'])}` keeps the block partition it is given: a CodeData edited as in docs/example_modify.md (the only jump to a block replaced by POP_TOP) "
            f"normalizes to 3 blocks, and normalize(from_code(that.to_code())) has 2 - the normal form changes under one to_code / from_code round trip")


def run(an: Analysis, rep):
    rep.explanation = (
        "Decides that normalize is a projection onto 'every private (serialization-artefact) field at its declared default': for every "
        "private field of every data class reachable from CodeData the arm of normalize that handles the class resets it to the "
        "declared default (both sides constant-folded), every field whose type can reach a class with private fields is recursed "
        "into (tuples element-wise), hence the result does not depend on the artefacts of its input and normalize is idempotent; and "
        "that the encoder's index assignment with no override is a function of first use only. R06.N folds normalize itself over a witness "
        "CodeData in which every private field holds a non-default value at every place the model allows (also inside a nested code object "
        "that sits at its natural position) and requires exactly 'private fields at their defaults, public fields untouched', twice. "
        "History-stability through JSON "
        "rests additionally on C07's agreement rules and C12 (no hidden state); canonicity across table permutations additionally "
        "on the decoder being correct for the variant (C02, not decided here)."
    )
    rep.rule("R06.1", "every private field reachable in the type graph is reset to its declared default", 8)
    rep.rule("R06.2", "normalize recurses into every field whose type reaches a class with private fields", 3)
    rep.rule("R06.3", "each arm's result satisfies the reset predicate independently of the input (projection => idempotent)", 3)
    rep.rule("R06.4", "index assignment without override depends on first use only", 3)
    from .common import purity
    rep.run(purity, an, rep, "R06.P", ["normalize", "to_code", "from_code"])
    from .common import assert_guard_rule as _agrx
    rep.run(_agrx, an, rep, "R06.G", ["normalize", "to_code", "from_code", "to_json", "from_json"])
    from .common import SharedRules as _SR6
    from . import c01 as _c01f, c08 as _c08e, c11 as _c11f
    from sa.analysis import VERSIONS as _V6
    shf6 = _SR6(rep, "R06.F", "every flag the decoder took into the data is written back exactly when its datum is set (shared with C11's R11.3): a flag dropped by to_code() for some kind of "
                              "code comes back False from the next from_code, so the normal form is not stable under a to_code / from_code trip")
    for V in _V6:
        rep.run(_c11f.r113, an, shf6, V, _c01f._dispositions(an, V)[0])
    she6 = _SR6(rep, "R06.E", "equality of the data (what 'normalize(...) == n' means) is equality of one key that identifies all NaNs (shared with C08's R08.2 / R08.4): from_json_data builds a "
                              "new NaN object, a comparison that looks at the float itself makes the re-loaded normal form unequal to the original")
    rep.run(_c08e.r082, an, she6)
    rep.run(_c08e.r084, an, she6)
    rep.run(reset_rules, an, rep)
    rep.run(r06n, an, rep)
    from . import c03 as _c03y
    shy = _SR6(rep, "R06.Y", "the encoder's layout and table folded over witness block lists without overrides - what normalize returns (shared with C03's R03.E / R03.T): the code written for the "
                             "normal form decodes to the normal form again (docstring slot, first-use order of the tables, jump targets)")
    rep.run(_c03y.r03e, an, shy)
    rep.run(_c03y.r03t, an, shy)
    rep.run(_c03y.r03y, an, shy)
    rep.run(_c03y.r03f, an, _SR6(rep, "R06.F2", "co_freevars is written as the sequence the operands index (shared with C03's R03.F2): a table written in another order than the one the operands were computed "
                                                "from swaps the names on every to_code / from_code trip"))
    from . import c02 as _c02x6
    rep.run(_c02x6.r02p, an, _SR6(rep, "R06.X", "up to three EXTENDED_ARG prefixes are decoded, more are refused (shared with C02's R02.8): code objects that differ only in redundant prefixes must both "
                                               "decode to have equal normal forms"))
    from . import c05 as _c05k6
    rep.run(_c05k6.r05k, an, _SR6(rep, "R06.K2", "constants are handed to CodeType with value and type unchanged (shared with C05's R05.K2): a constant rewritten on the way (a str inside a frozenset taken "
                                                 "apart like a tuple) decodes to other data than the normal form it was written from"))
    from . import c02 as _c02g, c04 as _c04g
    rep.run(_c02g.r02f, an, _SR6(rep, "R06.G", "the decoder's instruction function folded over witness code units (shared with C02's R02.F): the jump structure of the normal form is the one CPython executes, "
                                               "so re-encoding and decoding it again finds the same blocks"))
    rep.run(_c04g.r043, an, _SR6(rep, "R06.A", "argument counts and flags written by the encoder are the ones the decoder reads the signature from (shared with C04's R04.3): a count written without the "
                                               "positional-only parameters comes back as another signature after to_code / from_code"))
    fn, p, arms, fall_identity = parse_normalize(an)
    dcs, has_priv, reach = classes_with_private_reach(an)
    # R06.3: projection - every arm's result is built only from resets, recursion on the same field, or untouched public fields
    for arm in arms:
        if arm.kind == "map" or arm.kind == "identity":
            continue
        for cname in arm.names:
            ci = next((c for c in dcs if c.name == cname), None)
            if ci is None:
                continue
            bad = []
            for k, v in arm.kws.items():
                f = ci.field(k)
                if f is None:
                    bad.append(f"{k} is not a field of {cname}")
                elif f.private and (fold_default(v) is NOFOLD) and not keeps_acting_entries(p, v, k):
                    bad.append(f"private {k} set from a non-constant expression {norm_src(v)}")
            if arm.kind == "ctor" and arm.ctor_class != cname:
                bad.append(f"arm for {cname} constructs {arm.ctor_class}")
            rep.add("R06.3", f"{fn.qual}::{cname} arm", not bad, loc(fn.module, arm.ret),
                    "; ".join(bad) if bad else "private fields of the result are constants: the result does not depend on the input's artefacts")
    rep.add("R06.3", f"{fn.qual}::fall-through", fall_identity, loc(fn.module, fn.node),
            "values without an arm are returned unchanged" if fall_identity else "fall-through does not return its argument")
    rep.run(r064, an, rep)
    rep.run(r065, an, rep)
    from .common import SharedRules
    from . import c03
    sh = SharedRules(rep, "R06.R", "encoder re-layout and table keys (shared with C03's R03.3/R03.7): normalize -> to_code -> from_code -> normalize is a fixed point only if they hold")
    rep.run(c03.r037, an, sh)
    rep.run(c03.r033, an, sh, c03.table_class(an))
    from . import c02
    rep.run(c02.jump_rules, an, SharedRules(rep, "R06.C", "jump and cell/free operand arithmetic agree between encoder and decoder (shared with C02's R02.3/R02.4): a code round trip keeps every operand's class and target, so re-normalizing gives the same data"))
    from . import c10
    rep.run(c10.format_rules, an, SharedRules(rep, "R06.L", "line-table format constants (shared with C10's R10.*): the lines of the normal form survive to_code / from_code"))
    from . import c05
    rep.run(c05.r053, an, SharedRules(rep, "R06.D", "docstring slot (shared with C05's R05.3): normalize -> to_code -> from_code -> normalize keeps `docstring`"))
    from . import c04
    rep.run(c03.r035, an, SharedRules(rep, "R06.W", "operand width thresholds and unit emission (shared with C03's R03.5): the normal form has no recorded widths, so every operand goes through the size function on each to_code"))
    rep.run(c04.r041, an, SharedRules(rep, "R06.H", "the decoder slices co_varnames into the parameter kinds as the encoder lays them out (shared with C04's R04.1): otherwise the names change place on every to_code / from_code round trip"))
    from . import c01 as _c01r
    shr6 = SharedRules(rep, "R06.S", "every slot of the re-encoded code object is built from the data of that slot, under every interpreter version (shared with C01's R01.2): the normal form survives to_code / from_code")
    from sa.analysis import VERSIONS as _VS6
    for _V in _VS6:
        rep.run(_c01r.r012, an, shr6, _V)
    from . import c12
    rep.run(c12.arg_mutation_rule, an, rep, "R06.M", ["from_json", "to_json", "normalize", "to_code"])
    from . import c07
    from .json_model import find_json_functions, load_schema
    shj = SharedRules(rep, "R06.J", "JSON codec agreement (shared with C07's R07.1/R07.3): the normal form is stable through to_json_data / from_json_data")
    root, defs = load_schema(an)
    enc, cdec = find_json_functions(an)
    rep.run(c07.r071, an, shj, enc, cdec, defs)
    rep.run(c07.r073, an, shj, enc)
    rep.run(c07.r07a, an, shj, enc)
    rep.run(c07.r07b, an, shj, defs)
    rep.run(c07.r07r, an, shj)
    from . import json_fold as _jf
    rep.run(_jf.fold_rule, an, shj)
    rep.run(_jf.encode_fold_rule, an, shj)
    rep.run(_jf.constants_fold_rule, an, shj)
    from .common import rebuild_rule
    rep.run(rebuild_rule, an, shj, "R07.8", ["from_json"])


def _shape_kinds(tg, t):
    out = set()
    tg._walk(t, lambda x: out.add(x[0]), set())
    return out


def _unreachable_after_reset(an, ci, dcs) -> bool:
    """Every field (of any data class) whose type mentions ci is private (hence reset to a constant default)."""
    tg = an.tg
    users = [f for c in dcs for f in c.fields if ci.qual in tg.classes_in(tg.field_type(f))]
    return bool(users) and all(f.private for f in users)


def r064(an, rep):
    """FromArgs.add: with index_override None the result is the existing index for the key, else len(self)."""
    it, _ = an.interp("to_code")
    prog = an.prog
    # the table class: class of the object whose method result reaches the constants/names slots == has `add`-like method
    cands = [c for c in prog.all_classes() if not c.is_dataclass or not c.dc_args.get("frozen")]
    tab = None
    for c in cands:
        if {"to_tuple"} <= set(c.methods) and any(q.startswith(c.qual) for q in it.reached):
            tab = c
    if tab is None:
        raise AnalysisError("encoder table class (with to_tuple) not found in the to_code closure")
    addm = None
    for m in tab.methods.values():
        if len(m.params) == 3 and m.qual in it.reached and m.name not in ("__setitem__",):
            addm = m
    if addm is None:
        raise AnalysisError(f"{tab.qual}: index-assignment method not found")
    self_, argp, ovp = addm.params
    body = [st for st in addm.node.body if not (isinstance(st, ast.Expr) and isinstance(st.value, ast.Constant))]
    w = loc(addm.module, addm.node)
    # shape: if ov is not None: ...return ov ; key = kf(arg); if key in map: return map[key]; index = len(self); self[index] = arg; return index
    rets = [n for n in ast.walk(addm.node) if isinstance(n, ast.Return)]
    override_guard = None
    for st in body:
        if isinstance(st, ast.If) and _mentions(st.test, ovp):
            override_guard = st
    ok1 = override_guard is not None and all(isinstance(r.value, ast.Name) and r.value.id == ovp for r in ast.walk(override_guard) if isinstance(r, ast.Return))
    rep.add("R06.4", f"{addm.qual}::override path returns the override", ok1, w,
            "with an override the index is the override itself" if ok1 else "override path not recognised")
    after = body[body.index(override_guard) + 1:] if override_guard in body else body
    names_used = set()
    for st in after:
        for n in ast.walk(st):
            if isinstance(n, ast.Name):
                names_used.add(n.id)
    dep_ok = ovp not in names_used
    rep.add("R06.4", f"{addm.qual}::no-override path ignores the override", dep_ok, w,
            "the no-override path does not mention the override parameter" if dep_ok else "no-override path depends on the override parameter")
    # lookup-then-len
    lookup = [st for st in after if isinstance(st, ast.If) and any(isinstance(c, ast.Compare) and isinstance(c.ops[0], ast.In) for c in ast.walk(st.test))]
    fresh_ok = False
    for st in after:
        if isinstance(st, ast.Assign) and isinstance(st.value, ast.Call) and isinstance(st.value.func, ast.Name) and st.value.func.id == "len":
            a0 = st.value.args[0]
            if isinstance(a0, ast.Name) and a0.id == self_ or (isinstance(a0, ast.Attribute) and isinstance(a0.value, ast.Name) and a0.value.id == self_):
                tgt = st.targets[0].id if isinstance(st.targets[0], ast.Name) else None
                fresh_ok = tgt is not None and any(isinstance(r.value, ast.Name) and r.value.id == tgt for r in rets)
    ok3 = bool(lookup) and fresh_ok
    rep.add("R06.4", f"{addm.qual}::existing index else number of entries", ok3, w,
            "returns the index already assigned to the value's key, else len(table): a function of the sequence of first uses only" if ok3
            else "index assignment is not 'existing index of the key, else current number of entries'")


def _mentions(node, name):
    return any(isinstance(n, ast.Name) and n.id == name for n in ast.walk(node))


class _Either:
    def __init__(self, *alts):
        self.alts = alts


def r06n(an: Analysis, rep, rule="R06.N"):
    """normalize folded over a witness CodeData in which every private field of every class of the model holds a non-default value, at every
    place the model allows (operands of every class, a nested code object that is itself full of artefacts, unreferenced entries, a trailing
    line).  Expected: the same data with every private field at its declared default and every public field untouched - at every depth; and
    normalize of that result is the result (idempotence on the witness)."""
    from sa.feval import BlockOutcome, Obj
    from .c03 import package_evaluator
    from .normalize_model import find_normalize
    rep.rule(rule, "normalize folded over witness data full of artefacts: private fields reset at every depth, public fields untouched, idempotent", 2)
    fn = find_normalize(an)
    ev, _R = package_evaluator(an, fn.module, (3, 10))
    L = ev.lib

    def build():
        inner, inner2 = mk_inner("inner"), mk_inner("second")
        b0 = (L["Instruction"](name="LOAD_CONST", arg=L["Constant"]((1, (2.0, "x"), frozenset({3})), 3), _n_args_override=2, line_number=5, _line_offsets_override=(1, -1)),
              L["Instruction"](name="LOAD_NAME", arg=L["Name"]("n", 1), line_number=None),
              L["Instruction"](name="LOAD_FAST", arg=L["Varname"]("v", 2), line_number=0),
              L["Instruction"](name="LOAD_CLOSURE", arg=L["Cellvar"]("c", 1), line_number=6),
              L["Instruction"](name="LOAD_DEREF", arg=L["Freevar"]("f"), line_number=6),
              L["Instruction"](name="NOP", arg=L["NoArg"](7), line_number=6, _line_offsets_override=(0, 0)),
              L["Instruction"](name="JUMP_FORWARD", arg=L["Jump"](1, True), _n_args_override=3, line_number=7),
              L["Instruction"](name="BUILD_TUPLE", arg=300, _n_args_override=4, line_number=7),
              L["Instruction"](name="LOAD_CONST", arg=L["Constant"](inner, 0), line_number=8),
              # a nested code object at its natural position (no override on the operand) that is itself full of artefacts
              L["Instruction"](name="LOAD_CONST", arg=L["Constant"](inner2), line_number=8),
              L["Instruction"](name="LOAD_NAME", arg=L["Name"]("plain"), line_number=8))
        b1 = (L["Instruction"](name="RETURN_VALUE", arg=L["NoArg"](0), line_number=9),)
        return L["CodeData"](blocks=(b0, b1), _additional_args=(L["Name"]("unused", 7), L["Constant"](None, 4), L["Constant"](inner, 5), L["Varname"]("w", 3), L["Cellvar"]("d", 0)),
                             _additional_line=L["AdditionalLine"](12, (1, 2)), first_line_number=3,
                             type=L["Function"](args=L["Args"](positional_only=("p",), positional_or_keyword=("a",), var_positional="args", keyword_only=("k",), var_keyword="kw"),
                                                docstring="doc", type="GENERATOR"),
                             freevars=("f",), stacksize=2, filename="f.py", name="g", future_annotations=True, _nested=True)

    def mk_inner(name):
        return L["CodeData"](blocks=((L["Instruction"](name="LOAD_CONST", arg=L["Constant"](None, 1), _n_args_override=2, line_number=2, _line_offsets_override=(0,)),
                                       L["Instruction"](name="RETURN_VALUE", arg=L["NoArg"](3))),),
                              _additional_args=(L["Constant"]("never", 0),), _additional_line=L["AdditionalLine"](4, (1,)), first_line_number=2,
                              type=L["Function"](args=L["Args"](positional_or_keyword=("a",), var_keyword="kw"), docstring=None, type=None),
                              freevars=("f",), stacksize=1, filename="f.py", name=name, future_annotations=True, _nested=True)
    from .common import data_classes
    cls = {c.name: c for c in data_classes(an)}

    def default_of(fl):
        if fl.default_factory is not None:
            return ev.ev(ast.Call(func=fl.default_factory, args=[], keywords=[]), {})
        if fl.default is not None:
            return ev.ev(fl.default, {})
        raise AnalysisError(f"private field {fl.name} has no default: 'reset' is not defined for it")

    def strip(v):
        if isinstance(v, Obj):
            ci = cls.get(v.get("__cls__"))
            if ci is None:
                return v
            out = Obj({"__cls__": ci.name})
            for fl in ci.fields:
                out[fl.name] = default_of(fl) if fl.private else strip(v[fl.name])
                if fl.private and isinstance(v[fl.name], tuple) and all(isinstance(x, int) for x in v[fl.name]) and any(v[fl.name]):
                    # extra line-table entries: the normal form may keep the ones that act (non-zero: CPython fires a line event at them, C05's R05.T) or drop them all
                    out[fl.name] = _Either(default_of(fl), tuple(x for x in v[fl.name] if x != 0))
            return out
        if isinstance(v, tuple):
            return tuple(strip(x) for x in v)
        return v

    def diff(a, b, path="x"):
        if isinstance(b, _Either):
            return None if any(diff(a, alt, path) is None for alt in b.alts) else f"{path}: {_show(a)} instead of one of {[_show(x) for x in b.alts]}"
        if isinstance(a, Obj) or isinstance(b, Obj):
            if not (isinstance(a, Obj) and isinstance(b, Obj)) or a.get("__cls__") != b.get("__cls__"):
                return f"{path}: {_show(a)} instead of {_show(b)}"
            for k in b:
                if k != "__cls__":
                    d = diff(a.get(k, "<missing>"), b[k], f"{path}.{k}")
                    if d:
                        return d
            return None
        if isinstance(a, tuple) and isinstance(b, tuple):
            if len(a) != len(b):
                return f"{path}: {len(a)} elements instead of {len(b)}"
            for i, (x, y) in enumerate(zip(a, b)):
                d = diff(x, y, f"{path}[{i}]")
                if d:
                    return d
            return None
        if type(a) is not type(b) or a != b:
            return f"{path}: {_show(a)} instead of {_show(b)}"
        return None

    def _show(v):
        return f"{v.get('__cls__')}(...)" if isinstance(v, Obj) else ascii(v)[:40]
    try:
        w = build()
        want = strip(w)
        got = ev.call_method(fn.node, w)
        why = diff(got, want)
        again = ev.call_method(fn.node, got) if why is None else None
        why2 = diff(again, want) if why is None else None
        untouched = diff(w, build())
    except BlockOutcome as o:
        why, why2, untouched = f"normalize stops at `{norm_src(o.node)[:60]}`", None, None
    except AnalysisError:
        raise
    except Exception as ex:  # noqa: BLE001 - a gap of the evaluator, never a verdict
        raise AnalysisError(f"{fn.qual}: not evaluable on the witness data ({type(ex).__name__}: {ex})")
    rep.add(rule, f"{fn.qual}::witness data full of artefacts", why is None and not untouched, loc(fn.module, fn.node),
            "every private field at every depth (operands, nested code object, its operands) comes back at its default, every public field as given; the argument is not changed"
            if why is None and not untouched else
            (f"normalize of the witness gives {why} (expected: the witness with every private field at its declared default and nothing else changed)" if why else
             f"normalize changed its argument: {untouched}"))
    if why is None:
        rep.add(rule, f"{fn.qual}::idempotent on the witness", why2 is None, loc(fn.module, fn.node),
                "normalize(normalize(w)) is normalize(w)" if why2 is None else f"normalizing the result again gives {why2}")
