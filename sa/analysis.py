"""Shared analysis context: program model, type graph, cached abstract interpretations."""
from __future__ import annotations

import ast
from typing import Dict, List, Optional, Tuple

from .absint import Interp
from .model import AnalysisError, FunctionInfo, Module, Program, loc, norm_src
from .typegraph import TypeGraph

VERSIONS: List[Tuple[int, int]] = [(3, 7), (3, 8), (3, 9), (3, 10)]
CD = ("class", "code_data::CodeData")
ARGS = ("class", "code_data::Args")
CONSTANT = ("class", "code_data::Constant")
CODETYPE = ("ext", "types.CodeType")
OBJ = ("leaf", "object")

# public API entry points: the roots of every closure
ENTRIES: Dict[str, Tuple[str, Dict[str, tuple], bool]] = {
    "from_code": ("code_data::CodeData.from_code", {"code": CODETYPE}, True),
    "to_code": ("code_data::CodeData.to_code", {"self": CD}, False),
    "from_json": ("code_data::CodeData.from_json_data", {"json_data": OBJ}, True),
    "to_json": ("code_data::CodeData.to_json_data", {"self": CD}, False),
    "normalize": ("code_data::CodeData.normalize", {"self": CD}, False),
    "iter": ("code_data::CodeData.__iter__", {"self": CD}, False),
    "all_code_data": ("code_data::CodeData.all_code_data", {"self": CD}, False),
    "parameters": ("code_data::Args.parameters", {"self": ARGS}, False),
    "args_len": ("code_data::Args.__len__", {"self": ARGS}, False),
    "constant_eq": ("code_data::Constant.__eq__", {"self": CONSTANT, "__o": OBJ}, False),
    "cli": ("code_data._cli::main", {}, False),
}


def vname(v: Tuple[int, int]) -> str:
    return f"{v[0]}.{v[1]}"


class Analysis:
    def __init__(self, repo: Optional[str] = None):
        self.prog = Program(repo) if repo else Program()
        self.tg = TypeGraph(self.prog)
        self._interps: Dict[Tuple[str, Tuple[int, int]], Tuple[Interp, frozenset]] = {}

    def interp(self, entry: str, version: Tuple[int, int] = (3, 10)) -> Tuple[Interp, frozenset]:
        key = (entry, version)
        if key not in self._interps:
            qual, roots, is_cm = ENTRIES[entry]
            fi = self.prog.function(qual)
            it = Interp(self.prog, self.tg, version)
            extra = None
            if is_cm:
                extra = {fi.params[0]: frozenset([("class", fi.cls.qual)])}
            ret = it.run_entry(fi, roots, extra)
            if it.unresolved_final:
                raise AnalysisError(
                    f"unresolved call(s) in the closure of {qual} under {vname(version)}: {sorted(it.unresolved_final)}")
            self._interps[key] = (it, ret)
        return self._interps[key]

    # ------------------------------------------------------------- utilities
    def fn(self, qual: str) -> FunctionInfo:
        return self.prog.function(qual)

    def closure(self, entry: str, version: Tuple[int, int] = (3, 10)) -> List[FunctionInfo]:
        it, _ = self.interp(entry, version)
        out = []
        for q in sorted(it.reached):
            f = self.prog.find_function(q) or it._nested_fn(q)
            if f is not None:
                out.append(f)
        return out

    def closure_all(self, entry: str) -> List[FunctionInfo]:
        """Functions reachable from the entry under any supported interpreter version (version-specific branches pruned per version)."""
        seen, out = set(), []
        for V in VERSIONS:
            for f in self.closure(entry, V):
                if f.qual not in seen:
                    seen.add(f.qual)
                    out.append(f)
        return out

    def stats(self, interps) -> dict:
        fns = set()
        internal, external = set(), set()
        for it in interps:
            fns |= it.reached
            for nid, callees in it.callees.items():
                if any(self.prog.find_function(q) is not None or q in {c.qual for c in self.prog.all_classes()} for q in callees):
                    internal.add(nid)
                elif callees:
                    external.add(nid)
        res, ext = len(internal), len(external)
        return {
            "units_parsed": sorted(m.relpath for m in self.prog.modules.values()),
            "functions_analysed": len(fns),
            "call_sites_resolved_internal": res,
            "call_sites_external": ext,
        }


def find_calls(node: ast.AST, name: str) -> List[ast.Call]:
    out = []
    for n in ast.walk(node):
        if isinstance(n, ast.Call):
            f = n.func
            if (isinstance(f, ast.Name) and f.id == name) or (isinstance(f, ast.Attribute) and f.attr == name):
                out.append(n)
    return out


def fmt_origins(atoms) -> str:
    out = []
    for a in sorted(atoms, key=str):
        out.append(fmt_atom(a))
    return "{" + ", ".join(out) + "}"


def fmt_atom(a) -> str:
    if a[0] == "src":
        s = a[1]
        for st in a[2]:
            if st[0] == "a":
                s += "." + st[1]
            elif st[0] == "e":
                s += "[*]"
            elif st[0] == "k":
                s += f"[{st[1]!r}]"
            elif st[0] == "t":
                s += "<" + "|".join(st[1]) + ">"
            elif st[0] == "keyof":
                s += ".keys[*]"
            else:
                s += "..."
        return s
    if a[0] == "const":
        return repr(a[1])
    if a[0] == "obj":
        return f"new {a[1][3]}@{a[1][0].split('.')[-1]}:{a[1][1]}"
    if a[0] == "ext":
        return a[1]
    if a[0] in ("func", "class"):
        return a[1]
    return str(a[0])
