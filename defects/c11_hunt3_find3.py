# Run with 3.7.16, 3.8.18, 3.9.18 or 3.10.13.
# An instruction with four EXTENDED_ARG prefixes (arg does not fit a C int): from_code
# wraps the arg, to_code writes the prefixes from the wrapped value - co_code changes.
import dis
from code_data import CodeData

base = compile("x = 1\n", "f.py", "exec")
E = dis.EXTENDED_ARG
prefix = bytes([E, 1, E, 0, E, 0, E, 0])
co_code = prefix + base.co_code  # EXT 1, EXT 0, EXT 0, EXT 0, LOAD_CONST 0, ...
kw = {"co_linetable": bytes([len(co_code), 1])} if hasattr(base, "co_linetable") else {}
if hasattr(base, "replace"):
    code = base.replace(co_code=co_code, **kw)
else:  # 3.7
    b = base
    code = type(b)(b.co_argcount, b.co_kwonlyargcount, b.co_nlocals, b.co_stacksize,
                   b.co_flags, co_code, b.co_consts, b.co_names, b.co_varnames,
                   b.co_filename, b.co_name, b.co_firstlineno, b.co_lnotab)
data = CodeData.from_code(code)  # does not raise
back = data.to_code()
print(code.co_code.hex(), "->", back.co_code.hex())
assert back.co_flags == code.co_flags
assert back.co_code == code.co_code, "first EXTENDED_ARG byte 01 became 00, nothing raised"
