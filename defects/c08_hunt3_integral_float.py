# Run with 3.7.16 / 3.8.18 / 3.9.18 / 3.10.13 (PYTHONPATH=/tmp/shim:/tmp/hunt3_C08). Exits non-zero.
# Two JSON documents, both valid for code_data.JSON_SCHEMA ("integer" accepts 1.0 in JSON
# Schema draft 6+, and in fastjsonschema which the project's own tests use), load to
# CodeData that are == and have the same hash, but only one of them can be encoded.
import json

from code_data import JSON_SCHEMA, CodeData

TEXT = """{"blocks": [[
  {"name": "LOAD_CONST", "arg": {"constant": null}, "line_number": 1},
  {"name": "RETURN_VALUE", "line_number": 1}]],
 "filename": "f.py", "first_line_number": 1, "name": "<module>", "stacksize": %s}"""
doc_int = json.loads(TEXT % "1")
doc_float = json.loads(TEXT % "1.0")  # what e.g. a Go/PHP/Ruby writer emits for a float64

try:  # only installed in /venv (3.12); the project validates with it
    import fastjsonschema

    validate = fastjsonschema.compile(JSON_SCHEMA)
    validate(doc_int), validate(doc_float)
    print("both documents are valid for JSON_SCHEMA")
except ImportError:
    pass

a = CodeData.from_json_data(doc_int)
b = CodeData.from_json_data(doc_float)
assert a == b and b == a and hash(a) == hash(b) and len({a, b}) == 1
print("a == b, same hash; stacksize:", repr(a.stacksize), repr(b.stacksize))

code_a = a.to_code()  # fine
try:
    code_b = b.to_code()
except TypeError as e:
    raise AssertionError(
        "equal CodeData do not encode to identical code objects: "
        f"a.to_code() works, b.to_code() raises {e!r}"
    ) from None
assert code_a == code_b and code_a.co_stacksize == code_b.co_stacksize
