"""C12 - API calls are pure: effect / alias analysis (DESIGN 5, R12.1-R12.4)."""
from __future__ import annotations

import ast

from sa.absint import MODULE_CTX
from sa.analysis import VERSIONS, Analysis, fmt_atom, vname
from sa.model import AnalysisError, loc, norm_src

API = ["from_code", "to_code", "normalize", "to_json", "from_json"]
MEMO_DECORATORS = {"lru_cache", "cache", "cached_property", "memoize"}


def classify(it, a):
    if a[0] == "der" and isinstance(a[1], tuple) and a[1] and a[1][0] == "vars":
        srcs = [o for o in it.origins(frozenset([a])) if o[0] == "src"]
        if srcs:
            return "argument", f"is the attribute dictionary (vars()) of a value reached from the caller's object {fmt_atom(srcs[0])}"
    if a[0] == "src":
        return "argument", f"may alias the caller's object {fmt_atom(a)}"
    if a[0] in ("class", "module", "func"):
        return "global", f"attribute of {a[0]} {a[1]} (shared module state)"
    if a[0] in ("ext", "extm"):
        # an object of a library module (dis.opmap, sys.modules, os.environ ...): one per process, shared with every other user of that library
        return "global", f"object `{a[1] if a[0] == 'ext' else a[1]}` of an imported library (one per process: every later call, and every other user of that library, sees the change)"
    if a[0] == "obj":
        if a[2] == MODULE_CTX:
            return "global", f"module-level object created at {a[1][0]}:{a[1][1]} (shared across calls)"
        return "fresh", f"{a[1][3]} allocated during this call at {a[1][0].split('.')[-1]}:{a[1][1]}"
    return "fresh", str(a[0])


def arg_mutation_rule(an: Analysis, rep, rule: str, entries, versions=((3, 10),)):
    """The R12.1 obligation alone, for sharing: no store / mutating call on an object that may alias an argument of the given API entries."""
    rep.rule(rule, "no mutation of an object that may alias an API argument", 1)
    n = 0
    for entry in entries:
        for V in versions:
            it, _ = an.interp(entry, V)
            for m in it.mutations:
                n += 1
                bad = [d for k, d in (classify(it, a) for a in sorted(m["targets"], key=str)) if k == "argument"]
                if bad:
                    node = it.node_index[m["node"]]
                    rep.add(rule, f"{m['fn']}::{norm_src(node)}", False, loc(an.prog.module(m["module"]), node),
                            f"{m['kind']} reached from API entry {entry}: target " + "; ".join(bad) + " - the caller's object is changed, so a second operation on the same start value sees something else",
                            config=f"{entry}@{vname(V)}")
    rep.add(rule, "arguments of the API entries are left as they were", True, "code_data/", f"{n} store / mutating-call sites in the closures of {list(entries)} examined", nontrivial=False)


def run(an: Analysis, rep):
    rep.explanation = (
        "Effect/alias analysis over the closures of the five public API methods, per interpreter version: every store, del, "
        "augmented assignment on a mutable container and every mutating method call is enumerated with the abstract objects its "
        "target may denote; a target that may alias an API argument (including an element of a shallow copy of it), a module-level "
        "object, a class or a module is a violation. Also: no `global` writes, no memoising decorators, no mutable object in a "
        "returned JSON document that is not allocated during the call. Decides the no-mutation / no-shared-state clauses; "
        "'equal results on repetition' follows from them together with the absence of any other state (not separately executed)."
    )
    rep.rule("R12.1", "no mutation of an object that may alias an API argument", 40)
    rep.rule("R12.3", "no write to module-level / class-level state, no memoisation, no `global`", 20)
    rep.rule("R12.4", "mutable objects in returned values are allocated during the call", 1)
    interps = []
    for entry in API:
        for V in VERSIONS:
            it, ret = an.interp(entry, V)
            interps.append(it)
            cfg = f"{entry}@{vname(V)}"
            for m in it.mutations:
                node = it.node_index[m["node"]]
                mod = an.prog.module(m["module"])
                construct = f"{m['fn']}::{norm_src(node)}"
                kinds = [classify(it, a) for a in sorted(m["targets"], key=str)]
                bad_arg = [d for k, d in kinds if k == "argument"]
                bad_glob = [d for k, d in kinds if k == "global"]
                fresh = [d for k, d in kinds if k == "fresh"]
                rep.add("R12.1", construct, not bad_arg, loc(mod, node),
                        (f"{m['kind']} reached from API entry {entry}: target " + "; ".join(bad_arg)) if bad_arg
                        else f"{m['kind']}: every possible target is fresh ({'; '.join(sorted(set(fresh))[:3])})",
                        config=cfg)
                rep.add("R12.3", construct, not bad_glob, loc(mod, node),
                        (f"{m['kind']} writes shared state: " + "; ".join(bad_glob)) if bad_glob
                        else f"{m['kind']}: target is not module-level state", nontrivial=False, config=cfg)
            # syntactic part of R12.3 over the closure
            for f in an.closure(entry, V):
                for sub in ast.walk(f.node):
                    if isinstance(sub, ast.Global):
                        rep.add("R12.3", f"{f.qual}::global {','.join(sub.names)}", False, loc(f.module, sub),
                                "`global` declaration in a function reachable from the API: module state written", config=cfg)
                memo = [d for d in f.decorators if d in MEMO_DECORATORS]
                rep.add("R12.3", f"{f.qual}::decorators", not memo, loc(f.module, f.node),
                        f"memoising decorator {memo} keeps state between calls" if memo else "no memoising decorator",
                        nontrivial=False, config=cfg)
            # R12.4: mutable parts of the result are fresh
            if entry in ("to_json", "from_json", "normalize", "from_code"):
                seen, todo, shared = set(), list(ret), []
                n_obj = 0
                while todo:
                    a = todo.pop()
                    if a in seen:
                        continue
                    seen.add(a)
                    if a[0] == "obj":
                        n_obj += 1
                        if a[2] == MODULE_CTX and a[1][3] in ("dict", "list", "set", "defaultdict"):
                            shared.append(classify(it, a)[1])
                        for (o, fld), vals in it.heap.items():
                            if o == a and fld[0] != "<copyof>":
                                todo.extend(vals)
                            elif o == a and it.obj_kind(a) not in ("tuple", "frozenset"):
                                # a shallow copy of a part of the argument: fresh itself, but its elements are the argument's own objects
                                for s_ in vals:
                                    if s_[0] == "src" and it._src_maybe_mutable(it.src_ext(s_, ("e",))):
                                        shared.append(f"a returned {it.obj_kind(a)} is a shallow copy of {fmt_atom(s_)}: the lists / dicts nested in it are the argument's own")
                    elif a[0] == "src" and entry == "to_json" and it._src_maybe_mutable(a):
                        shared.append(f"returns the argument's own mutable object {fmt_atom(a)}")
                    elif a[0] == "der" and classify(it, a)[0] == "argument":
                        shared.append("a returned object " + classify(it, a)[1] + ": writing to the returned document rewrites the data it came from")
                rep.add("R12.4", f"{entry}::returned value", not shared, an.prog.function(
                    {"to_json": "code_data::CodeData.to_json_data", "from_json": "code_data::CodeData.from_json_data",
                     "normalize": "code_data::CodeData.normalize", "from_code": "code_data::CodeData.from_code"}[entry]).module.relpath,
                    ("result shares mutable state: " + "; ".join(shared[:3])) if shared
                    else f"{n_obj} abstract objects reachable from the result, all allocated during the call", config=cfg)
    from .common import purity
    rep.run(purity, an, rep, "R12.P", list(API))
    from .common import process_state_rule as _psr12
    rep.run(_psr12, an, rep, "R12.S", list(API))
    from . import c11 as _c11p
    from .common import SharedRules as _SR12
    rep.run(_c11p.r119, an, _SR12(rep, "R12.E", "the flag enumeration is never called on an input value (shared with C11's R11.9): on 3.7 - 3.10 that registers a pseudo-member in the class, "
                                                     "state that makes the same call answer differently the second time"))
    rep.run(r127, an, rep)
    rep.run(r128, an, rep)
    rep.run(r128_fold, an, rep)
    from .common import SharedRules
    from . import c08
    rep.run(c08.r083, an, SharedRules(rep, "R12.5", "data built from a JSON document / code object keeps no reference to a mutable part of its argument (shared with C08's R08.3): "
                                                   "mutating the document afterwards cannot change the CodeData"))
    rep.run(c08.r084, an, rep, rule="R12.6")
    rep.rule("R12.6", "results of repeated calls compare equal: the key behind Constant.__eq__ is reflexive (NaNs identified) (shared with C08's R08.4)", 9)
    rep.stats.update(an.stats(interps))
    rep.stats["configurations"] = [f"{e}@{vname(V)}" for e in API for V in VERSIONS]
    rep.assumptions += [
        "stdlib callables used by the package do not mutate their arguments except the methods listed in absint.MUTATING_METHODS",
        "iteration order of set/frozenset only affects the listing order of frozenset elements (excluded by C15's wording)",
        "a const-key store into a shallow copy shadows the copied source for that key (conditional stores guarded by the key's presence)",
    ]


PROCESS_SETTERS = {
    "sys.setrecursionlimit", "sys.settrace", "sys.setprofile", "sys.setswitchinterval", "sys.setcheckinterval", "sys.set_int_max_str_digits", "sys.setdlopenflags",
    "os.chdir", "os.umask", "os.putenv", "os.unsetenv", "locale.setlocale", "warnings.simplefilter", "warnings.filterwarnings", "warnings.resetwarnings",
    "gc.disable", "gc.enable", "gc.set_threshold", "gc.freeze", "random.seed", "decimal.setcontext", "signal.signal", "threading.setprofile", "threading.settrace",
}


def r127(an: Analysis, rep):
    """A process-wide setting changed inside an API call (recursion limit, warning filters, gc, locale ...) is state that outlives the
    call unless it is put back on EVERY path, i.e. in a `finally`: otherwise a call that raises leaves later calls a different interpreter."""
    from rules.common import attr_chain
    from rules.encode_model import parent_map
    rep.rule("R12.7", "process-wide settings touched by an API call are restored in a finally", 0)
    n = 0
    seen = set()
    for entry in API:
        for f in an.closure(entry):
            if f.qual in seen:
                continue
            seen.add(f.qual)
            pm = parent_map(f.module)
            for c in ast.walk(f.node):
                if not isinstance(c, ast.Call):
                    continue
                ch = attr_chain(c.func) or ""
                dotted = None
                if "." in ch:
                    base, meth = ch.split(".", 1)
                    r = an.prog.resolve_global(f.module, base, f)
                    if r and r[0] == "ext":
                        dotted = r[1] + "." + meth
                elif ch:
                    r = an.prog.resolve_global(f.module, ch, f)
                    if r and r[0] == "ext":
                        dotted = r[1]
                if dotted not in PROCESS_SETTERS:
                    continue
                n += 1
                # inside a finally block (the restoring call), or inside the body of a try whose finally calls the same setter
                cur, restored = c, False
                while id(cur) in pm and pm[id(cur)] is not f.node:
                    par = pm[id(cur)]
                    if isinstance(par, ast.Try):
                        if any(cur is s_ for s_ in par.finalbody):
                            restored = True
                        elif par.finalbody and any(isinstance(x, ast.Call) and (attr_chain(x.func) or "") == ch for s_ in par.finalbody for x in ast.walk(s_)):
                            restored = True
                    cur = par
                if not restored:
                    # a set immediately before a try/finally that restores it is the usual idiom
                    stmt = c
                    while id(stmt) in pm and not isinstance(stmt, ast.stmt):
                        stmt = pm[id(stmt)]
                    par = pm.get(id(stmt))
                    body = getattr(par, "body", [])
                    if stmt in body:
                        nxt = body[body.index(stmt) + 1:body.index(stmt) + 2]
                        if nxt and isinstance(nxt[0], ast.Try) and nxt[0].finalbody and any(isinstance(x, ast.Call) and (attr_chain(x.func) or "") == ch
                                                                                           for s_ in nxt[0].finalbody for x in ast.walk(s_)):
                            restored = True
                rep.add("R12.7", f"{f.qual}::{norm_src(c)[:50]}", restored, loc(f.module, c),
                        "restored in a finally" if restored else
                        f"`{norm_src(c)[:60]}` changes a process-wide setting and nothing puts it back when the code in between raises: after one failing call (e.g. a rejected "
                        f"document) every later call of the API runs under a different setting and can give a different result for the same argument")
    rep.add("R12.7", "process-wide setters examined", True, "code_data/", f"{n} call(s) of {len(PROCESS_SETTERS)} known process-wide setters in the API closures", nontrivial=False)


def r128_fold(an: Analysis, rep):
    """The tuples nested in a frozenset constant: the function that prepares constants for CodeType is folded over witness constants; every tuple object reachable in what
    it returns must be a new object (CPython interns the strings of those tuples in place - the frozenset itself is replaced by a new one, its member tuples are not)."""
    from sa.feval import BlockOutcome, ObjEval
    target = None
    for f in an.closure("to_code"):
        if f.cls is None and len(f.params) == 1 and isinstance(f.node, ast.FunctionDef):
            first = next((st for st in f.node.body if isinstance(st, ast.If)), None)
            if first is not None and "CodeData" in norm_src(first.test) and any(isinstance(c, ast.Call) and isinstance(c.func, ast.Attribute) and c.func.attr == "to_code" for c in ast.walk(first)):
                target = f
    if target is None:
        raise AnalysisError("the function that prepares a constant for CodeType was not found")

    def resolve(name):
        r = an.prog.resolve_global(target.module, name, target)
        return r[1].node if r and r[0] == "func" else None

    def tuples_in(v, out):
        if isinstance(v, tuple):
            out.append(v)
        if isinstance(v, (tuple, frozenset)):
            for x in v:
                tuples_in(x, out)
        return out
    W = [("a", ("b", 1)), frozenset({("alpha", 1), ("beta", 2)}), (frozenset({("c", 1)}), 7), frozenset({(("deep",), 1)})]
    shared = []
    for w in W:
        ev = ObjEval(resolve, extra={"CodeData": type("CodeData", (), {})})
        ev.module_assigns = target.module.assigns
        try:
            got = ev.call_method(target.node, w)
        except BlockOutcome:
            continue
        except Exception as ex:  # noqa: BLE001
            raise AnalysisError(f"{target.qual}: not evaluable on the witness constant {w!r} ({type(ex).__name__}: {ex})")
        mine = {id(t) for t in tuples_in(w, []) if t}
        if any(id(t) in mine for t in tuples_in(got, []) if t):
            shared.append(w)
    rep.add("R12.8", f"{target.qual}::no tuple of the argument reaches CodeType inside a constant", not shared, loc(target.module, target.node),
            f"{len(W)} witness constants with tuples (nested in tuples and in frozensets): every tuple handed on is a new object" if not shared else
            f"for the constant {shared[0]!r} a tuple object of the argument itself is handed to CodeType: CPython interns the strings inside constant tuples in place (also of tuples that are "
            f"members of a frozenset), so to_code() replaces items of tuples owned by its argument (`x in {{('alpha', 1), ('beta', 2)}}` loaded from JSON)")


def _union_parts(tg, t):
    if t is None:
        return []
    u = tg.unfold_rec(t)
    return list(u[1]) if u[0] == "union" else [u]


def r128(an: Analysis, rep):
    """CPython's code constructor modifies tuples nested in co_consts IN PLACE (Objects/codeobject.c intern_string_constants: a string is
    replaced by its interned copy, a frozenset holding strings by a new frozenset). A tuple of the argument handed to CodeType(...) as (part
    of) a constant is therefore modified by to_code(): the CodeData changes under the caller (its frozensets list in another order)."""
    import reference.contracts as C
    from rules import c11
    rep.rule("R12.8", "no tuple of the argument reaches the constants handed to CodeType(...) (CPython interns strings inside them in place)", 1)
    for V in VERSIONS:
        it, _ = an.interp("to_code", V)
        calls = c11.codetype_calls(an, V)
        if len(calls) != 1:
            raise AnalysisError(f"expected exactly one live CodeType(...) call under {vname(V)}, found {len(calls)}")
        f, call = calls[0]
        slots = C.CODE_SLOTS[V]
        if len(call.args) != len(slots):
            raise AnalysisError("CodeType(...) arity not recognised")
        cv = it.value_at(call.args[slots.index("consts")])
        own = []
        own_fs = []
        for a in it.elements(cv):
            if a[0] != "src":
                continue
            t = an.tg.unfold_rec(it.src_type(a))
            parts = list(t[1]) if t[0] == "union" else [t]
            if any(an.tg.unfold_rec(x)[0] in ("tuple", "tuplefix") for x in parts):
                own.append(a)
                continue
            # a frozenset of the argument whose members can be tuples: the set itself is replaced by a new one, the member tuples are interned in place
            for x in parts:
                ux = an.tg.unfold_rec(x)
                if ux[0] in ("frozenset", "set") and any(an.tg.unfold_rec(y)[0] in ("tuple", "tuplefix") for y in _union_parts(an.tg, ux[1] if len(ux) > 1 else None)):
                    own_fs.append(a)
                    break
        rep.add("R12.8", f"{f.qual}::constants handed to CodeType are not the argument's own tuples", not own, loc(f.module, call),
                "every tuple among the constants is built during the call" if not own else
                f"the constants handed to CodeType(...) include {fmt_atom(own[0])}, a tuple that belongs to the CodeData being encoded: CPython interns the strings inside constant tuples "
                f"in place and replaces a frozenset holding strings by a new one, so to_code() changes its argument (afterwards to_json_data() lists the frozenset in another order)",
                config=vname(V))
        # (frozensets: whether a set is copied can depend on its members - decided by folding the preparation function, see below)
