"""Generated witnesses for the thorough tier of the decoder / encoder folds (R02.F, R03.E): block lists drawn from a seeded generator
(VERIF_SEED), and a small reference assembler - written from the instruction format, not from the library - that turns a block list into
code units and tables for the decoder's fold.  Pure functions; nothing of /repo is imported."""
from __future__ import annotations

import random


def generated_programs(seed: int, count: int):
    """Block lists in the witness format of rules.c03 (name, blocks, freevars): 1-6 blocks of 1-140 instructions over name / constant pools
    of 3, 40 or 300 entries (operands beyond one byte), raw operands around every width limit, relative jumps forward and absolute jumps anywhere."""
    rng = random.Random(1000003 * (seed + 1))
    out = []
    for k in range(count):
        nb = rng.randint(1, 6)
        names = [f"n{i}" for i in range(rng.choice([3, 40, 300]))]
        consts = list(range(rng.choice([3, 300])))
        blocks = []
        for bi in range(nb):
            n = rng.choice([1, 2, 5, 30, 70, 140])
            b = []
            for _ in range(n):
                r = rng.random()
                if r < .35:
                    b.append(("LOAD_NAME", ("N", rng.choice(names), None)))
                elif r < .7:
                    b.append(("LOAD_CONST", ("K", rng.choice(consts), None)))
                elif r < .8:
                    b.append(("POP_TOP", None))
                elif r < .88:
                    b.append(("BUILD_TUPLE", ("X", rng.choice([0, 3, 255, 256, 65535, 65536, 70000]))))
                elif rng.random() < .5 and bi + 1 < nb:
                    b.append(("JUMP_FORWARD", ("J", rng.randint(bi + 1, nb - 1), True)))
                else:
                    b.append((rng.choice(["JUMP_ABSOLUTE", "POP_JUMP_IF_FALSE", "POP_JUMP_IF_TRUE"]), ("J", rng.randint(0, nb - 1), False)))
            blocks.append(b)
        blocks[-1].append(("RETURN_VALUE", None))
        out.append((f"generated block list #{k} ({nb} blocks, {sum(len(b) for b in blocks)} instructions)", blocks, ()))
    return out


def _width(a: int) -> int:
    return 1 if a <= 0xFF else 2 if a <= 0xFFFF else 3 if a <= 0xFFFFFF else 4


def ref_assemble(blocks, R):
    """Code units for a block list as CPython's assembler lays them out: tables in order of first use, every instruction with the minimal
    number of EXTENDED_ARG prefixes, jump operands measured in R['jump_scale'] bytes (relative ones from the end of the jump)."""
    names, consts = [], []
    flat = [(bi, ins) for bi, b in enumerate(blocks) for ins in b]
    ops = []
    for _bi, ins in flat:
        sp = ins[1]
        if sp is None:
            ops.append(0)
        elif sp[0] == "N":
            if sp[1] not in names:
                names.append(sp[1])
            ops.append(names.index(sp[1]))
        elif sp[0] == "K":
            if sp[1] not in consts:
                consts.append(sp[1])
            ops.append(consts.index(sp[1]))
        elif sp[0] == "X":
            ops.append(sp[1])
        else:
            ops.append(None)  # a jump
    widths = [1 if o is None else _width(o) for o in ops]
    scale = R["jump_scale"]
    while True:
        starts, off, first_of = [], 0, {}
        for i, (bi, _ins) in enumerate(flat):
            first_of.setdefault(bi, off)
            starts.append(off)
            off += 2 * widths[i]
        changed = False
        vals = list(ops)
        for i, (bi, ins) in enumerate(flat):
            sp = ins[1]
            if sp is not None and sp[0] == "J":
                tgt = first_of[sp[1]]
                v = (tgt - (starts[i] + 2 * widths[i])) // scale if sp[2] else tgt // scale
                vals[i] = v
                if _width(v) > widths[i]:
                    widths[i] = _width(v)
                    changed = True
        if not changed:
            break
    code = []
    for i, (_bi, ins) in enumerate(flat):
        v = vals[i]
        for j in reversed(range(widths[i])):
            code += [R["opmap"][ins[0]] if j == 0 else R["EXTENDED_ARG"], (v >> (8 * j)) & 0xFF]
    return bytes(code), tuple(names), tuple(consts)
