# Run on 3.7.16 / 3.8.18 / 3.9.18 / 3.10.13:  PYTHONPATH=/tmp/shim:/tmp/hunt3_C07 <python> out/find1.py
# A hand-altered code object whose co_consts holds an int *subclass* (re.IGNORECASE, an
# enum.IntFlag - what a "bind globals as constants" decorator puts there) is decoded by
# from_code without complaint, but the JSON form silently turns it into a plain int.
import json, re, sys, types
from code_data import CodeData

def f():
    return 2

def replace_consts(c, consts):
    if sys.version_info >= (3, 8):
        return c.replace(co_consts=consts)
    return types.CodeType(c.co_argcount, c.co_kwonlyargcount, c.co_nlocals, c.co_stacksize,
                          c.co_flags, c.co_code, consts, c.co_names, c.co_varnames, c.co_filename,
                          c.co_name, c.co_firstlineno, c.co_lnotab, c.co_freevars, c.co_cellvars)

assert re.IGNORECASE == 2 and type(re.IGNORECASE) is not int
code = replace_consts(f.__code__, (None, re.IGNORECASE))
f.__code__ = code
assert f() is re.IGNORECASE                       # CPython runs it

x = CodeData.from_code(code)                      # decoding accepts it ...
assert x.to_code().co_consts[1] is re.IGNORECASE  # ... and encodes it back faithfully

j = x.to_json_data()
const = j["blocks"][0][0]["arg"]["constant"]
print("JSON constant:", repr(const), type(const))  # not a plain int (property: int only)
text = json.dumps(j, allow_nan=False)
y = CodeData.from_json_data(json.loads(text))
c1, c2 = x.to_code(), y.to_code()
print("x.to_code().co_consts:", c1.co_consts, " after JSON:", c2.co_consts)
print("from_json_data(...) == x:", y == x)

for v in (x, x.normalize()):
    w = CodeData.from_json_data(json.loads(json.dumps(v.to_json_data(), allow_nan=False)))
    assert w == v, "data after the JSON cycle is not equal to the data before"
    assert [type(c) for c in w.to_code().co_consts] == [type(c) for c in v.to_code().co_consts]
