#!/usr/bin/env python3
"""
Confirm a sub-agent's seeded change in its scratch worktree and, if confirmed, store it under /verif/seeded/<id>/.
usage: verify_seed.py C16 1 [C16 2 ...]
Confirms: patch applies to a clean checkout of /repo HEAD; baseline tests still report 30 passed; the demonstration
fails with the change and passes without it on at least one interpreter.
"""
import json
import os
import re
import shutil
import subprocess
import sys

INTERPS = {"3.8": "/root/.pyenv/versions/3.8.18/bin/python", "3.10": "/root/.pyenv/versions/3.10.13/bin/python",
           "3.7": "/root/.pyenv/versions/3.7.16/bin/python", "3.9": "/root/.pyenv/versions/3.9.18/bin/python", "3.12(venv)": "/venv/bin/python"}
BASE = ["/venv/bin/python", "-m", "pytest", "-q", "-p", "no:cacheprovider", "code_data/_flags_data_test.py", "code_data/_line_mapping_test.py"]


def sh(cmd, cwd, env=None, timeout=900):
    return subprocess.run(cmd, cwd=cwd, capture_output=True, text=True, env=env, timeout=timeout)


def run_demo(wt, demo, interp):
    env = dict(os.environ, PYTHONPATH=f"/tmp/shim:{wt}")
    try:
        r = sh([interp, demo], wt, env, timeout=600)
    except subprocess.TimeoutExpired:
        return 124, "timeout"
    return r.returncode, (r.stdout + r.stderr)[-300:]


def main():
    args = sys.argv[1:]
    for pid, n in zip(args[0::2], args[1::2]):
        wt = f"/tmp/seed_{pid}"
        out = f"{wt}/out"
        patch, demo, note = f"{out}/patch{n}.diff", f"{out}/demo{n}.py", f"{out}/note{n}.md"
        sid = f"{pid}-{int(n) + int(os.environ.get('SEED_OFFSET', '0'))}"
        if not (os.path.exists(patch) and os.path.exists(demo)):
            print(sid, "MISSING files")
            continue
        sh(["git", "checkout", "--", "."], wt)
        head = sh(["git", "rev-parse", "--short", "HEAD"], wt).stdout.strip()
        clean = {k: run_demo(wt, demo, i) for k, i in INTERPS.items()}
        ap = sh(["git", "apply", patch], wt)
        if ap.returncode != 0:
            print(sid, "PATCH DOES NOT APPLY", ap.stderr[:200])
            continue
        base = sh(BASE, wt)
        m = re.search(r"(\d+) passed", base.stdout)
        passed = int(m.group(1)) if m else 0
        comp = sh(["/venv/bin/python", "-m", "compileall", "-q", "code_data"], wt)
        mutated = {k: run_demo(wt, demo, i) for k, i in INTERPS.items()}
        sh(["git", "checkout", "--", "."], wt)
        sh(["find", ".", "-name", "__pycache__", "-prune", "-exec", "rm", "-rf", "{}", "+"], wt)
        good = [k for k in INTERPS if clean[k][0] == 0 and mutated[k][0] != 0]
        ok = passed == 30 and comp.returncode == 0 and bool(good)
        print(sid, "CONFIRMED" if ok else "NOT CONFIRMED", f"baseline passed={passed}", f"demo discriminates on {good}",
              "" if ok else f"clean={ {k: v[0] for k, v in clean.items()} } mutated={ {k: v[0] for k, v in mutated.items()} }")
        if ok:
            d = f"/verif/seeded/{sid}"
            os.makedirs(d, exist_ok=True)
            shutil.copy(patch, f"{d}/patch.diff")
            shutil.copy(demo, f"{d}/demo.py")
            if os.path.exists(note):
                shutil.copy(note, f"{d}/note.md")
            for extra in os.listdir(out):
                if extra.startswith("_") or extra.endswith(".json") or (extra.endswith(".py") and not extra.startswith("demo")):
                    shutil.copy(os.path.join(out, extra), f"{d}/{extra}")
            needs = ""
            if os.path.exists(note):
                txt = open(note).read()
                needs = " ".join(txt.split())[:600]
            meta = {
                "id": sid, "property": pid, "written_by": "independent sub-agent given only the property text and a scratch worktree",
                "applies_to_repo_commit": head,
                "needs_to_manifest": needs,
                "confirmed": {
                    "baseline_cmd": "cd <scratch worktree> && " + " ".join(BASE), "baseline_passed_with_change": passed,
                    "demo_cmd": "PYTHONPATH=/tmp/shim:<scratch worktree> <interpreter> demo.py",
                    "demo_exit_without_change": {k: v[0] for k, v in clean.items()},
                    "demo_exit_with_change": {k: v[0] for k, v in mutated.items()},
                    "discriminating_interpreters": good,
                    "failure_tail": {k: mutated[k][1][-200:] for k in good[:1]},
                },
            }
            json.dump(meta, open(f"{d}/meta.json", "w"), indent=1)


if __name__ == "__main__":
    main()
