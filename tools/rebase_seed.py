#!/usr/bin/env python3
"""
Re-apply a seeded change onto the current /repo tree when its patch no longer applies (a later `fix:` commit touched the same lines):
three-way merge per file (base = /repo at the commit the seed was written against, theirs = base + patch, ours = /repo HEAD), then the
demonstration is re-run on the merged tree (must fail) and on the clean tree (must pass).  The sub-agent's own patch is kept as patch.orig.diff.
usage: rebase_seed.py <seed-id> ...
"""
import json, os, shutil, subprocess, sys, tempfile
V = os.path.dirname(os.path.dirname(os.path.abspath(__file__)))
INTERPS = {"3.8": "/root/.pyenv/versions/3.8.18/bin/python", "3.10": "/root/.pyenv/versions/3.10.13/bin/python", "3.7": "/root/.pyenv/versions/3.7.16/bin/python", "3.12(venv)": "/venv/bin/python"}


def sh(cmd, cwd=None, env=None):
    return subprocess.run(cmd, cwd=cwd, capture_output=True, text=True, env=env)


def main():
    head = sh(["git", "-C", "/repo", "rev-parse", "--short", "HEAD"]).stdout.strip()
    for sid in sys.argv[1:]:
        d = os.path.join(V, "seeded", sid)
        meta = json.load(open(os.path.join(d, "meta.json")))
        base_commit = meta["applies_to_repo_commit"]
        orig = os.path.join(d, "patch.orig.diff")
        if not os.path.exists(orig):
            shutil.copy(os.path.join(d, "patch.diff"), orig)
        tmp = tempfile.mkdtemp(prefix="verif_rb_")
        try:
            for side in ("base", "theirs", "ours", "merged"):
                os.makedirs(os.path.join(tmp, side))
            sh(["git", "-C", "/repo", "archive", "--format=tar", "-o", os.path.join(tmp, "base.tar"), base_commit, "code_data"])
            for side in ("base", "theirs"):
                sh(["tar", "-xf", os.path.join(tmp, "base.tar"), "-C", os.path.join(tmp, side)])
            sh(["git", "-C", "/repo", "archive", "--format=tar", "-o", os.path.join(tmp, "ours.tar"), "HEAD", "code_data"])
            for side in ("ours", "merged"):
                sh(["tar", "-xf", os.path.join(tmp, "ours.tar"), "-C", os.path.join(tmp, side)])
            r = sh(["patch", "-p1", "-s", "-i", orig], cwd=os.path.join(tmp, "theirs"))
            if r.returncode != 0:
                print(sid, "original patch does not apply to its own base", base_commit, r.stdout[:200])
                continue
            conflict = False
            for root, _, files in os.walk(os.path.join(tmp, "theirs", "code_data")):
                for fn in files:
                    rel = os.path.relpath(os.path.join(root, fn), os.path.join(tmp, "theirs"))
                    b, t, o = (os.path.join(tmp, s, rel) for s in ("base", "theirs", "ours"))
                    if not os.path.exists(b):
                        shutil.copy(t, os.path.join(tmp, "merged", rel))
                        continue
                    if open(b, "rb").read() == open(t, "rb").read():
                        continue
                    m = sh(["git", "merge-file", "-p", o, b, t])
                    if m.returncode != 0:
                        conflict = True
                        print(sid, "CONFLICT in", rel)
                    open(os.path.join(tmp, "merged", rel), "w").write(m.stdout)
            if conflict:
                continue
            diff = sh(["diff", "-ruN", "ours/code_data", "merged/code_data"], cwd=tmp).stdout.replace("diff -ruN ours/", "diff --git a/").replace("--- ours/", "--- a/").replace("+++ merged/", "+++ b/")
            res = {}
            for k, interp in INTERPS.items():
                env = dict(os.environ)
                rc = {}
                for side in ("ours", "merged"):
                    env["PYTHONPATH"] = f"/tmp/shim:{os.path.join(tmp, side)}"
                    try:
                        rc[side] = subprocess.run([interp, os.path.join(d, "demo.py")], cwd=os.path.join(tmp, side), capture_output=True, text=True, env=env, timeout=600).returncode
                    except subprocess.TimeoutExpired:
                        rc[side] = 124
                res[k] = rc
            good = [k for k, rc in res.items() if rc["ours"] == 0 and rc["merged"] != 0]
            base = sh(["/venv/bin/python", "-m", "pytest", "-q", "-p", "no:cacheprovider", "code_data/_flags_data_test.py", "code_data/_line_mapping_test.py"], cwd=os.path.join(tmp, "merged"))
            passed = "30 passed" in base.stdout
            print(sid, "REBASED" if good and passed else "NOT CONFIRMED", "discriminates on", good, "baseline 30 passed:", passed, res if not good else "")
            if good and passed:
                open(os.path.join(d, "patch.diff"), "w").write(diff)
                meta["rebased"] = (f"patch.diff is the sub-agent's change merged (git merge-file, no conflict) onto /repo {head}; its own patch, written against {base_commit}, is kept as "
                                   f"patch.orig.diff; the demonstration was re-run: passes on the clean tree, fails on the merged tree on {good}; baseline tests 30 passed")
                meta["applies_to_repo_commit"] = head
                json.dump(meta, open(os.path.join(d, "meta.json"), "w"), indent=1)
        finally:
            shutil.rmtree(tmp, ignore_errors=True)


if __name__ == "__main__":
    main()
