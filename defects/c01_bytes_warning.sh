# run with: PYTHONPATH=/tmp/shim:/repo <python3.7-3.10> -bb -c "..."; failed with BytesWarning before the fix
python -bb -c "from code_data import CodeData; c=compile(\"x='a'; y=b'a'\",'f','exec'); assert CodeData.from_code(c).to_code()==c"
