# Run on any of 3.7.16 / 3.8.18 / 3.9.18 / 3.10.13 (PYTHONPATH=/tmp/shim:/tmp/hunt2_C03)
# Hand edit of decoded data: a loop whose FOR_ITER was compiled with one EXTENDED_ARG is decoded
# with _n_args_override=2.  Insert 70000 NOPs into the loop body (public fields only): the jump
# now needs 3 code units, but to_code() keeps 2 and silently cuts the operand, so FOR_ITER lands
# in the middle of the body instead of on the first instruction of its target block.
import dis
from dataclasses import replace
from code_data import CodeData, Instruction, Jump

src = "def f(x):\n  for i in x:\n" + "    a = i\n" * 300 + "  return 1\n"
ns = {}; exec(src, ns)
data = CodeData.from_code(ns["f"].__code__)

(bi, ii, jump), = [(bi, ii, i) for bi, b in enumerate(data.blocks) for ii, i in enumerate(b) if i.name == "FOR_ITER"]
assert jump._n_args_override == 2 and isinstance(jump.arg, Jump)
nops = tuple(Instruction("NOP", line_number=jump.line_number) for _ in range(70000))
blocks = list(data.blocks)
blocks[bi] = blocks[bi][: ii + 1] + nops + blocks[bi][ii + 1:]
edited = replace(data, blocks=tuple(blocks))

code = edited.to_code()                      # does not raise
ins = [i for i in dis.get_instructions(code) if i.opname != "EXTENDED_ARG"]
flat = [(b, k) for b, blk in enumerate(edited.blocks) for k in range(len(blk))]
assert len(ins) == len(flat)
start = {}
for (b, k), i in zip(flat, ins):
    if k == 0:
        start[b] = i.offset
for_iter = next(i for i in ins if i.opname == "FOR_ITER")
print("FOR_ITER jumps to", for_iter.argval, "- its target block", jump.arg.target, "starts at", start[jump.arg.target])
assert for_iter.argval == start[jump.arg.target], "jump does not land on the first instruction of its target block"
