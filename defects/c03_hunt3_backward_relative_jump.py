# Run on 3.7.16 / 3.8.18 / 3.9.18 / 3.10.13 (PYTHONPATH=/tmp/shim:/tmp/hunt3_C03)
# A hand-built relative Jump to an EARLIER block is accepted silently by to_code(); dis reads the
# jump as going ~4 billion bytes forward, not to the first instruction of the target block.
import dis
from code_data import CodeData, Instruction, Jump

I = lambda n, a=None: Instruction(n, a, line_number=1) if a is not None else Instruction(n, line_number=1)
cd = CodeData(
    (
        (I("NOP"),),
        (I("NOP"), I("JUMP_FORWARD", Jump(1, relative=True)), I("JUMP_ABSOLUTE", Jump(0))),
    ),
    "f.py", 1, "m", 1,
)
code = cd.to_code()  # no error
ins = [i for i in dis.get_instructions(code) if i.opname != "EXTENDED_ARG"]
jump = ins[2]
block1_start = ins[1].offset
print("dis:", jump.opname, jump.arg, "->", jump.argval, "; block 1 starts at", block1_start)
assert jump.argval == block1_start, "dis does not see the jump land on block 1"
