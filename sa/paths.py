"""
Structured path walker: enumerates the control-flow paths of a function body
(If / For / While / Try / With / Assert / Return / Raise / Break / Continue)
while a rule-supplied visitor threads an abstract state along each path.

  visitor.stmt(st, state)            -> new state for a simple statement
  visitor.branch(test, state)        -> (state_if_true | None, state_if_false | None)
  visitor.loop_iter(st, state)       -> state at loop entry (For target binding)

States must be hashable; loops are iterated until the set of states at the head
is stable.  Outcomes: ('fall'|'return'|'raise'|'break'|'continue', state, node).
"""
from __future__ import annotations

import ast
from typing import List, Tuple

MAX_STATES = 4096


class Visitor:
    def stmt(self, st, state):
        return state

    def branch(self, test, state):
        return state, state

    def loop_iter(self, st, state):
        return state

    def assert_(self, st, state):
        t, f = self.branch(st.test, state)
        return t, f


def walk(stmts, state, v: Visitor) -> List[Tuple[str, object, ast.AST]]:
    live = [state]
    out: List[Tuple[str, object, ast.AST]] = []
    for st in stmts:
        nxt = []
        for s in live:
            for kind, s2, node in _step(st, s, v):
                if kind == "fall":
                    if s2 not in nxt:
                        nxt.append(s2)
                else:
                    out.append((kind, s2, node))
        live = nxt
        if len(live) > MAX_STATES:
            raise RuntimeError("path explosion")
        if not live:
            break
    last = stmts[-1] if stmts else None
    for s in live:
        out.append(("fall", s, last))
    return out


def _step(st, s, v: Visitor):
    if isinstance(st, ast.Return):
        return [("return", v.stmt(st, s), st)]
    if isinstance(st, ast.Raise):
        return [("raise", v.stmt(st, s), st)]
    if isinstance(st, ast.Break):
        return [("break", s, st)]
    if isinstance(st, ast.Continue):
        return [("continue", s, st)]
    if isinstance(st, ast.Assert):
        t, f = v.assert_(st, s)
        res = []
        if t is not None:
            res.append(("fall", t, st))
        if f is not None:
            res.append(("raise", f, st))
        return res
    if isinstance(st, ast.If):
        t, f = v.branch(st.test, s)
        res = []
        if t is not None:
            res += walk(st.body, t, v) if st.body else [("fall", t, st)]
        if f is not None:
            res += walk(st.orelse, f, v) if st.orelse else [("fall", f, st)]
        return res
    if isinstance(st, (ast.For, ast.While)):
        heads = [s]
        seen = {s}
        exits = []
        res = []
        i = 0
        while i < len(heads):
            h = heads[i]
            i += 1
            if isinstance(st, ast.While):
                t, f = v.branch(st.test, h)
            else:
                t, f = v.loop_iter(st, h), h
            if f is not None and f not in exits:
                exits.append(f)
            if t is None:
                continue
            for kind, s2, node in walk(st.body, t, v):
                if kind in ("fall", "continue"):
                    if s2 not in seen:
                        seen.add(s2)
                        heads.append(s2)
                        if len(heads) > MAX_STATES:
                            raise RuntimeError("loop state explosion")
                elif kind == "break":
                    res.append(("fall", s2, node))
                else:
                    res.append((kind, s2, node))
        for e in exits:
            if st.orelse:
                res += walk(st.orelse, e, v)
            else:
                res.append(("fall", e, st))
        return res
    if isinstance(st, ast.Try):
        res = []
        body = walk(st.body, s, v)
        for kind, s2, node in body:
            if kind == "fall":
                res += walk(st.orelse, s2, v) if st.orelse else [("fall", s2, node)]
            elif kind == "raise" and st.handlers:
                for h in st.handlers:
                    res += walk(h.body, s2, v)
            else:
                res.append((kind, s2, node))
        for h in st.handlers:
            res += walk(h.body, s, v)
        if st.finalbody:
            res2 = []
            for kind, s2, node in res:
                for k3, s3, n3 in walk(st.finalbody, s2, v):
                    res2.append((kind if k3 == "fall" else k3, s3, node if k3 == "fall" else n3))
            res = res2
        return res
    if isinstance(st, ast.With):
        return walk(st.body, v.stmt(st, s), v)
    r = v.stmt(st, s)
    if isinstance(r, list):  # a visitor may fork (state, kind) pairs: [(kind, state)]
        return [(k, s2, st) for k, s2 in r]
    return [("fall", r, st)]
