"""
Source model of the analysed package: modules, imports, functions, classes,
data-class fields.  Built with `ast` only; nothing from /repo is imported.
"""
from __future__ import annotations

import ast
import os
from dataclasses import dataclass, field
from typing import Dict, Iterator, List, Optional, Tuple


class AnalysisError(Exception):
    """An anchor vanished / an idiom is not recognised: exit 2, never a VIOLATION."""


REPO = os.environ.get("VERIF_REPO", "/repo")
PACKAGE = "code_data"


def is_test_module(fname: str) -> bool:
    return fname.endswith("_test.py") or fname.startswith("_test")


@dataclass
class FieldInfo:
    name: str
    cls: "ClassInfo"
    annotation: Optional[ast.expr]
    default: Optional[ast.expr]  # default=...  or plain `= value`
    default_factory: Optional[ast.expr]
    metadata: Optional[ast.expr]
    node: ast.AST

    @property
    def private(self) -> bool:
        return self.name.startswith("_")

    @property
    def has_default(self) -> bool:
        return self.default is not None or self.default_factory is not None

    def __hash__(self):
        return hash((self.cls.qual, self.name))

    def __eq__(self, o):
        return isinstance(o, FieldInfo) and (self.cls.qual, self.name) == (o.cls.qual, o.name)


@dataclass
class ClassInfo:
    name: str
    module: "Module"
    node: ast.ClassDef
    bases: List[ast.expr]
    is_dataclass: bool
    dc_args: Dict[str, object]
    fields: List[FieldInfo] = field(default_factory=list)
    methods: Dict[str, "FunctionInfo"] = field(default_factory=dict)

    @property
    def qual(self) -> str:
        return f"{self.module.name}::{self.name}"

    def field(self, name: str) -> Optional[FieldInfo]:
        for f in self.fields:
            if f.name == name:
                return f
        return None

    def __hash__(self):
        return hash(self.qual)

    def __eq__(self, o):
        return isinstance(o, ClassInfo) and o.qual == self.qual

    def __repr__(self):
        return f"<class {self.qual}>"


@dataclass
class FunctionInfo:
    name: str
    module: "Module"
    node: ast.AST  # FunctionDef | Lambda
    cls: Optional[ClassInfo] = None
    parent: Optional["FunctionInfo"] = None
    decorators: Tuple[str, ...] = ()
    local_imports: Dict[str, Tuple[str, Optional[str]]] = field(default_factory=dict)
    nested: Dict[str, "FunctionInfo"] = field(default_factory=dict)

    @property
    def qual(self) -> str:
        if self.parent is not None:
            return f"{self.parent.qual}.<locals>.{self.name}"
        if self.cls is not None:
            return f"{self.module.name}::{self.cls.name}.{self.name}"
        return f"{self.module.name}::{self.name}"

    @property
    def params(self) -> List[str]:
        a = self.node.args
        return [x.arg for x in (a.posonlyargs + a.args)] + (
            [a.vararg.arg] if a.vararg else []
        ) + [x.arg for x in a.kwonlyargs] + ([a.kwarg.arg] if a.kwarg else [])

    @property
    def is_classmethod(self) -> bool:
        return "classmethod" in self.decorators

    @property
    def is_property(self) -> bool:
        return "property" in self.decorators

    @property
    def is_staticmethod(self) -> bool:
        return "staticmethod" in self.decorators

    def __hash__(self):
        return hash(self.qual)

    def __eq__(self, o):
        return isinstance(o, FunctionInfo) and o.qual == self.qual

    def __repr__(self):
        return f"<function {self.qual}>"


@dataclass
class Module:
    name: str  # e.g. code_data._blocks ; package itself is `code_data`
    path: str
    tree: ast.Module
    source: str
    is_test: bool
    imports: Dict[str, Tuple[str, Optional[str]]] = field(default_factory=dict)
    functions: Dict[str, FunctionInfo] = field(default_factory=dict)
    classes: Dict[str, ClassInfo] = field(default_factory=dict)
    assigns: Dict[str, List[ast.expr]] = field(default_factory=dict)  # module-level NAME = expr
    annotations: Dict[str, ast.expr] = field(default_factory=dict)

    @property
    def relpath(self) -> str:
        return os.path.relpath(self.path, REPO)

    def __hash__(self):
        return hash(self.name)

    def __eq__(self, o):
        return isinstance(o, Module) and o.name == self.name


def _decorator_name(d: ast.expr) -> str:
    if isinstance(d, ast.Call):
        d = d.func
    if isinstance(d, ast.Attribute):
        return d.attr
    if isinstance(d, ast.Name):
        return d.id
    return ast.dump(d)


def _resolve_relative(modname: str, is_pkg: bool, level: int, target: Optional[str]) -> str:
    parts = modname.split(".")
    if not is_pkg:
        parts = parts[:-1]
    if level > 1:
        parts = parts[: len(parts) - (level - 1)]
    base = ".".join(parts)
    if target:
        return f"{base}.{target}" if base else target
    return base


def _collect_imports(stmts, modname, is_pkg, out, recursive_into_blocks=True):
    for st in stmts:
        if isinstance(st, ast.Import):
            for a in st.names:
                local = a.asname or a.name.split(".")[0]
                out[local] = (a.name if a.asname else a.name.split(".")[0], None)
        elif isinstance(st, ast.ImportFrom):
            src = (
                _resolve_relative(modname, is_pkg, st.level, st.module)
                if st.level
                else (st.module or "")
            )
            for a in st.names:
                out[a.asname or a.name] = (src, a.name)
        elif recursive_into_blocks and isinstance(st, (ast.If, ast.Try)):
            for blk in _sub_blocks(st):
                _collect_imports(blk, modname, is_pkg, out)


def _sub_blocks(st):
    if isinstance(st, ast.If):
        return [st.body, st.orelse]
    if isinstance(st, ast.Try):
        return [st.body, st.orelse, st.finalbody] + [h.body for h in st.handlers]
    return []


class Program:
    def __init__(self, repo: str = REPO, package: str = PACKAGE):
        self.repo = repo
        self.package = package
        self.modules: Dict[str, Module] = {}
        pkgdir = os.path.join(repo, package)
        if not os.path.isdir(pkgdir):
            raise AnalysisError(f"package directory {pkgdir} not found")
        for fname in sorted(os.listdir(pkgdir)):
            if not fname.endswith(".py"):
                continue
            path = os.path.join(pkgdir, fname)
            modname = package if fname == "__init__.py" else f"{package}.{fname[:-3]}"
            with open(path, encoding="utf-8") as f:
                src = f.read()
            try:
                tree = ast.parse(src, filename=path)
            except SyntaxError as e:
                raise AnalysisError(f"cannot parse {path}: {e}")
            m = Module(modname, path, tree, src, is_test_module(fname))
            self.modules[modname] = m
            self._index_module(m, is_pkg=(fname == "__init__.py"))

    # ------------------------------------------------------------------ build
    def _index_module(self, m: Module, is_pkg: bool):
        _collect_imports(m.tree.body, m.name, is_pkg, m.imports)
        m.is_pkg = is_pkg
        for st in self._iter_toplevel(m.tree.body):
            if isinstance(st, ast.FunctionDef):
                m.functions[st.name] = self._function(st, m, None, None)
            elif isinstance(st, ast.ClassDef):
                m.classes[st.name] = self._class(st, m)
            elif isinstance(st, ast.Assign):
                for t in st.targets:
                    if isinstance(t, ast.Name):
                        m.assigns.setdefault(t.id, []).append(st.value)
                    elif isinstance(t, ast.Tuple) and isinstance(st.value, ast.Tuple) and len(
                        t.elts
                    ) == len(st.value.elts):
                        for tt, vv in zip(t.elts, st.value.elts):
                            if isinstance(tt, ast.Name):
                                m.assigns.setdefault(tt.id, []).append(vv)
                    elif isinstance(t, ast.Tuple):
                        for i, tt in enumerate(t.elts):
                            if isinstance(tt, ast.Name):  # NAME_i = (whole expression)[i]
                                m.assigns.setdefault(tt.id, []).append(
                                    ast.copy_location(ast.Subscript(st.value, ast.Constant(i), ast.Load()), st.value))
            elif isinstance(st, ast.AnnAssign) and isinstance(st.target, ast.Name):
                m.annotations[st.target.id] = st.annotation
                if st.value is not None:
                    m.assigns.setdefault(st.target.id, []).append(st.value)

    def _iter_toplevel(self, stmts) -> Iterator[ast.stmt]:
        for st in stmts:
            yield st
            for blk in _sub_blocks(st):
                yield from self._iter_toplevel(blk)

    def _function(self, node, m, cls, parent) -> FunctionInfo:
        fi = FunctionInfo(
            node.name,
            m,
            node,
            cls,
            parent,
            tuple(_decorator_name(d) for d in node.decorator_list),
        )
        # local imports and nested functions
        for sub in ast.walk(node):
            if isinstance(sub, (ast.Import, ast.ImportFrom)):
                _collect_imports([sub], m.name, m.is_pkg, fi.local_imports, False)
        for st in self._iter_body_defs(node.body):
            if isinstance(st, ast.FunctionDef):
                fi.nested[st.name] = self._function(st, m, None, fi)
        return fi

    def _iter_body_defs(self, stmts):
        for st in stmts:
            if isinstance(st, ast.FunctionDef):
                yield st
                continue
            for fld in ("body", "orelse", "finalbody"):
                sub = getattr(st, fld, None)
                if isinstance(sub, list):
                    yield from self._iter_body_defs(sub)
            if isinstance(st, ast.Try):
                for h in st.handlers:
                    yield from self._iter_body_defs(h.body)

    def _class(self, node: ast.ClassDef, m: Module) -> ClassInfo:
        is_dc = False
        dc_args: Dict[str, object] = {}
        for d in node.decorator_list:
            if _decorator_name(d) == "dataclass":
                is_dc = True
                if isinstance(d, ast.Call):
                    for kw in d.keywords:
                        try:
                            dc_args[kw.arg] = ast.literal_eval(kw.value)
                        except Exception:
                            dc_args[kw.arg] = ast.dump(kw.value)
        ci = ClassInfo(node.name, m, node, list(node.bases), is_dc, dc_args)
        for st in node.body:
            if isinstance(st, ast.AnnAssign) and isinstance(st.target, ast.Name):
                ann = st.annotation
                if _is_classvar(ann):
                    continue
                default = None
                factory = None
                metadata = None
                flags = {}
                v = st.value
                if isinstance(v, ast.Call) and _call_name(v) == "field":
                    for kw in v.keywords:
                        if kw.arg == "default":
                            default = kw.value
                        elif kw.arg == "default_factory":
                            factory = kw.value
                        elif kw.arg == "metadata":
                            metadata = kw.value
                        elif kw.arg in ("compare", "hash", "init", "repr"):
                            try:
                                flags[kw.arg] = ast.literal_eval(kw.value)
                            except Exception:
                                flags[kw.arg] = None
                elif v is not None:
                    default = v
                fi_ = FieldInfo(st.target.id, ci, ann, default, factory, metadata, st)
                fi_.flags = flags
                ci.fields.append(fi_)
            elif isinstance(st, ast.FunctionDef):
                ci.methods[st.name] = self._function(st, m, ci, None)
        return ci

    # --------------------------------------------------------------- queries
    def module(self, name: str) -> Module:
        if name not in self.modules:
            raise AnalysisError(f"anchor module {name} not found")
        return self.modules[name]

    def lib_modules(self) -> List[Module]:
        return [m for m in self.modules.values() if not m.is_test]

    def function(self, qual: str) -> FunctionInfo:
        f = self.find_function(qual)
        if f is None:
            raise AnalysisError(f"anchor function {qual} not found")
        return f

    def find_function(self, qual: str) -> Optional[FunctionInfo]:
        modname, _, rest = qual.partition("::")
        m = self.modules.get(modname)
        if m is None:
            return None
        parts = rest.split(".")
        if len(parts) == 1:
            return m.functions.get(parts[0])
        if len(parts) == 2 and parts[0] in m.classes:
            return m.classes[parts[0]].methods.get(parts[1])
        return None

    def cls(self, qual: str) -> ClassInfo:
        modname, _, name = qual.partition("::")
        m = self.modules.get(modname)
        if m is None or name not in m.classes:
            raise AnalysisError(f"anchor class {qual} not found")
        return m.classes[name]

    def all_functions(self, include_tests=False) -> Iterator[FunctionInfo]:
        def rec(f):
            yield f
            for n in f.nested.values():
                yield from rec(n)

        for m in self.modules.values():
            if m.is_test and not include_tests:
                continue
            for f in m.functions.values():
                yield from rec(f)
            for c in m.classes.values():
                for f in c.methods.values():
                    yield from rec(f)

    def all_classes(self, include_tests=False) -> Iterator[ClassInfo]:
        for m in self.modules.values():
            if m.is_test and not include_tests:
                continue
            yield from m.classes.values()

    def dataclasses(self) -> List[ClassInfo]:
        return [c for c in self.all_classes() if c.is_dataclass]

    def resolve_global(self, m: Module, name: str, fn: Optional[FunctionInfo] = None, _depth=0):
        """
        Resolve a global/imported name seen from module `m` (and function-local
        imports of `fn`).  Returns one of
          ('func', FunctionInfo) ('class', ClassInfo) ('var', Module, name)
          ('module', dotted) ('ext', dotted) or None.
        """
        if _depth > 8:
            return None
        f = fn
        while f is not None:
            if name in f.local_imports:
                return self._resolve_import(f.local_imports[name], _depth)
            f = f.parent
        if name in m.functions:
            return ("func", m.functions[name])
        if name in m.classes:
            return ("class", m.classes[name])
        if name in m.assigns or name in m.annotations:
            return ("var", m, name)
        if name in m.imports:
            return self._resolve_import(m.imports[name], _depth)
        return None

    def _resolve_import(self, imp, _depth):
        src, sym = imp
        if sym is None:
            if src in self.modules:
                return ("module", src)
            return ("ext", src)
        if src in self.modules:
            # could be a submodule: from . import _blocks
            sub = f"{src}.{sym}"
            tm = self.modules[src]
            r = self.resolve_global(tm, sym, None, _depth + 1)
            if r is not None:
                return r
            if sub in self.modules:
                return ("module", sub)
            return None
        sub = f"{src}.{sym}" if src else sym
        if sub in self.modules:
            return ("module", sub)
        return ("ext", sub)


def _call_name(c: ast.Call) -> str:
    f = c.func
    if isinstance(f, ast.Name):
        return f.id
    if isinstance(f, ast.Attribute):
        return f.attr
    return ""


def _is_classvar(ann) -> bool:
    s = ann
    if isinstance(s, ast.Subscript):
        s = s.value
    return (isinstance(s, ast.Name) and s.id == "ClassVar") or (
        isinstance(s, ast.Attribute) and s.attr == "ClassVar"
    )


def loc(m: Module, node: ast.AST) -> str:
    return f"{m.relpath}:{getattr(node, 'lineno', 0)}"


def norm_src(node: ast.AST) -> str:
    """Normalised source of a construct: stable under reformatting."""
    try:
        s = ast.unparse(node)
    except Exception:
        s = ast.dump(node)
    s = " ".join(s.split())
    return s if len(s) <= 160 else s[:157] + "..."
