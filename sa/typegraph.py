"""
Type graph: resolves annotation ASTs through the package's aliases into a small
algebra of types, and answers reachability / immutability queries.

Type terms (hashable tuples):
  ('class', qual)            package class
  ('leaf', name)             int str bool float complex bytes None ellipsis object
  ('tuple', T)               homogeneous variadic tuple
  ('tuplefix', (T, ...))     fixed tuple
  ('frozenset', T)
  ('list', T) ('set', T) ('dict', K, V)     mutable containers
  ('union', (T, ...))
  ('literal', (values...))
  ('ext', dotted)            external class (CodeType, OrderedDict, ...)
  ('typevar', name)
  ('rec', alias)             back-reference to a recursive alias
  ('unknown', text)
"""
from __future__ import annotations

import ast
from typing import Dict, List, Optional, Set, Tuple

from .model import AnalysisError, ClassInfo, FieldInfo, Module, Program

LEAVES = {
    "int": "int",
    "str": "str",
    "bool": "bool",
    "float": "float",
    "complex": "complex",
    "bytes": "bytes",
    "object": "object",
    "None": "None",
    "NoneType": "None",
    "Any": "object",
    "Hashable": "object",
}

_GENERIC_TUPLE = {"Tuple", "tuple"}
_GENERIC_FROZENSET = {"FrozenSet", "frozenset"}
_GENERIC_LIST = {"List", "list", "Sequence", "Iterable", "Iterator", "MutableSequence"}
_GENERIC_SET = {"Set", "set", "MutableSet"}
_GENERIC_DICT = {"Dict", "dict", "Mapping", "MutableMapping", "OrderedDict", "DefaultDict"}


class TypeGraph:
    def __init__(self, prog: Program):
        self.prog = prog
        self._alias_cache: Dict[Tuple[str, str], tuple] = {}

    # ----------------------------------------------------------- resolution
    def resolve(self, ann: Optional[ast.expr], m: Module, _stack: Tuple[str, ...] = ()) -> tuple:
        if ann is None:
            return ("leaf", "object")
        if isinstance(ann, ast.Constant):
            if ann.value is None:
                return ("leaf", "None")
            if ann.value is Ellipsis:
                return ("leaf", "ellipsis")
            if isinstance(ann.value, str):
                try:
                    sub = ast.parse(ann.value, mode="eval").body
                except SyntaxError:
                    return ("unknown", ann.value)
                return self.resolve(sub, m, _stack)
            return ("literal", (ann.value,))
        if isinstance(ann, ast.Name):
            return self._resolve_name(ann.id, m, _stack)
        if isinstance(ann, ast.Attribute):
            # typing.Optional, t.Tuple ... or module.Class
            return self._resolve_name(ann.attr, m, _stack)
        if isinstance(ann, ast.BinOp) and isinstance(ann.op, ast.BitOr):
            return self._union([self.resolve(ann.left, m, _stack), self.resolve(ann.right, m, _stack)])
        if isinstance(ann, ast.Subscript):
            head = ann.value
            hname = head.id if isinstance(head, ast.Name) else getattr(head, "attr", "")
            sl = ann.slice
            if isinstance(sl, ast.Index):  # py<3.9 trees
                sl = sl.value  # type: ignore
            args = list(sl.elts) if isinstance(sl, ast.Tuple) else [sl]
            if hname == "Optional":
                return self._union([self.resolve(args[0], m, _stack), ("leaf", "None")])
            if hname == "Union":
                return self._union([self.resolve(a, m, _stack) for a in args])
            if hname == "Literal":
                vals = []
                for a in args:
                    if isinstance(a, ast.Constant):
                        vals.append(a.value)
                    else:
                        return ("unknown", ast.dump(ann))
                return ("literal", tuple(vals))
            if hname in _GENERIC_TUPLE:
                if len(args) == 2 and isinstance(args[1], ast.Constant) and args[1].value is Ellipsis:
                    return ("tuple", self.resolve(args[0], m, _stack))
                return ("tuplefix", tuple(self.resolve(a, m, _stack) for a in args))
            if hname in _GENERIC_FROZENSET:
                return ("frozenset", self.resolve(args[0], m, _stack))
            if hname in _GENERIC_LIST:
                return ("list", self.resolve(args[0], m, _stack))
            if hname in _GENERIC_SET:
                return ("set", self.resolve(args[0], m, _stack))
            if hname in _GENERIC_DICT:
                if len(args) == 2:
                    return ("dict", self.resolve(args[0], m, _stack), self.resolve(args[1], m, _stack))
                return ("dict", ("leaf", "object"), ("leaf", "object"))
            if hname in ("Callable", "Type", "Generic"):
                return ("ext", hname)
            base = self.resolve(head, m, _stack)
            return base
        return ("unknown", ast.dump(ann))

    def _resolve_name(self, name: str, m: Module, _stack) -> tuple:
        if name in LEAVES:
            return ("leaf", LEAVES[name])
        if name in _GENERIC_TUPLE:
            return ("tuple", ("leaf", "object"))
        if name in _GENERIC_FROZENSET:
            return ("frozenset", ("leaf", "object"))
        if name in _GENERIC_LIST:
            return ("list", ("leaf", "object"))
        if name in _GENERIC_SET:
            return ("set", ("leaf", "object"))
        if name in _GENERIC_DICT:
            return ("dict", ("leaf", "object"), ("leaf", "object"))
        r = self.prog.resolve_global(m, name)
        if r is None:
            return ("unknown", name)
        if r[0] == "class":
            return ("class", r[1].qual)
        if r[0] == "var":
            tm, nm = r[1], r[2]
            key = (tm.name, nm)
            if key in _stack:
                return ("rec", f"{tm.name}::{nm}")
            if key in self._alias_cache:
                return self._alias_cache[key]
            exprs = tm.assigns.get(nm, [])
            if len(exprs) != 1:
                return ("unknown", name)
            e = exprs[0]
            if isinstance(e, ast.Call) and getattr(e.func, "id", "") == "TypeVar":
                t = ("typevar", nm)
            else:
                t = self.resolve(e, tm, _stack + (key,))
            self._alias_cache[key] = t
            return t
        if r[0] == "ext":
            return ("ext", r[1])
        return ("unknown", name)

    def _union(self, ts: List[tuple]) -> tuple:
        flat: List[tuple] = []
        for t in ts:
            if t[0] == "union":
                for s in t[1]:
                    if s not in flat:
                        flat.append(s)
            elif t not in flat:
                flat.append(t)
        if len(flat) == 1:
            return flat[0]
        return ("union", tuple(flat))

    def unfold_rec(self, t: tuple) -> tuple:
        if t[0] == "rec":
            modname, _, nm = t[1].partition("::")
            return self._alias_cache.get((modname, nm), ("unknown", t[1]))
        return t

    # -------------------------------------------------------------- queries
    def field_type(self, f: FieldInfo) -> tuple:
        return self.resolve(f.annotation, f.cls.module)

    def classes_in(self, t: tuple, _seen=None) -> Set[str]:
        """Package classes directly mentioned in t (not through class fields)."""
        out: Set[str] = set()
        self._walk(t, lambda x: out.add(x[1]) if x[0] == "class" else None, set())
        return out

    def _walk(self, t: tuple, fn, seen):
        if t in seen:
            return
        seen.add(t)
        fn(t)
        k = t[0]
        if k in ("tuple", "frozenset", "list", "set"):
            self._walk(t[1], fn, seen)
        elif k == "dict":
            self._walk(t[1], fn, seen)
            self._walk(t[2], fn, seen)
        elif k in ("tuplefix", "union"):
            for s in t[1]:
                self._walk(s, fn, seen)
        elif k == "rec":
            self._walk(self.unfold_rec(t), fn, seen)

    def leaves_in(self, t: tuple) -> Set[tuple]:
        out: Set[tuple] = set()
        self._walk(t, lambda x: out.add(x) if x[0] in ("leaf", "literal", "class", "ext", "unknown", "typevar") else None, set())
        return out

    def cls(self, qual: str) -> ClassInfo:
        return self.prog.cls(qual)

    def reaches(self, t: tuple, target_qual: str, _seen: Optional[Set[str]] = None) -> bool:
        """Can a value of type t contain (at any depth) an instance of target class?"""
        seen = _seen if _seen is not None else set()
        for cq in self.classes_in(t):
            if cq == target_qual:
                return True
            if cq in seen:
                continue
            seen.add(cq)
            for f in self.cls(cq).fields:
                if self.reaches(self.field_type(f), target_qual, seen):
                    return True
        return False

    def reachable_classes(self, root_qual: str) -> List[str]:
        order: List[str] = []
        todo = [root_qual]
        while todo:
            q = todo.pop(0)
            if q in order:
                continue
            order.append(q)
            for f in self.cls(q).fields:
                for cq in sorted(self.classes_in(self.field_type(f))):
                    if cq not in order:
                        todo.append(cq)
        return order

    def mutable_parts(self, t: tuple) -> List[tuple]:
        """Sub-terms of t that denote mutable or unknown-mutability types."""
        bad: List[tuple] = []

        def fn(x):
            if x[0] in ("list", "set", "dict", "unknown"):
                bad.append(x)
            elif x[0] == "ext":
                bad.append(x)
            elif x[0] == "leaf" and x[1] == "object":
                bad.append(x)

        self._walk(t, fn, set())
        return bad

    def show(self, t: tuple) -> str:
        k = t[0]
        if k == "class":
            return t[1].split("::")[1]
        if k == "leaf":
            return t[1]
        if k in ("tuple", "frozenset", "list", "set"):
            return f"{k}[{self.show(t[1])}{', ...' if k == 'tuple' else ''}]"
        if k == "dict":
            return f"dict[{self.show(t[1])}, {self.show(t[2])}]"
        if k == "tuplefix":
            return "tuple[" + ", ".join(self.show(s) for s in t[1]) + "]"
        if k == "union":
            return " | ".join(self.show(s) for s in t[1])
        if k == "literal":
            return "Literal[" + ", ".join(repr(v) for v in t[1]) + "]"
        if k == "rec":
            return t[1].split("::")[1]
        return f"{k}:{t[1]}"
