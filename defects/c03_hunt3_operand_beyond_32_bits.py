# Run on 3.7.16 / 3.8.18 / 3.9.18 / 3.10.13 (PYTHONPATH=/tmp/shim:/tmp/hunt3_C03)
# An integer operand that needs more than 4 code units (>= 2**32) is truncated silently:
# to_code() emits the low 32 bits instead of raising.
import dis
from code_data import CodeData, Instruction

arg = 2**32 + 5
cd = CodeData(
    ((Instruction("BUILD_TUPLE", arg, line_number=1), Instruction("RETURN_VALUE", line_number=1)),),
    "f.py", 1, "m", 1,
)
code = cd.to_code()  # no error
got = [i for i in dis.get_instructions(code) if i.opname == "BUILD_TUPLE"][0].arg
print("data says", arg, "dis says", got)
back = CodeData.from_code(code)
print("decoded again:", back.blocks[0][0].arg)
assert got == arg, "operand changed silently"
