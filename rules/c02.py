"""C02 - decoded instructions, operands, jumps and lines match CPython's own reading (DESIGN 5, R02.1-R02.6)."""
from __future__ import annotations

import ast
import copy
import itertools
from typing import Dict, List, Optional, Set, Tuple

from sa.analysis import VERSIONS, Analysis, fmt_atom, vname
from sa.feval import FevalError, feval
from sa.model import AnalysisError, FunctionInfo, loc, norm_src

from . import c11
from .common import attr_chain, isinstance_arms, returns_of
from .encode_model import inline_locals, parent_map

# what CPython indexes for each operand category (dis._get_instructions_bytes / ceval.c)
CATEGORY_TABLE = {
    "hasname": {"co_names"},
    "haslocal": {"co_varnames"},
    "hasconst": {"co_consts"},
    "hasfree": {"co_cellvars", "co_freevars"},
    "hasjabs": set(),
    "hasjrel": set(),
}


def module_consts(an: Analysis, modname: str, V) -> Dict[str, object]:
    """Module-level constants that fold under interpreter version V."""
    m = an.prog.module(modname)
    env: Dict[str, object] = {"sys.version_info": V}
    for _ in range(3):
        for name, exprs in m.assigns.items():
            if len(exprs) == 1 and name not in env:
                try:
                    env[name] = feval(exprs[0], env)
                except Exception:
                    pass
    return env


_table_problems: Dict[Tuple, List[str]] = {}


def make_callable(an: Analysis, fn: FunctionInfo, env: dict):
    """A package function with a single return expression as a callable for feval (its parameters bound to the call's arguments)."""
    from sa.feval import callable_for_feval
    rets = [n for n in ast.walk(fn.node) if isinstance(n, ast.Return) and n.value is not None]
    if len(rets) != 1:
        return None
    a = fn.node.args

    def call(*args, **kw):
        e = dict(env)
        names = [x.arg for x in a.posonlyargs + a.args]
        for n_, v in zip(names, args):
            e[n_] = v
        if a.vararg:
            e[a.vararg.arg] = tuple(args[len(names):])
        e.update(kw)
        return feval(rets[0].value, e)
    return callable_for_feval(call)


def opcode_table(an: Analysis, f: FunctionInfo, container: ast.AST, V) -> Optional[Set[int]]:
    """The set of opcodes a container expression denotes under interpreter V (reference tables substituted for dis / opcode)."""
    ref = c11.reference(V)
    c = attr_chain(container) or ""
    last = c.split(".")[-1]
    if last.startswith("has") and last in ref:
        return set(ref[last])
    disenv = {"opmap": dict(ref["opmap"]), "opname": {v: k for k, v in ref["opmap"].items()}, "HAVE_ARGUMENT": ref["HAVE_ARGUMENT"], "EXTENDED_ARG": ref["EXTENDED_ARG"]}
    for k in ref:
        if k.startswith("has"):
            disenv[k] = list(ref[k])
    env: Dict[str, object] = {"dis": disenv, "opcode": disenv, "sys.version_info": V, "frozenset": frozenset, "set": set, "range": range,
                              "HAVE_ARGUMENT": ref["HAVE_ARGUMENT"], "EXTENDED_ARG": ref["EXTENDED_ARG"], "opmap": disenv["opmap"], "opname": disenv["opname"]}
    for k, v in disenv.items():
        env["dis." + k] = v
        env["opcode." + k] = v
    m = f.module
    for fname, g in m.functions.items():
        cb = make_callable(an, g, env)
        if cb is not None:
            env[fname] = cb
    if isinstance(container, ast.Name) and container.id in m.assigns and len(m.assigns[container.id]) == 1:
        try:
            val = feval(m.assigns[container.id][0], env)
        except Exception:
            # a table built by a comprehension over dis.opmap / dis.opname (`frozenset(op for name, op in dis.opmap.items() if name.endswith(...))`)
            from sa.feval import PureEval
            pe = PureEval(lambda name: None, extra={k: v for k, v in env.items() if "." not in k})
            pe.module_assigns = m.assigns
            pe.MAX_ITER = 512
            try:
                val = pe.ev(m.assigns[container.id][0], {})
            except Exception:
                return None
        if isinstance(val, (set, frozenset, list, tuple)) and all(isinstance(x, int) for x in val):
            return set(val)
    return None


def find_operand_decoder(an: Analysis, V) -> Tuple[FunctionInfo, List[Tuple[str, ast.If]]]:
    """The function with the `opcode in dis.hasX` chain (or equivalent hand-written opcode tables, classified by content)."""
    best = None
    ref = c11.reference(V)
    for f in an.closure("from_code", V):
        arms = []
        problems = []
        for n in ast.walk(f.node):
            if isinstance(n, ast.If) and isinstance(n.test, ast.Compare) and len(n.test.ops) == 1 and isinstance(n.test.ops[0], ast.In):
                c = attr_chain(n.test.comparators[0]) or ""
                if c.split(".")[-1].startswith("has"):
                    arms.append((c.split(".")[-1], n))
                elif isinstance(n.test.left, ast.Name) and f.params and n.test.left.id == f.params[0]:
                    tab = opcode_table(an, f, n.test.comparators[0], V)
                    if tab is None:
                        continue
                    # classify by content: the reference category it overlaps most
                    cat = max((k for k in ref if k.startswith("has") and ref[k]), key=lambda k: len(tab & set(ref[k])), default=None)
                    if cat is None or not (tab & set(ref[cat])):
                        continue
                    arms.append((cat, n))
                    opname = {v: k for k, v in ref["opmap"].items()}
                    missing = sorted(opname[o] for o in set(ref[cat]) - tab)
                    extra = sorted(opname.get(o, str(o)) for o in tab - set(ref[cat]))
                    if missing or extra:
                        problems.append(f"`{norm_src(n.test)}` stands for {cat} but under {vname(V)} it lacks {missing} and adds {extra}")
        _table_problems[(f.qual, V)] = problems
        if len(arms) >= 4 and (best is None or len(arms) > len(best[1])):
            best = (f, arms)
    if best is None:
        raise AnalysisError("operand decoder (chain of `opcode in dis.has*` tests) not found in the decode closure")
    return best


def run(an: Analysis, rep):
    rep.explanation = (
        "Decides the facts that a mirrored decoder/encoder error would corrupt while the round trip stays green: for every operand "
        "category of every interpreter version (tables parsed from each stdlib opcode.py/dis.py) the arm of the operand decoder "
        "builds a value whose payload originates in the table CPython indexes for that category; every category has an arm and the "
        "encoder a case for every operand class; jump targets are k_V*arg (absolute) and next_offset + k_V*arg (relative) with "
        "k_V from dis.py, next_offset = opcode offset + 2, first offset = opcode offset - 2*(prefixes); the encoder's multiplier "
        "satisfies k_V*m_V = 2 and relative jumps are measured from the end of the jump instruction; the cell/free split tests "
        "arg < len(cellvars) and indexes freevars with arg - len(cellvars); the line of an instruction is looked up under its "
        "first code unit; EXTENDED_ARG accumulators are reset after each instruction. R02.F folds the decoder's instruction function over "
        "witness code-unit sequences and compares with a transcription of what CPython's disassembler reports (names, operands per category, "
        "cell-before-free, jump targets and kinds, block starts, lines of first code units, unreferenced entries). That each decoded value is "
        "right for a particular program outside the witness set is not decided."
    )
    rep.rule("R02.1", "operand category -> payload table binding", 6)
    rep.rule("R02.2", "category exhaustiveness on both sides", 8)
    rep.rule("R02.3", "jump scale and offsets per interpreter", 5)
    rep.rule("R02.4", "cell/free split", 2)
    rep.rule("R02.5", "line keyed by the first code unit", 2)
    rep.rule("R02.6", "EXTENDED_ARG accumulators are reset", 2)
    from .common import purity
    rep.run(purity, an, rep, "R02.P", ["from_code"])
    rep.run(r02f, an, rep)
    rep.run(r02p, an, rep)
    from . import line_fold as _lf2
    from .common import SharedRules as _SR2l
    rep.run(_lf2.fold_rule, an, _SR2l(rep, "R02.N", "the line-table codec folded over tables written by transcriptions of CPython's assemblers (shared with C10's R10.F): 'each instruction's line_number is the line "
                                                   "CPython's line table assigns to that instruction's first code unit' - also for entries behind the last instruction"))
    from . import c04 as _c04w
    from .common import SharedRules as _SR2w, assert_guard_rule as _agr, identity_rule as _idr
    rep.run(_c04w.r04f, an, _SR2w(rep, "R02.W", "the function that builds the data from a code object, folded over witness code objects (shared with C04's R04.W): the constant an instruction loads "
                                                "is co_consts[operand] itself, type- and bit-exact (a str with a lone surrogate, bytes, -0.0, nested tuples)"))
    rep.run(_agr, an, rep, "R02.A", ["from_code"])
    rep.run(_idr, an, rep, "R02.I", ["from_code"])
    from .common import process_state_rule as _psr2
    rep.run(_psr2, an, rep, "R02.T", ["from_code"])
    interps = []
    for V in VERSIONS:
        cfg = vname(V)
        it, ret = an.interp("from_code", V)
        interps.append(it)
        ref = c11.reference(V)
        f, arms = find_operand_decoder(an, V)
        env = module_consts(an, f.module.name, V)
        # reference sanity: categories pairwise disjoint, so arm order is irrelevant
        cats = ["hasconst", "hasname", "hasjrel", "hasjabs", "haslocal", "hasfree", "hascompare"]
        for a, b in itertools.combinations(cats, 2):
            if set(ref[a]) & set(ref[b]):
                raise AnalysisError(f"reference {cfg}: categories {a} and {b} overlap; arm order would matter")
        if any(op < ref["HAVE_ARGUMENT"] for c in cats for op in ref[c]):
            raise AnalysisError(f"reference {cfg}: a categorised opcode is below HAVE_ARGUMENT")
        for pr in _table_problems.get((f.qual, V), []):
            rep.add("R02.2", f"{f.qual}::hand-written opcode table", False, loc(f.module, f.node),
                    pr + ": operands of the missing opcodes are shown as raw integers and the targets of missing jump opcodes start no block", config=cfg)
        rep.run(r022_noarg, an, rep, V, f)
        seen_cats = {cat for cat, _ in arms}
        rep.run(r021, an, rep, V, f, arms)
        for cat in CATEGORY_TABLE:
            rep.add("R02.2", f"{f.qual}::arm for {cat}", cat in seen_cats, loc(f.module, f.node),
                    "present" if cat in seen_cats else f"operand category {cat} has no arm: its operands are shown as raw integers", nontrivial=False, config=cfg)
        rep.run(r023, an, rep, V, f, arms, env, ref)
        rep.run(r024, an, rep, V, f, arms, env)
    # encoder has a case per Arg member (version independent)
    it_e, _ = an.interp("to_code")
    tg = an.tg
    argt = tg.field_type(an.prog.cls("code_data::Instruction").field("arg"))
    members = sorted(q.split("::")[1] for q in tg.classes_in(argt))
    enc = None
    for g in an.closure("to_code"):
        arms_e, _ = isinstance_arms(g, g.params[0]) if g.params else ([], [])
        names = {n for ns, _, _ in arms_e for n in ns}
        if len(names & set(members)) >= 4:
            enc = (g, names)
    if enc is None:
        raise AnalysisError("encoder operand dispatch (isinstance chain over Arg classes) not found")
    for mname in members:
        rep.add("R02.2", f"{enc[0].qual}::case for {mname}", mname in enc[1], loc(enc[0].module, enc[0].node),
                "present" if mname in enc[1] else f"the encoder has no case for operand class {mname}", nontrivial=False)
    rep.run(r025, an, rep)
    rep.run(r026, an, rep)
    rep.run(r027, an, rep)
    rep.run(r028, an, rep)
    from .common import local_memo_rule
    rep.run(local_memo_rule, an, rep, "R02.M", ["from_code"])
    from .common import old_interpreter_rule
    rep.run(old_interpreter_rule, an, rep, "R02.V", ["from_code"])
    from .common import SharedRules
    from . import c10
    from . import c13
    rep.run(c13.block_rules, an, SharedRules(rep, "R02.B", "jump targets are rewritten to the index of the block that starts at the target offset (shared with C13's R13.*): 'every jump designates the block that begins at the instruction CPython would jump to'"))
    from . import c01
    sho = SharedRules(rep, "R02.O", "decoded lines are shifted by co_firstlineno, all of them, before the instructions read them (shared with C01's R01.5)")
    rep.run(c01.r015_order, an, sho)
    rep.run(c01.r015_every_line, an, sho)
    rep.run(c10.format_rules, an, SharedRules(rep, "R02.L", "line-table format constants (shared with C10's R10.*): the line shown for an instruction is read through them"))
    from .common import rejection_paths_rule
    rep.run(rejection_paths_rule, an, rep, "R02.R", ["from_code"], DECODER_REJECTIONS, "from_code")
    from . import c11 as _c11q
    rep.run(_c11q.r11q, an, SharedRules(rep, "R02.Q", "the guard that refuses repeated free variable names refuses nothing else (shared with C11's R11.Q): a name that is both a cell and a free variable "
                                                     "(`__class__`) is compiler output and has to decode"), "R11.Q")
    from . import c08
    rep.run(c08.r083, an, SharedRules(rep, "R02.S", "what the decoder stores in the data classes has the declared (hashable) shape (shared with C08's R08.3): a list left in a tuple field makes the decoding of the "
                                                   "enclosing code object raise when it keys its constants"))
    rep.run(c08.r084, an, SharedRules(rep, "R02.K", "the decoder tells its constants apart by this key while it numbers them (shared with C08's R08.4): a constant type without a key makes from_code raise, "
                                      "a coarser key gives two instructions the same Constant although CPython loads different ones ('each operand is the same ... constant (type-exact)')"), rule="R02.K")
    rep.stats.update(an.stats(interps))
    rep.assumptions += ["compiler output never jumps into the middle of an EXTENDED_ARG sequence (CPython's assembler targets the first unit)"]


def r021(an, rep, V, f, arms):
    """Operand category -> payload: each `opcode in dis.hasX` arm builds the class of that category from the table CPython indexes."""
    cfg = vname(V)
    it, ret = an.interp("from_code", V)
    for cat, ifn in arms:
        if cat not in CATEGORY_TABLE:
            continue
        rets = [r for r in returns_of(ifn.body) if r.value is not None]
        if not rets:
            raise AnalysisError(f"{f.qual}: arm {cat} has no return")
        tables: Set[str] = set()
        classes: Set[str] = set()
        rel_vals = set()
        for r in rets:
            for a in it.value_at(r.value):
                if a[0] == "obj" and it.obj_class(a):
                    ci = an.prog.cls(it.obj_class(a))
                    classes.add(ci.name)
                    payload = ci.fields[0].name
                    pv = it.hget(a, ("a", payload))
                    for o in it.origins(pv):
                        if o[0] == "src" and o[1] == "code" and o[2] and o[2][0][0] == "a" and o[2][0][1] != "co_code":
                            tables.add(o[2][0][1])
                    if ci.field("relative"):
                        rel_vals |= {x[1] for x in it.hget(a, ("a", "relative")) if x[0] == "const"}
                elif a[0] != "obj":
                    classes.add("<raw>")
        want = CATEGORY_TABLE[cat]
        w = loc(f.module, ifn)
        if cat in ("hasjabs", "hasjrel"):
            ok = classes == {"Jump"} and rel_vals == {cat == "hasjrel"}
            rep.add("R02.1", f"{f.qual}::{cat}", ok, w,
                    f"{cat} -> Jump(relative={cat == 'hasjrel'})" if ok else f"{cat} arm builds {sorted(classes)} with relative in {sorted(rel_vals)}; CPython treats it as {'relative' if cat == 'hasjrel' else 'absolute'}", config=cfg)
        else:
            ok = tables == want and "<raw>" not in classes
            rep.add("R02.1", f"{f.qual}::{cat}", ok, w,
                    f"{cat} -> {sorted(classes)} with payload from {sorted(tables)}" if ok else
                    f"{cat} arm builds {sorted(classes)} whose payload originates in {sorted(tables)}; CPython indexes {sorted(want)} for this category: "
                    f"the user is shown names/values from the wrong table (the mirrored encoder keeps the round trip green)", config=cfg)


def jump_rules(an: Analysis, rep, with_cellfree=True):
    """R02.3 (+R02.4) for every interpreter version, and the parser offsets (R02.3/R02.5)."""
    for V in VERSIONS:
        ref = c11.reference(V)
        f, arms = find_operand_decoder(an, V)
        for pr in _table_problems.get((f.qual, V), []):
            rep.add("R02.2", f"{f.qual}::hand-written opcode table", False, loc(f.module, f.node),
                    pr + ": the targets of missing jump opcodes start no block and their operands are shown as raw integers", config=vname(V))
        env = module_consts(an, f.module.name, V)
        rep.run(r023, an, rep, V, f, arms, env, ref)
        if with_cellfree:
            rep.run(r024, an, rep, V, f, arms, env)
        rep.run(r022_noarg, an, rep, V, f)
        rep.run(r021, an, rep, V, f, arms)
    rep.run(r025, an, rep)


def r022_noarg(an, rep, V, f):
    """The 'no argument' class is exactly the opcodes below HAVE_ARGUMENT of the interpreter: for every other opcode the operand byte means
    something (normalize resets the operand of a NoArg to 0)."""
    ref = c11.reference(V)
    op = f.params[0]
    arm = None
    for n in ast.walk(f.node):
        if isinstance(n, ast.If) and any(isinstance(r.value, ast.Call) and isinstance(r.value.func, ast.Name) and r.value.func.id == "NoArg" for r in returns_of(n.body)):
            arm = n
    if arm is None:
        raise AnalysisError(f"{f.qual}: arm returning NoArg(...) not found")
    test = arm.test
    env = module_consts(an, f.module.name, V)
    env.update({"HAVE_ARGUMENT": ref["HAVE_ARGUMENT"], "dis.HAVE_ARGUMENT": ref["HAVE_ARGUMENT"], "opcode.HAVE_ARGUMENT": ref["HAVE_ARGUMENT"]})
    names_by_code = {v: k for k, v in ref["opmap"].items()}
    for mod in ("dis", "opcode"):
        env[mod + ".opname"] = names_by_code
        env[mod + ".opmap"] = dict(ref["opmap"])
        env[mod + ".EXTENDED_ARG"] = ref["EXTENDED_ARG"]
        for k in ref:
            if k.startswith("has"):
                env[mod + "." + k] = list(ref[k])
    for nm in {x.id for x in ast.walk(test) if isinstance(x, ast.Name)} - {op}:
        if nm not in env:
            tab = opcode_table(an, f, ast.Name(nm, ast.Load()), V)
            if tab is not None:
                env[nm] = frozenset(tab)
    opname = {v: k for k, v in ref["opmap"].items()}
    wrong = []
    try:
        for o in sorted(opname):
            e = dict(env)
            e[op] = o
            got = bool(feval(test, e))
            if got != (o < ref["HAVE_ARGUMENT"]):
                wrong.append(opname[o])
    except Exception as ex:
        raise AnalysisError(f"{f.qual}: the test of the NoArg arm `{norm_src(test)}` is not evaluable under {vname(V)}: {ex}")
    rep.add("R02.2", f"{f.qual}::NoArg exactly for opcodes below HAVE_ARGUMENT", not wrong, loc(f.module, arm),
            f"`{norm_src(test)}` holds for exactly the {sum(1 for o in opname if o < ref['HAVE_ARGUMENT'])} opcodes below HAVE_ARGUMENT" if not wrong else
            f"under {vname(V)} `{norm_src(test)}` classifies {wrong[:4]} differently from `opcode < HAVE_ARGUMENT`: the operand of an instruction that uses it is treated as unused "
            f"(normalize resets it to 0, e.g. RERAISE 1 becomes RERAISE 0) or an unused operand byte is kept as meaningful", config=vname(V))


def _jump_arg_exprs(f, arms):
    out = {}
    for cat, ifn in arms:
        if cat in ("hasjabs", "hasjrel"):
            for r in returns_of(ifn.body):
                v = r.value
                if isinstance(v, ast.Call) and v.args:
                    out[cat] = (inline_locals(f.node, v.args[0]), r)
    return out


def r023(an, rep, V, f, arms, env, ref):
    cfg = vname(V)
    k = ref["jump_scale"]
    je = _jump_arg_exprs(f, arms)
    if set(je) != {"hasjabs", "hasjrel"}:
        raise AnalysisError(f"{f.qual}: jump arms not recognised")
    params = f.params
    for cat, (e, r) in je.items():
        bad = []
        free = sorted({n.id for n in ast.walk(e) if isinstance(n, ast.Name) and n.id in params})
        for a, nxt in [(0, 2), (3, 10), (7, 40), (300, 604)]:
            envv = dict(env)
            for name in free:
                envv[name] = a
            # the parameter that is *not* the operand is the next offset: identify by evaluating both assignments
            cands = []
            for argname in free:
                e2 = dict(envv)
                e2[argname] = a
                for other in free:
                    if other != argname:
                        e2[other] = nxt
                try:
                    cands.append((argname, feval(e, e2)))
                except FevalError as ex:
                    raise AnalysisError(f"{f.qual}: jump target expression {norm_src(e)} not evaluable: {ex}")
            want = k * a if cat == "hasjabs" else nxt + k * a
            if not any(v == want for _, v in cands):
                bad.append(f"arg={a}, next_offset={nxt}: target={[v for _, v in cands]}, CPython jumps to {want}")
        rep.add("R02.3", f"{f.qual}::{cat} target", not bad, loc(f.module, r),
                (f"{norm_src(e)} under {cfg} (jump scale {k}): " + "; ".join(bad[:2])) if bad else
                f"{norm_src(e)} == {'%d*arg' % k if cat == 'hasjabs' else 'next_offset + %d*arg' % k} under {cfg}", config=cfg)
    # encoder multiplier: k_V * m_V == 2 ; relative measured from the end of the jump instruction
    it_e, _ = an.interp("to_code", V)
    enc = None
    for g in an.closure("to_code", V):
        for n in ast.walk(g.node):
            if isinstance(n, ast.If) and isinstance(n.test, ast.Attribute) and n.test.attr == "relative":
                enc = (g, n)
    if enc is None:
        raise AnalysisError("encoder jump operand computation (`if <jump>.relative:`) not found")
    g, ifn = enc
    eenv = module_consts(an, g.module.name, V)

    def assigned(stmts):
        for st in stmts:
            if isinstance(st, ast.Assign) and isinstance(st.targets[0], ast.Name):
                return st.targets[0].id, st.value
        return None, None

    tn, rel_e = assigned(ifn.body)
    tn2, abs_e = assigned(ifn.orelse)
    if rel_e is None or abs_e is None or tn != tn2:
        raise AnalysisError(f"{g.qual}: relative/absolute operand assignments not recognised")
    # names that are plain locals of the loop (target offset, current offset); the multiplier folds
    def evaluate(e, T, Cur):
        e = copy.deepcopy(e)
        names = sorted({n.id for n in ast.walk(e) if isinstance(n, ast.Name)})
        res = []
        loc_names = [n for n in names if n not in eenv]
        mult_names = [n for n in loc_names if _single_assign_foldable(g, n, eenv) is not None]
        ee = dict(eenv)
        for n in mult_names:
            ee[n] = _single_assign_foldable(g, n, eenv)
        others = [n for n in loc_names if n not in mult_names]
        for perm in itertools.permutations(others):
            e3 = dict(ee)
            vals = [T, Cur] + [0] * 5
            for nm, val in zip(perm, vals):
                e3[nm] = val
            try:
                res.append((perm, feval(e, e3)))
            except FevalError as ex:
                raise AnalysisError(f"{g.qual}: {norm_src(e)} not evaluable: {ex}")
        return res, others

    m_want = 2 // k
    bad = []
    role = None
    for T, Cur in [(10, 4), (3, 9), (100, 7)]:
        r_abs, _ = evaluate(abs_e, T, Cur)
        if not any(v == m_want * T for _, v in r_abs):
            bad.append(f"absolute operand for target unit {T}: {[v for _, v in r_abs]}, expected {m_want * T}")
        r_rel, others = evaluate(rel_e, T, Cur)
        hits = [p for p, v in r_rel if v == m_want * (T - Cur)]
        if not hits:
            bad.append(f"relative operand for target unit {T} from unit {Cur}: {[v for _, v in r_rel]}, expected {m_want * (T - Cur)}")
        else:
            role = hits[0]
    rep.add("R02.3", f"{g.qual}::encoder jump operands", not bad, loc(g.module, ifn),
            f"under {cfg}: " + "; ".join(bad[:2]) if bad else
            f"absolute = {m_want}*target, relative = {m_want}*(target - current) under {cfg}; decoder scale {k} x encoder multiplier {m_want} = 2 bytes per unit", config=cfg)
    # 'current' already includes the jump instruction's own size
    if role and len(role) >= 2:
        cur = role[1]
        pm = parent_map(g.module)
        body = None
        node = ifn
        while id(node) in pm:
            par = pm[id(node)]
            if isinstance(par, ast.For):
                body = par.body
                break
            node = par
        ok = False
        if body is not None:
            before = []
            for st in body:
                if any(x is ifn for x in ast.walk(st)):
                    break
                before.append(st)
            ok = any(isinstance(st, ast.AugAssign) and isinstance(st.op, ast.Add) and isinstance(st.target, ast.Name) and st.target.id == cur for st in before)
        rep.add("R02.3", f"{g.qual}::relative jumps measured from the end of the jump instruction", ok, loc(g.module, ifn),
                f"`{cur} += size of this instruction` dominates the operand computation" if ok else
                f"`{cur}` does not yet include the jump instruction's own size when the relative operand is computed", config=cfg)


def _single_assign_foldable(g, name, env):
    vals = []
    for n in ast.walk(g.node):
        if isinstance(n, ast.Assign) and len(n.targets) == 1 and isinstance(n.targets[0], ast.Name) and n.targets[0].id == name:
            vals.append(n.value)
    if len(vals) != 1:
        return None
    try:
        return feval(vals[0], env)
    except Exception:
        return None


def r024(an, rep, V, f, arms, env):
    cfg = vname(V)
    arm = next((ifn for cat, ifn in arms if cat == "hasfree"), None)
    if arm is None:
        return
    it, _ = an.interp("from_code", V)
    # split test and free index
    test = None
    free_idx = None
    cell_ret = None
    for st in arm.body:
        for n in ast.walk(st):
            if isinstance(n, ast.If):
                test = inline_locals(f.node, n.test)
    for r in returns_of(arm.body):
        for s in ast.walk(r.value):
            if isinstance(s, ast.Subscript):
                org = {o[2][0][1] for o in it.origins(it.value_at(s.value)) if o[0] == "src" and o[2]}
                if org == {"co_freevars"}:
                    free_idx = inline_locals(f.node, s.slice)
    if test is None or free_idx is None:
        raise AnalysisError(f"{f.qual}: cell/free split not recognised in the hasfree arm")
    names = sorted({n.id for n in ast.walk(test) if isinstance(n, ast.Name) and n.id in f.params} | {n.id for n in ast.walk(free_idx) if isinstance(n, ast.Name) and n.id in f.params})
    bad = []
    L = 3
    n_eval = 0
    for a in range(0, 7):
        ok_here = False
        for argname in names:
            e = {argname: a, "len": len}
            for other in names:
                if other != argname:
                    e[other] = tuple(range(L))
            try:
                is_cell = bool(feval(test, e))
                idx = feval(free_idx, e)
            except Exception:
                continue
            n_eval += 1
            if is_cell == (a < L) and (a < L or idx == a - L):
                ok_here = True
        if not ok_here:
            bad.append(f"arg={a} with {L} cell variables")
    rep.add("R02.4", f"{f.qual}::cell/free split", not bad, loc(f.module, arm),
            f"split wrong for {bad[:3]}: expected cell iff arg < len(cellvars), free index arg - len(cellvars)" if bad else
            f"`{norm_src(test)}` selects cells, free variables are indexed with `{norm_src(free_idx)}` (checked for arg 0..6 with 3 cells)", config=cfg)
    # encoder: Freevar operands are shifted by len(cellvars) after all cell variables (incl. additional args) are known
    g = None
    for h in an.closure("to_code", V):
        for n in ast.walk(h.node):
            if isinstance(n, ast.AugAssign) and isinstance(n.op, ast.Add) and isinstance(n.value, ast.Call) and isinstance(n.value.func, ast.Name) and n.value.func.id == "len":
                pm = parent_map(h.module)
                node = n
                guarded = False
                top_stmt = None
                while id(node) in pm and pm[id(node)] is not h.node:
                    par = pm[id(node)]
                    if isinstance(par, ast.If) and "Freevar" in {x.id for x in ast.walk(par.test) if isinstance(x, ast.Name)}:
                        guarded = True
                    node = par
                top_stmt = node
                if guarded:
                    g = (h, n, top_stmt)
    if g is None:
        rep.add("R02.4", "encoder::free-variable operands shifted by the number of cell variables", False, "code_data/_blocks.py",
                "no `operand += len(cellvars)` under an isinstance(..., Freevar) guard found: free-variable operands index the cell variables", config=cfg)
        return
    h, n, top_stmt = g
    body = h.node.body
    idx = body.index(top_stmt) if top_stmt in body else -1
    it_e, _ = an.interp("to_code", V)
    cells = it_e.value_at(n.value.args[0])
    # loops that add to the cell table: the relaxation loop and the additional-args loop must come before
    later_adds = []
    for st in body[idx + 1:]:
        for c in ast.walk(st):
            if isinstance(c, ast.Call) and any(q.endswith(".add") or q.endswith("from_arg") for q in it_e.callees.get(id(c), ())):
                later_adds.append(c)
    ok = idx >= 0 and not later_adds
    rep.add("R02.4", f"{h.qual}::shift happens after all cell variables are known", ok, loc(h.module, n),
            "the shift loop follows the instruction loop and the additional-args loop" if ok else
            f"cell variables can still be added after the shift ({norm_src(later_adds[0]) if later_adds else 'shift not at top level'}): free-variable operands are then too small", config=cfg)


# Places where the decoder stops with an exception, confirmed by reading: (function, exception) -> (how many, why / which rule decides reachability).
DECODER_REJECTIONS = {
    ("code_data._blocks::bytes_to_blocks", "NotImplementedError"):
        (3, "a byte that is not an opcode: the compiler only writes defined opcodes (C11's R11.O decides the test); a later code unit of an instruction has its own line-table entry: reachable, decided (and listed as a known finding) by C01's R01.A; a jump target that is not the first code unit "
            "of an instruction: CPython's assembler resolves jumps to the first unit of the target instruction (compiler contract), C13's R13.6 decides the test itself"),
    ("code_data._blocks::_parse_bytes", "NotImplementedError"):
        (2, "a fourth EXTENDED_ARG prefix / prefixes behind the last instruction: CPython's assembler writes at most three prefixes, each in front of an instruction (R02.8 folds both tests over witness code units)"),
    ("code_data._blocks::ToArgs.found_index", "NotImplementedError"):
        (1, "an operand that wrapped around to a negative number (three prefixes with the top bit set, hand-written): the compiler's operands index their table (R09.7 folds the test)"),
    ("code_data._line_mapping::to_line_mapping", "NotImplementedError"):
        (1, "a 3.10 table that writing the decoded mapping does not reproduce: R10.F folds the codec over the tables the 3.10 assembler writes - all are reproduced, except adjacent ranges without a line from a tree with different negative line numbers (known finding of C10)"),
    ("code_data._code_data::to_code_data", "NotImplementedError"):
        (2, "co_nlocals != len(co_varnames): the compiler sets co_nlocals from the length of the varnames tuple; two free variables of the same name: the compiler's symbol table "
            "lists every free name once"),
    ("code_data._code_data::to_code_data", "AssertionError"):
        (3, "NOFREE disagrees with empty free/cell tables (the compiler computes the flag from them); arguments on non-function code and two function kinds at once: decided by C04's R04.6 / R04.7"),
    ("code_data._code_data::to_code_data", "ValueError"):
        (2, "flags left over after every known one was consumed, or only one of OPTIMIZED/NEWLOCALS: reachable through compile(flags=...), decided (known findings) by C01's R01.4 / C04's R04.F"),
    ("code_data._constants::inner_constant_key", "NotImplementedError"):
        (1, "fall-through of the dispatch over constant types: R02.K (C08's R08.4) shows every type the compiler emits has an arm"),
    ("code_data._flags_data::to_flags_data", "ValueError"):
        (2, "bits of co_flags without a name: C11's R11.1/R11.2 compare the flag table with CPython's for each version"),
    ("code_data._line_mapping::items_to_mapping", "ValueError"):
        (1, "a co_lnotab item that ends between two instructions (odd address increment): CPython's assembler writes address increments in whole code units (even numbers)"),
    ("code_data._line_mapping::LineMapping.pop_additional_line", "NotImplementedError"):
        (2, "line-table entries left at offsets that are not an instruction boundary: decided by C01's R01.A (known finding there)"),
}


def find_parser(an: Analysis) -> FunctionInfo:
    """The generator that folds EXTENDED_ARG: yields 5-tuples and mentions EXTENDED_ARG."""
    for f in an.closure("from_code"):
        ys = [n for n in ast.walk(f.node) if isinstance(n, ast.Yield) and isinstance(n.value, ast.Tuple)]
        if ys and any(isinstance(n, ast.Attribute) and n.attr == "EXTENDED_ARG" for n in ast.walk(f.node)):
            return f
    raise AnalysisError("bytecode parser generator (folding EXTENDED_ARG) not found")


def parser_roles(pf: FunctionInfo):
    """(offset loop variable, prefix counter) of the bytecode parser, by role."""
    loop = next((n for n in pf.node.body if isinstance(n, ast.For)), None)
    if loop is None or not isinstance(loop.target, ast.Name):
        raise AnalysisError(f"{pf.qual}: main loop over the code units not recognised")
    counter = None
    for n in ast.walk(loop):
        if isinstance(n, ast.AugAssign) and isinstance(n.op, ast.Add) and isinstance(n.target, ast.Name) and isinstance(n.value, ast.Constant) and n.value.value == 1:
            counter = n.target.id
    if counter is None:
        raise AnalysisError(f"{pf.qual}: counter of code units per instruction not recognised")
    return loop.target.id, counter


def parser_offset_positions(pf: FunctionInfo):
    """Positions in the yielded tuple of the first-unit offset and of the next offset (finite evaluation of the yielded expressions)."""
    iv, cnt = parser_roles(pf)
    y = [n for n in ast.walk(pf.node) if isinstance(n, ast.Yield) and isinstance(n.value, ast.Tuple)][0]
    roles = {}
    for pos, e in enumerate(y.value.elts):
        e2 = inline_locals(pf.node, e)
        try:
            vals = [feval(e2, {iv: i, cnt: n}) for i, n in [(8, 3), (20, 1), (6, 2)]]
        except Exception:
            continue
        if vals == [8 - 4, 20, 6 - 2]:
            roles["first"] = pos
        elif vals == [10, 22, 8]:
            roles["next"] = pos
    return roles, y


def r025(an, rep):
    it, _ = an.interp("from_code")
    pf = find_parser(an)
    y = [n for n in ast.walk(pf.node) if isinstance(n, ast.Yield)][0]
    elts = y.value.elts
    # consumer loop: `for a, b, c, d, e in parser(...)`
    cons = None
    for f in an.closure("from_code"):
        for n in ast.walk(f.node):
            if isinstance(n, ast.For) and isinstance(n.iter, ast.Call) and pf.qual in it.callees.get(id(n.iter), ()):
                cons = (f, n)
    if cons is None:
        raise AnalysisError("consumer loop of the bytecode parser not found")
    f, loop = cons
    if not (isinstance(loop.target, ast.Tuple) and len(loop.target.elts) == len(elts)):
        raise AnalysisError(f"{f.qual}: parser tuple is not unpacked position-wise")
    # semantic roles of the yielded positions, by finite evaluation: offset of the opcode unit and units used so far
    roles, _ = parser_offset_positions(pf)
    rep.add("R02.3", f"{pf.qual}::first/next offsets", set(roles) == {"first", "next"}, loc(pf.module, y),
            f"yields first offset = i - 2*(n_args-1) at position {roles.get('first')} and next offset = i + 2 at position {roles.get('next')}" if set(roles) == {"first", "next"}
            else f"parser does not yield both the first-unit offset (i - 2*(n_args-1)) and the next offset (i + 2): found {roles}")
    if set(roles) != {"first", "next"}:
        return
    first_name = loop.target.elts[roles["first"]].id
    next_name = loop.target.elts[roles["next"]].id
    # line lookup key
    lm = an.prog.cls("code_data._line_mapping::LineMapping")
    line_field = next((x.name for x in lm.fields if "Optional" in ast.dump(x.annotation) or "None" in ast.dump(x.annotation)), lm.fields[0].name)
    keys = []
    for n in ast.walk(loop):
        if isinstance(n, ast.keyword) and n.arg == "line_number":
            for c in ast.walk(n.value):
                if isinstance(c, ast.Call) and isinstance(c.func, ast.Attribute) and c.func.attr in ("pop", "get", "__getitem__") and c.args:
                    keys.append(c.args[0])
                elif isinstance(c, ast.Subscript):
                    keys.append(c.slice)
    if not keys:
        raise AnalysisError(f"{f.qual}: line lookup of the decoded instruction not found")
    k = keys[0]
    ok = isinstance(k, ast.Name) and k.id == first_name
    rep.add("R02.5", f"{f.qual}::line looked up under the first code unit", ok, loc(f.module, k),
            f"line_number = mapping[{first_name}] where {first_name} is the offset of the instruction's first unit (EXTENDED_ARG prefixes included)" if ok else
            f"line_number is looked up under `{norm_src(k)}`, not under the offset of the instruction's first code unit: instructions with EXTENDED_ARG prefixes get the line of a later unit")
    # discard loop: exactly the even offsets strictly between first and next
    ranges = [n for n in ast.walk(loop) if isinstance(n, ast.For) and n is not loop and isinstance(n.iter, ast.Call) and isinstance(n.iter.func, ast.Name) and n.iter.func.id == "range"]
    ok = False
    detail = "no loop taking the entries of the later code units out of the mapping"
    for r in ranges:
        try:
            got = list(feval(r.iter, {first_name: 4, next_name: 10, "range": range}))
            ok = got == [6, 8]
            detail = f"range {norm_src(r.iter)} covers offsets {got} for an instruction spanning 4..10" + ("" if ok else ", expected [6, 8]")
        except Exception as ex:
            detail = f"range not evaluable: {ex}"
    rep.add("R02.5", f"{f.qual}::exactly the later code units of the instruction are taken out of the mapping", ok, loc(f.module, loop),
            detail + " (what is done with their values is judged by R01.A / R11.L)")


def r026(an, rep):
    pf = find_parser(an)
    y = [n for n in ast.walk(pf.node) if isinstance(n, ast.Yield)][0]
    loop = next((n for n in pf.node.body if isinstance(n, ast.For)), None)
    if loop is None:
        raise AnalysisError(f"{pf.qual}: main loop not found")
    inits = {}
    for st in pf.node.body:
        if st is loop:
            break
        if isinstance(st, (ast.Assign, ast.AnnAssign)):
            t = st.targets[0] if isinstance(st, ast.Assign) else st.target
            if isinstance(t, ast.Name) and st.value is not None:
                try:
                    inits[t.id] = ast.literal_eval(st.value)
                except Exception:
                    pass
    accs = [n.target.id for n in ast.walk(loop) if isinstance(n, ast.AugAssign) and isinstance(n.target, ast.Name) and n.target.id in inits]
    accs = sorted(set(accs))
    if len(accs) < 2:
        raise AnalysisError(f"{pf.qual}: accumulators not recognised ({accs})")
    pm = parent_map(pf.module)
    # statements following the yield in its block
    ystmt = pm[id(y)]
    blk = None
    par = pm[id(ystmt)]
    for fld in ("body", "orelse"):
        b = getattr(par, fld, None)
        if isinstance(b, list) and ystmt in b:
            blk = b
    after = blk[blk.index(ystmt) + 1:] if blk else []
    for a in accs:
        reset = [st for st in after if isinstance(st, ast.Assign) and isinstance(st.targets[0], ast.Name) and st.targets[0].id == a]
        ok = False
        if reset:
            try:
                ok = ast.literal_eval(reset[0].value) == inits[a]
            except Exception:
                ok = False
        # and not reset on the EXTENDED_ARG path
        ext_reset = False
        if isinstance(par, ast.If):
            other = par.body if blk is par.orelse else par.orelse
            ext_reset = any(isinstance(st, ast.Assign) and isinstance(st.targets[0], ast.Name) and st.targets[0].id == a
                            and isinstance(st.value, ast.Constant) for st in other)
        rep.add("R02.6", f"{pf.qual}::{a} reset after each instruction", ok and not ext_reset, loc(pf.module, ystmt),
                f"`{a}` is set back to {inits[a]!r} after the yield and carried through EXTENDED_ARG prefixes" if ok and not ext_reset else
                (f"`{a}` is reset on the EXTENDED_ARG path: prefixes are lost" if ext_reset else
                 f"`{a}` is not reset to {inits[a]!r} after an instruction is yielded: every later operand is combined with its predecessors"))


def r028(an, rep):
    """The parser's loop body evaluated over a handful of witness code-unit sequences (finite domain: one per prefix count 0..3 plus a
    following plain instruction): the yielded tuple holds, at one position each, the operand CPython's disassembler assembles
    (prefix bytes big-endian above the instruction's own byte), the first-unit offset and the following offset."""
    from sa.feval import BlockEval, BlockOutcome, FevalError
    rep.rule("R02.8", "operand / offsets the parser yields on witness code-unit sequences equal what dis._unpack_opargs assembles", 3)
    pf = find_parser(an)
    loop = next((n for n in pf.node.body if isinstance(n, ast.For)), None)
    if loop is None or not isinstance(loop.target, ast.Name):
        raise AnalysisError(f"{pf.qual}: main loop not found")
    a = pf.node.args
    params = [x.arg for x in a.posonlyargs + a.args]
    if len(params) != 1:
        raise AnalysisError(f"{pf.qual}: expected one parameter (the bytecode)")
    EXT, OP = 144, 100
    outs = []

    class E(BlockEval):
        def ev(self, node, env):
            if isinstance(node, ast.Yield):
                outs.append(self.ev(node.value, env))
                return None
            return super().ev(node, env)
    be = E(lambda name: None, extra={"dis": {"EXTENDED_ARG": EXT, "HAVE_ARGUMENT": 90}, "opcode": {"EXTENDED_ARG": EXT, "HAVE_ARGUMENT": 90}, "EXTENDED_ARG": EXT,
                                         # platform contract: C int is 4 bytes on every platform CPython 3.7-3.10 supports
                                         "ctypes": {"sizeof": lambda x: {"c_int": 4}[x], "c_int": lambda *a: "c_int"}})
    be.module_assigns = pf.module.assigns
    be.MAX_ITER = 64
    # (code units, expected (operand, first offset, next offset) per instruction)
    W = [
        ([(OP, 7)], [(7, 0, 2)]),
        ([(EXT, 1), (OP, 2)], [(258, 0, 4)]),
        ([(EXT, 1), (EXT, 2), (OP, 3)], [(66051, 0, 6)]),
        ([(EXT, 1), (EXT, 2), (EXT, 3), (OP, 4)], [(16909060, 0, 8)]),
        ([(OP, 5), (EXT, 1), (OP, 0), (OP, 9)], [(5, 0, 2), (256, 2, 6), (9, 6, 8)]),
        ([(EXT, 0), (OP, 200), (EXT, 255), (OP, 255)], [(200, 0, 4), (65535, 4, 8)]),
        # three prefixes with the top bit set: the interpreter's oparg is a C int and wraps (so does dis since bpo-46724): 0xFFFFFFF0 is -16, 0x80000000 is -2**31
        ([(EXT, 255), (EXT, 255), (EXT, 255), (OP, 240)], [(-16, 0, 8)]),
        ([(EXT, 128), (EXT, 0), (EXT, 0), (OP, 0), (OP, 1)], [(-2 ** 31, 0, 8), (1, 8, 10)]),
        ([(EXT, 127), (EXT, 255), (EXT, 255), (OP, 255)], [(2 ** 31 - 1, 0, 8)]),
    ]
    got = []
    for units, exp in W:
        code = bytes(x for u in units for x in u)
        outs.clear()
        env = {params[0]: code}
        try:
            env, _ = be.run_block([st for st in pf.node.body if st is not loop and pf.node.body.index(st) < pf.node.body.index(loop)], env)
            seq = be.ev(loop.iter, env)
            for x in seq:
                be._bind(loop.target, x, env)
                be.run_block(loop.body, env)
        except BlockOutcome as o:
            rep.add("R02.8", f"{pf.qual}::accepts {units}", False, loc(pf.module, o.node),
                    f"on the code units {units} (which the compiler emits) the parser stops with `{norm_src(o.node)[:80]}`: from_code raises instead of decoding")
            return
        except (FevalError, KeyError, IndexError, TypeError) as e:
            raise AnalysisError(f"{pf.qual}: loop body not evaluable on witness code units ({e})")
        if any(not isinstance(t, tuple) for t in outs) or len(outs) != len(exp):
            rep.add("R02.8", f"{pf.qual}::one tuple per instruction", False, loc(pf.module, loop),
                    f"on {units} the parser yields {outs!r}: {len(exp)} instruction(s) expected")
            return
        got.append((units, exp, list(outs)))
    width = len(got[0][2][0])
    for role, k in (("operand", 0), ("offset of the first code unit", 1), ("offset after the instruction", 2)):
        pos = [p for p in range(width) if all(t[p] == e[k] and not isinstance(t[p], bool) for _u, exp, ts in got for t, e in zip(ts, exp))]
        bad = None
        if not pos:
            # show the witness that separates the closest position
            best = max(range(width), key=lambda p: sum(t[p] == e[k] for _u, exp, ts in got for t, e in zip(ts, exp)))
            for u, exp, ts in got:
                for t, e in zip(ts, exp):
                    if t[best] != e[k] and bad is None:
                        bad = (u, e[k], t[best], best)
        rep.add("R02.8", f"{pf.qual}::{role} on witness code units", bool(pos), loc(pf.module, loop),
                f"position {pos[0]} of the yielded tuple is the {role} on all {sum(len(x[1]) for x in got)} witness instructions (0-3 prefixes, instruction after a prefixed one)" if pos else
                f"no position of the yielded tuple is the {role}: on the code units {bad[0]} (opcode {EXT} = EXTENDED_ARG) CPython's disassembler gives {bad[1]}, "
                f"position {bad[3]} of the tuple holds {bad[2]}")


def r027(an, rep):
    """Every EXTENDED_ARG prefix contributes to the operand: what the prefix branch hands to the next code unit depends on what it was handed."""
    rep.rule("R02.7", "the value carried across EXTENDED_ARG prefixes depends on the value carried in (no prefix is dropped)", 1)
    pf = find_parser(an)
    loop = next((n for n in pf.node.body if isinstance(n, ast.For)), None)
    if loop is None:
        raise AnalysisError(f"{pf.qual}: main loop not found")
    branch = None
    for i, st in enumerate(loop.body):
        if isinstance(st, ast.If) and any(isinstance(n, ast.Attribute) and n.attr == "EXTENDED_ARG" for n in ast.walk(st.test)):
            if isinstance(st.test, ast.Compare) and len(st.test.ops) == 1 and isinstance(st.test.ops[0], (ast.Eq, ast.NotEq, ast.Is, ast.IsNot)):
                pre = st.body if isinstance(st.test.ops[0], (ast.Eq, ast.Is)) else st.orelse
                other = st.orelse if pre is st.body else st.body
                branch = (i, st, pre, other)
    if branch is None:
        raise AnalysisError(f"{pf.qual}: the test for the EXTENDED_ARG opcode not recognised")
    bi, ifst, pre, other = branch

    def stored(stmts):
        return {n.id for st in stmts for n in ast.walk(st) if isinstance(n, ast.Name) and isinstance(n.ctx, ast.Store)}
    carried = sorted(stored(pre) & stored(other))
    if not carried:
        raise AnalysisError(f"{pf.qual}: no variable is both updated on the prefix path and reset after an instruction")
    dep = {v: {v} for v in carried}

    def deps_of(e):
        out = set()
        for n in ast.walk(e):
            if isinstance(n, ast.Name) and isinstance(n.ctx, ast.Load):
                out |= dep.get(n.id, set())
        return out

    def flow(stmts):
        for st in stmts:
            if isinstance(st, (ast.Assign, ast.AnnAssign)) and st.value is not None:
                ts = st.targets if isinstance(st, ast.Assign) else [st.target]
                d = deps_of(st.value)
                for t in ts:
                    for n in ast.walk(t):
                        if isinstance(n, ast.Name) and isinstance(n.ctx, ast.Store):
                            dep[n.id] = set(d)
            elif isinstance(st, ast.AugAssign) and isinstance(st.target, ast.Name):
                dep[st.target.id] = dep.get(st.target.id, set()) | deps_of(st.value)
            elif isinstance(st, ast.If):
                before = {k: set(v) for k, v in dep.items()}
                dead_a = flow(st.body)
                a = {k: set(v) for k, v in dep.items()}
                dep.clear()
                dep.update(before)
                dead_b = flow(st.orelse)
                if dead_a and dead_b:
                    return True
                if dead_a:
                    continue  # (the arm that raises contributes nothing to what is carried on)
                if dead_b:
                    dep.clear()
                    dep.update(a)
                    continue
                for k in set(a) | set(dep):
                    dep[k] = a.get(k, set()) | dep.get(k, set())
            elif isinstance(st, ast.Raise):
                return True
            elif isinstance(st, (ast.Expr, ast.Pass)):
                continue
            else:
                raise AnalysisError(f"{pf.qual}: statement `{norm_src(st)[:60]}` on the prefix path not modelled")
        return False
    flow(loop.body[:bi])
    flow(pre)
    for v in carried:
        if v not in stored(pre):
            continue
        ok = bool(dep.get(v, set()) & set(carried))
        rep.add("R02.7", f"{pf.qual}::{v} carried across prefixes", ok, loc(pf.module, ifst),
                f"on the EXTENDED_ARG path the new `{v}` is computed from the carried {sorted(dep[v] & set(carried))}: every prefix shifts the earlier ones up" if ok else
                f"on the EXTENDED_ARG path `{v}` is rebuilt from the current code unit alone, without the value carried from earlier prefixes: an instruction with two or "
                f"more prefixes (operand >= 65536) keeps only the last one - e.g. name 65536 decodes as name 0")


# ----------------------------------------------------------------------------- R02.F
def _find_instruction_fn(an):
    pf = find_parser(an)
    it, _ = an.interp("from_code")
    g = None
    for f in an.closure("from_code"):
        if isinstance(f.node, ast.FunctionDef) and f.cls is None and any(isinstance(n, ast.For) and isinstance(n.iter, ast.Call) and pf.qual in it.callees.get(id(n.iter), ()) for n in ast.walk(f.node)):
            g = f
    if g is None or len(g.params) != 9:
        raise AnalysisError("the decoder's instruction function (code, line mapping, four tables, free variables, kind of code, parameters) was not found")
    return g


def _decoder_witnesses(V):
    """(name, code units as bytes, names, varnames, freevars, cellvars, constants) for interpreter V."""
    from .c11 import reference as _ref
    R = _ref(V)
    om, scale = R["opmap"], R["jump_scale"]
    E_ = "EXTENDED_ARG"
    # (name, [(opname, operand byte)], names, varnames, freevars, cellvars, constants)
    W = [
        ("one cell and two free variables", [("LOAD_CLOSURE", 0), ("LOAD_DEREF", 1), ("LOAD_DEREF", 2), ("LOAD_DEREF", 0), ("RETURN_VALUE", 0)], (), (), ("f0", "f1"), ("c",), ()),
        # a class body that uses __class__ inside a function with a local __class__: CPython lists the name in both tables, the operand's position decides
        ("one name that is both a cell and a free variable", [("LOAD_CLOSURE", 0), ("LOAD_DEREF", 1), ("LOAD_DEREF", 0), ("LOAD_DEREF", 2), ("RETURN_VALUE", 0)], (), (), ("__class__", "x"), ("__class__",), ()),
        ("no instructions at all, tables that are not empty", [], ("a",), ("v",), (), ("c",), (1, "s")),
        # entries no instruction uses at the SAME index of two tables, both out of first-use order
        ("unreferenced entries at index 0 of the names and of the constants", [("LOAD_NAME", 1), ("LOAD_CONST", 1), ("RETURN_VALUE", 0)], ("n0", "a"), (), (), (), ("k0", 1)),
        # a function with a docstring and three parameters: the docstring and the parameters count as met, nothing else does
        ("a function with a docstring, three parameters, a constant no instruction uses", [("LOAD_CONST", 2), ("LOAD_FAST", 3), ("LOAD_FAST", 1), ("RETURN_VALUE", 0)], (), ("p0", "p1", "p2", "x"), (), (), ("doc", 7, 5),
         ("doc", ("p0", "p1", "p2"))),
        ("two cells and one free variable", [("LOAD_DEREF", 2), ("LOAD_DEREF", 1), ("LOAD_DEREF", 0), ("RETURN_VALUE", 0)], (), (), ("f0",), ("c0", "c1"), ()),
        ("tables met out of order, entries never met", [("LOAD_NAME", 1), ("LOAD_CONST", 2), ("LOAD_NAME", 0), ("LOAD_CONST", 0), ("LOAD_FAST", 1), ("LOAD_NAME", 1), ("RETURN_VALUE", 0)],
         ("a", "b", "never"), ("v0", "v1"), (), (), (None, 1.5, "s")),
        ("jumps: relative, absolute, behind a prefix; operands that are plain numbers",
         [("LOAD_NAME", 0), ("POP_JUMP_IF_FALSE", None), ("JUMP_FORWARD", None), ("BUILD_TUPLE", 3), (E_, 0), ("JUMP_ABSOLUTE", None), ("POP_TOP", 5), (E_, 1), ("BUILD_LIST", 2), ("RETURN_VALUE", 0)],
         ("a",), (), (), (), ()),
        # POP_JUMP_IF_TRUE -> offset 6, the FIRST code unit (a zero prefix) of the instruction whose opcode sits at 8; JUMP_ABSOLUTE at 4 -> itself; JUMP_FORWARD +0 -> the next instruction
        # offset 10 is the target of an absolute AND of a relative jump, offset 14 of another jump behind it
        ("one offset targeted by an absolute and by a relative jump, another target behind it",
         [("LOAD_NAME", 0), ("POP_JUMP_IF_TRUE", ("abs", 10)), ("JUMP_FORWARD", ("rel", 4)), ("LOAD_NAME", 0), ("POP_JUMP_IF_FALSE", ("abs", 14)), ("LOAD_NAME", 1), ("POP_TOP", 0), ("RETURN_VALUE", 0)],
         ("a", "b"), (), (), (), ()),
        # two relative jumps with the same opcode and the same operand at different places; NOP with an operand byte (3.10 leaves `NOP 1`, `NOP 2` behind folded tuples)
        ("two equal relative jumps at different offsets, no-operand opcodes with an operand byte",
         [("JUMP_FORWARD", ("rel", 2)), ("NOP", 3), ("JUMP_FORWARD", ("rel", 2)), ("NOP", 1), ("RETURN_VALUE", 0)], (), (), (), (), ()),
        ("a jump to an instruction with a redundant prefix, a jump to itself, a relative jump of zero",
         [("LOAD_NAME", 0), ("POP_JUMP_IF_TRUE", ("abs", 6)), ("JUMP_ABSOLUTE", ("abs", 4)), (E_, 0), ("LOAD_NAME", 1), ("JUMP_FORWARD", ("rel", 0)), ("RETURN_VALUE", 0)],
         ("a", "b"), (), (), (), ()),
    ]
    WV = []
    for wname, units, names, varnames, freevars, cellvars, consts, *fn_spec in W:
        if any(op not in om for op, _a in units):
            continue
        # the jump operands of the last witness: POP_JUMP_IF_FALSE -> offset 6 (BUILD_TUPLE), JUMP_FORWARD -> offset 12 (POP_TOP), JUMP_ABSOLUTE (behind a zero prefix) -> offset 0
        fixed = []
        for k, (op, a) in enumerate(units):
            if a is None:
                a = {"POP_JUMP_IF_FALSE": 6 // scale, "JUMP_FORWARD": (12 - (2 * k + 2)) // scale, "JUMP_ABSOLUTE": 0}[op]
            elif isinstance(a, tuple):
                a = a[1] // scale
            fixed.append((op, a))
        code = bytes(x for op, a in fixed for x in (om[op], a))
        WV.append((wname, code, names, varnames, freevars, cellvars, consts) + tuple(fn_spec))
    return WV


def _decode_bad(an, g, V, WV):
    """The instruction function folded over the witnesses WV under interpreter V: the witnesses that are not decoded as the disassembler reads them."""
    from sa.feval import BlockOutcome, Obj
    from .c03 import package_evaluator, read_units
    bad = []
    for wname, code, names, varnames, freevars, cellvars, consts, *fn_spec in WV:
        fn_spec = fn_spec[0] if fn_spec else None  # (docstring, parameter names) of a function scope: both count as met first
        ev, R = package_evaluator(an, g.module, V)
        om, scale = R["opmap"], R["jump_scale"]
        insns = read_units(code, R)
        targets = {0}
        exp = []
        for first, opoff, op, arg, n in insns:
            if op in R["hasjabs"]:
                targets.add(scale * arg)
            elif op in R["hasjrel"]:
                targets.add(opoff + 2 + scale * arg)
        order = sorted(targets)
        ranks = {"n": {}, "v": {}, "c": {}, "k": {}}
        if fn_spec:
            ranks["v"] = {i_: i_ for i_ in range(len(fn_spec[1]))}
            if fn_spec[0] is not None:
                ranks["k"] = {0: 0}

        def pin(kind, i):
            r = ranks[kind].setdefault(i, len(ranks[kind]))
            return i if r != i else None
        opname = {v: k for k, v in om.items()}
        for first, opoff, op, arg, n in insns:
            if op in R["hasjabs"]:
                a = ("Jump", {"target": order.index(scale * arg), "relative": False})
            elif op in R["hasjrel"]:
                a = ("Jump", {"target": order.index(opoff + 2 + scale * arg), "relative": True})
            elif op in R["hasname"]:
                a = ("Name", {"name": names[arg], "_index_override": pin("n", arg)})
            elif op in R["haslocal"]:
                a = ("Varname", {"varname": varnames[arg], "_index_override": pin("v", arg)})
            elif op in R["hasfree"]:
                a = ("Cellvar", {"cellvar": cellvars[arg], "_index_override": pin("c", arg)}) if arg < len(cellvars) else ("Freevar", {"freevar": freevars[arg - len(cellvars)]})
            elif op in R["hasconst"]:
                a = ("Constant", {"constant": consts[arg], "_index_override": pin("k", arg)})
            elif op < R["HAVE_ARGUMENT"]:
                a = ("NoArg", {"_arg": arg})
            else:
                a = arg
            exp.append((first, opname[op], a))
        line_of = {first: 10 + i for i, (first, *_r) in enumerate(insns)}
        lines = {}
        for first, opoff, *_r in insns:
            for o in range(first, opoff + 2, 2):
                lines[o] = line_of[first]
        try:
            mp = ev.lib["LineMapping"](dict(lines), {})
            if fn_spec:
                args_ = ev.lib["Args"](positional_or_keyword=tuple(fn_spec[1]))
                btype_ = ev.lib["Function"](args_, fn_spec[0], None)
            else:
                args_, btype_ = ev.lib["Args"](), None
            res = ev.call_method(g.node, code, mp, tuple(names), tuple(varnames), tuple(freevars), tuple(cellvars), tuple(consts), btype_, args_)
        except BlockOutcome as o:
            bad.append(f"{wname}: the decoder stops at `{norm_src(o.node)[:60]}`")
            continue
        except (IndexError, KeyError) as ex:
            bad.append(f"{wname}: the decoder raises {type(ex).__name__}: {str(ex)[:50]}")
            continue
        except AnalysisError:
            raise
        except Exception as ex:  # noqa: BLE001 - a gap of the evaluator, never a verdict
            raise AnalysisError(f"{g.qual}: not evaluable on the witness code units '{wname}' ({type(ex).__name__}: {ex})")
        if not (isinstance(res, tuple) and len(res) == 2 and all(isinstance(b, tuple) for b in res[0])):
            raise AnalysisError(f"{g.qual}: the result on the witness code units is not (blocks, unreferenced entries)")
        blocks, extra = res
        flat = [i for b in blocks for i in b]
        why = None
        if len(flat) != len(exp):
            why = f"{len(flat)} instructions, CPython's disassembler reports {len(exp)}"
        else:
            # where the blocks begin
            begins, k = [], 0
            for b in blocks:
                begins.append(exp[k][0] if k < len(exp) else None)
                k += len(b)
            if begins != (order if exp else []) or any(len(b) == 0 for b in blocks):
                why = f"blocks begin at offsets {begins}, the jump targets (and 0) are {order}"
            for ins, (first, name, a) in zip(flat, exp):
                if why:
                    break
                got = ins.get("arg")
                if ins.get("name") != name:
                    why = f"instruction at {first} is {ins.get('name')!r}, CPython reports {name!r}"
                elif ins.get("line_number") != line_of[first]:
                    why = f"{name} at {first} gets line {ins.get('line_number')!r}; the table gives its first code unit line {line_of[first]}"
                elif isinstance(a, tuple):
                    if not isinstance(got, Obj) or got.get("__cls__") != a[0] or any(got.get(k) != v or type(got.get(k)) is not type(v) for k, v in a[1].items()):
                        shown = {k: v for k, v in got.items() if k != "__cls__"} if isinstance(got, Obj) else got
                        why = f"{name} {a[1]} at {first} is decoded as {got.get('__cls__') if isinstance(got, Obj) else type(got).__name__} {shown}"
                elif got != a or isinstance(got, Obj):
                    why = f"{name} {a} at {first} is decoded with operand {got!r}"
            if not why:
                never = {"Name": [n for i, n in enumerate(names) if i not in ranks["n"]], "Varname": [n for i, n in enumerate(varnames) if i not in ranks["v"]],
                         "Cellvar": [n for i, n in enumerate(cellvars) if i not in ranks["c"]], "Constant": [n for i, n in enumerate(consts) if i not in ranks["k"]]}
                gotx = {c: [] for c in never}
                for x in extra:
                    if isinstance(x, Obj) and x.get("__cls__") in gotx:
                        gotx[x["__cls__"]].append(x.get({"Name": "name", "Varname": "varname", "Cellvar": "cellvar", "Constant": "constant"}[x["__cls__"]]))
                if gotx != never:
                    why = f"entries no instruction uses are listed as {gotx}, the tables leave {never}"
        if why:
            bad.append(f"{wname}: {why}")
    return bad


def _decode_chunk(args):
    repo, V, WV = args
    from sa import model
    model.REPO = repo
    an = Analysis(repo)
    try:
        return _decode_bad(an, _find_instruction_fn(an), V, WV), None
    except AnalysisError as ex:
        return [], str(ex)


def r02f(an, rep, rule="R02.F"):
    """The decoder's instruction function (code units + tables -> blocks, unreferenced entries) folded over witness code-unit sequences; the
    expectation is a transcription of what CPython's disassembler reports: opcode names in order (prefixes folded), each operand resolved in the
    table CPython indexes for the opcode's category (cell variables first, then free variables), jump targets k*arg / next offset + k*arg, and
    a block beginning exactly at offset 0 and at every jump target."""
    from sa.feval import BlockOutcome, Obj
    from .c03 import package_evaluator, read_units
    rep.rule(rule, "the decoder's instruction function folded over witness code-unit sequences gives what CPython's disassembler reports", 4)
    g = _find_instruction_fn(an)
    deep = getattr(rep, "tier", "quick") == "thorough" and getattr(rep, "pid", "") == "C02"
    for V in VERSIONS:
        WV = _decoder_witnesses(V)
        if deep:
            # thorough tier of C02 itself: generated programs (seeded by VERIF_SEED) laid out by a reference assembler, folded on all cores
            import concurrent.futures as cf
            import os
            from .c11 import reference as _ref
            from .deep_fold import generated_programs, ref_assemble
            for gname, gblocks, _fv in generated_programs(getattr(rep, "seed", 0), 160):
                code_, names_, consts_ = ref_assemble(gblocks, _ref(V))
                WV.append((gname, code_, names_, (), (), (), consts_))
            n_w = max(1, min(16, os.cpu_count() or 1))
            bad = []
            with cf.ProcessPoolExecutor(max_workers=n_w) as ex:
                for b_, gap in ex.map(_decode_chunk, [(an.prog.repo, V, WV[i::n_w]) for i in range(n_w)]):
                    if gap:
                        raise AnalysisError(gap)
                    bad += b_
        else:
            bad = _decode_bad(an, g, V, WV)
        rep.add(rule, f"{g.qual}::witness code units [{vname(V)}]", not bad, loc(g.module, g.node),
                f"{len(WV)} witness sequences (cell / free variables, tables met out of order, unreferenced entries, relative / absolute / prefixed jumps, numeric operands): as CPython's disassembler reports them"
                if not bad else bad[0] + (f" (+{len(bad) - 1} more)" if len(bad) > 1 else ""))


def r02p(an, rep, rule="R02.8"):
    """Code units the instruction format cannot hold are refused, not repaired: EXTENDED_ARG prefixes behind the last instruction belong to no
    instruction, a fourth prefix shifts the first one out of the interpreter's C int - data decoded from either would be written back as other
    bytes.  The parser is folded as a whole (statements behind its loop included) over witness code units."""
    from sa.feval import BlockOutcome
    from .c03 import package_evaluator
    pf = find_parser(an)
    EXT, OP = 144, 100
    W = [
        ("a prefix behind the last instruction", [(OP, 1), (EXT, 7)], True),
        ("only prefixes", [(EXT, 1), (EXT, 2)], True),
        ("four prefixes", [(EXT, 1), (EXT, 0), (EXT, 0), (EXT, 0), (OP, 0)], True),
        ("three prefixes", [(EXT, 1), (EXT, 0), (EXT, 0), (OP, 0)], False),
        ("three prefixes, then a prefixed instruction", [(EXT, 1), (EXT, 0), (EXT, 0), (OP, 0), (EXT, 2), (OP, 3)], False),
        ("no code at all", [], False),
    ]
    bad = []
    for name, units, want_raise in W:
        ev, _R = package_evaluator(an, pf.module, (3, 10))
        ev.lib["dis"] = dict(ev.lib["dis"], EXTENDED_ARG=EXT)
        ev.lib["EXTENDED_ARG"] = EXT
        try:
            out = ev.call_method(pf.node, bytes(x for u in units for x in u))
            raised = False
        except BlockOutcome:
            raised = True
        except Exception as ex:  # noqa: BLE001 - a gap of the evaluator, never a verdict
            raise AnalysisError(f"{pf.qual}: not evaluable on the witness code units '{name}' ({type(ex).__name__}: {ex})")
        if raised != want_raise:
            bad.append(f"{name} {units}: {'refused' if raised else 'accepted (' + str(len(out)) + ' instruction(s))'}")
    rep.add(rule, f"{pf.qual}::code units the format cannot hold are refused", not bad, loc(pf.module, pf.node),
            "prefixes behind the last instruction and a fourth prefix raise; up to three prefixes and empty code do not" if not bad else
            bad[0] + (f" (+{len(bad) - 1} more)" if len(bad) > 1 else "") + " - (opcode 144 = EXTENDED_ARG) from_code returns data for bytes it cannot write again: to_code() gives other code units, silently")
