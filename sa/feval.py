"""
Finite-domain evaluator for small pure expressions extracted from /repo
(arithmetic / boolean / comparison / conditional sub-language of `ast`).
It is the checker's own evaluator over explicitly enumerated finite domains -
constant folding generalised to "the set of values for which this predicate is
true" - not execution of repository functions.
"""
from __future__ import annotations

import ast
import operator as op
from typing import Any, Dict


class FevalError(Exception):
    pass


class Unknown:
    """Marker for a free variable left symbolic (evaluation then fails)."""


_BIN = {ast.Add: op.add, ast.Sub: op.sub, ast.Mult: op.mul, ast.FloorDiv: op.floordiv, ast.Mod: op.mod,
        ast.Pow: op.pow, ast.LShift: op.lshift, ast.RShift: op.rshift, ast.BitOr: op.or_, ast.BitAnd: op.and_,
        ast.BitXor: op.xor, ast.Div: op.truediv}
_CMP = {ast.Eq: op.eq, ast.NotEq: op.ne, ast.Lt: op.lt, ast.LtE: op.le, ast.Gt: op.gt, ast.GtE: op.ge,
        ast.Is: op.is_, ast.IsNot: op.is_not, ast.In: lambda a, b: a in b, ast.NotIn: lambda a, b: a not in b}
_METHODS = {"keys", "values", "items", "get", "index", "count"}
_CALLS = {"float": float, "complex": complex, "str": str, "isinstance": isinstance, "reversed": lambda x: tuple(reversed(tuple(x))), "all": all, "any": any, "sum": sum, "frozenset": frozenset, "len": len, "abs": abs, "min": min, "max": max, "bool": bool, "int": int, "range": range,
          "set": set, "tuple": tuple, "sorted": sorted, "list": list}


def feval(node: ast.AST, env: Dict[str, Any]) -> Any:
    if isinstance(node, ast.Constant):
        return node.value
    if isinstance(node, ast.Name):
        if node.id in env:
            return env[node.id]
        if node.id in ("True", "False", "None"):
            return {"True": True, "False": False, "None": None}[node.id]
        raise FevalError(f"free name {node.id}")
    if isinstance(node, ast.Attribute):
        key = _dotted(node)
        if key is not None and key in env:
            return env[key]
        base = feval(node.value, env)
        if isinstance(base, dict) and node.attr in base:
            return base[node.attr]
        raise FevalError(f"attribute {node.attr}")
    if isinstance(node, ast.BinOp):
        return _BIN[type(node.op)](feval(node.left, env), feval(node.right, env))
    if isinstance(node, ast.UnaryOp):
        v = feval(node.operand, env)
        if isinstance(node.op, ast.Not):
            return not v
        if isinstance(node.op, ast.USub):
            return -v
        if isinstance(node.op, ast.UAdd):
            return +v
        if isinstance(node.op, ast.Invert):
            return ~v
    if isinstance(node, ast.BoolOp):
        if isinstance(node.op, ast.And):
            v = True
            for x in node.values:
                v = feval(x, env)
                if not v:
                    return v
            return v
        v = False
        for x in node.values:
            v = feval(x, env)
            if v:
                return v
        return v
    if isinstance(node, ast.Compare):
        left = feval(node.left, env)
        for o, c in zip(node.ops, node.comparators):
            right = feval(c, env)
            if not _CMP[type(o)](left, right):
                return False
            left = right
        return True
    if isinstance(node, ast.IfExp):
        return feval(node.body, env) if feval(node.test, env) else feval(node.orelse, env)
    if isinstance(node, (ast.Tuple, ast.List)):
        return tuple(feval(e, env) for e in node.elts)
    if isinstance(node, ast.Set):
        return frozenset(feval(e, env) for e in node.elts)
    if isinstance(node, ast.Subscript):
        base = feval(node.value, env)
        return base[feval(node.slice, env)]
    if isinstance(node, ast.Call) and isinstance(node.func, ast.Name) and node.func.id in _CALLS and not node.keywords:
        if node.func.id in env:
            return env[node.func.id](*[feval(a, env) for a in node.args])
        return _CALLS[node.func.id](*[feval(a, env) for a in node.args])
    if isinstance(node, ast.Call) and isinstance(node.func, ast.Name) and node.func.id in env and callable(env[node.func.id]):
        return env[node.func.id](*[feval(a, env) for a in node.args])
    if isinstance(node, ast.Call) and not any(k.arg is None for k in node.keywords):
        # whitelisted pure methods of plain containers, or a callable supplied by the rule through env
        if isinstance(node.func, ast.Attribute) and node.func.attr in _METHODS:
            recv = feval(node.func.value, env)
            if isinstance(recv, (dict, list, tuple, set, frozenset, str, bytes, range)):
                return getattr(recv, node.func.attr)(*[feval(a, env) for a in node.args])
        try:
            fn = feval(node.func, env)
        except FevalError:
            fn = None
        if callable(fn) and getattr(fn, "_feval_ok", False):
            return fn(*[feval(a, env) for a in node.args], **{k.arg: feval(k.value, env) for k in node.keywords})
    if isinstance(node, (ast.ListComp, ast.SetComp, ast.GeneratorExp)) and len(node.generators) == 1 and isinstance(node.generators[0].target, (ast.Name, ast.Tuple)):
        g = node.generators[0]
        out = []
        for item in feval(g.iter, env):
            e2 = dict(env)
            if isinstance(g.target, ast.Name):
                e2[g.target.id] = item
            else:
                for t, v in zip(g.target.elts, item):
                    if not isinstance(t, ast.Name):
                        raise FevalError("nested target")
                    e2[t.id] = v
            if all(feval(c, e2) for c in g.ifs):
                out.append(feval(node.elt, e2))
        return frozenset(out) if isinstance(node, ast.SetComp) else tuple(out)
    raise FevalError(f"unsupported {type(node).__name__}: {ast.dump(node)[:80]}")


def _dotted(node):
    if isinstance(node, ast.Name):
        return node.id
    if isinstance(node, ast.Attribute):
        b = _dotted(node.value)
        return f"{b}.{node.attr}" if b else None
    return None


def callable_for_feval(fn):
    """Mark a python callable supplied by a rule as callable from evaluated expressions."""
    fn._feval_ok = True
    return fn


def free_names(node: ast.AST):
    return {n.id for n in ast.walk(node) if isinstance(n, ast.Name)}


def try_feval(node, env, default=None):
    try:
        return feval(node, env)
    except (FevalError, KeyError, TypeError, ZeroDivisionError, IndexError, AttributeError):
        return default


def region_points(node: ast.AST, env: Dict[str, Any] = None, extra=()):
    """
    Test points that make the evaluation of a decision tree over ONE integer input exhaustive: if every test in `node` compares the
    input with a constant, the tree is constant on each interval between consecutive constants, so c-1, c, c+1 for every constant c
    (plus the given extras) visit every region and every boundary.
    """
    env = env or {}
    consts = set(extra)
    for n in ast.walk(node):
        if isinstance(n, ast.Compare):
            for side in [n.left] + list(n.comparators):
                v = try_feval(side, env)
                if isinstance(v, int) and not isinstance(v, bool):
                    consts.add(v)
                elif isinstance(v, (tuple, frozenset, set)):
                    consts |= {x for x in v if isinstance(x, int) and not isinstance(x, bool)}
    pts = set()
    for c in consts:
        pts |= {c - 1, c, c + 1}
    return sorted(pts)


class PureEval:
    """
    Evaluator for the package's small pure scalar functions (if / return / simple assignment, calls to other such functions
    and to a whitelist of library functions).  Used on one witness per cell of the finite partition a key / threshold function
    induces on its input, never on program data.
    """

    def __init__(self, resolve, extra=None):
        self.resolve = resolve  # name -> FunctionDef node of a package function, or None
        import math
        self.lib = {"isnan": math.isnan, "isinf": math.isinf, "copysign": math.copysign, "str": str, "repr": repr, "type": type, "tuple": tuple,
                    "frozenset": frozenset, "map": lambda f, xs: tuple(f(x) for x in xs), "isinstance": isinstance, "float": float, "int": int,
                    "bool": bool, "complex": complex, "bytes": bytes, "bytearray": bytearray, "len": len, "abs": abs, "any": any, "all": all, "hash": hash,
                    "range": range, "enumerate": lambda xs, start=0: tuple(enumerate(xs, start)), "reversed": lambda xs: tuple(reversed(xs)),
                    "Counter": __import__("collections").Counter, "sorted": sorted, "list": list, "set": set, "dict": dict, "sum": sum,
                    "min": min, "max": max, "zip": lambda *xs: tuple(zip(*xs)), "filter": lambda f, xs: tuple(x for x in xs if (f(x) if f is not None else x)), "divmod": divmod, "round": round, "ord": ord, "chr": chr}
        self.lib.update(extra or {})
        self.depth = 0

    def call(self, fn_node, *args):
        self.depth += 1
        if self.depth > 40:
            raise FevalError("recursion too deep")
        try:
            a = fn_node.args
            env = {x.arg: v for x, v in zip(a.posonlyargs + a.args, args)}
            r = self._run(fn_node.body, env)
            if r is _NORET:
                return None
            return r
        finally:
            self.depth -= 1

    def _run(self, stmts, env):
        for st in stmts:
            if isinstance(st, ast.Expr) and isinstance(st.value, ast.Constant):
                continue
            if isinstance(st, ast.Return):
                return self.ev(st.value, env) if st.value is not None else None
            if isinstance(st, ast.If):
                r = self._run(st.body if self.ev(st.test, env) else st.orelse, env)
                if r is not _NORET:
                    return r
                continue
            if isinstance(st, ast.Assign) and len(st.targets) == 1 and isinstance(st.targets[0], ast.Name):
                env[st.targets[0].id] = self.ev(st.value, env)
                continue
            if isinstance(st, ast.Assign) and len(st.targets) == 1 and isinstance(st.targets[0], (ast.Tuple, ast.List)) \
                    and all(isinstance(e, ast.Name) for e in st.targets[0].elts):
                self._bind(st.targets[0], self.ev(st.value, env), env)
                continue
            if isinstance(st, ast.Raise):
                raise FevalError("raises")
            if isinstance(st, (ast.Import, ast.ImportFrom, ast.Pass)):
                continue
            if isinstance(st, ast.AnnAssign) and isinstance(st.target, ast.Name) and st.value is not None:
                env[st.target.id] = self.ev(st.value, env)
                continue
            if isinstance(st, ast.AugAssign) and isinstance(st.target, ast.Name) and st.target.id in env:
                env[st.target.id] = _BIN[type(st.op)](env[st.target.id], self.ev(st.value, env))
                continue
            # bounded loops of scalar threshold functions (a loop over a constant table of limits, "widen until it fits")
            if isinstance(st, ast.For) and not st.orelse:
                seq = self.ev(st.iter, env)
                try:
                    seq = list(seq)
                except TypeError:
                    raise FevalError("loop over a non-iterable")
                if len(seq) > self.MAX_ITER:
                    raise FevalError("loop too long for a threshold function")
                done = False
                for x in seq:
                    self._bind(st.target, x, env)
                    r = self._run(st.body, env)
                    if r is _BREAK:
                        break
                    if r is _CONT:
                        continue
                    if r is not _NORET:
                        return r
                continue
            if isinstance(st, ast.While) and not st.orelse:
                n = 0
                while self.ev(st.test, env):
                    n += 1
                    if n > self.MAX_ITER:
                        raise FevalError("loop too long for a threshold function")
                    r = self._run(st.body, env)
                    if r is _BREAK:
                        break
                    if r is _CONT:
                        continue
                    if r is not _NORET:
                        return r
                continue
            if isinstance(st, ast.Break):
                return _BREAK
            if isinstance(st, ast.Continue):
                return _CONT
            raise FevalError(f"statement {type(st).__name__} in a pure function")
        return _NORET

    MAX_ITER = 16

    def _bind(self, target, value, env):
        if isinstance(target, ast.Name):
            env[target.id] = value
        elif isinstance(target, (ast.Tuple, ast.List)):
            vals = list(value)
            if len(vals) != len(target.elts):
                raise FevalError("unpacking mismatch")
            for t, v in zip(target.elts, vals):
                self._bind(t, v, env)
        else:
            raise FevalError("loop target")

    def ev(self, node, env):
        if isinstance(node, ast.Call):
            fn = node.func
            args = None
            if isinstance(fn, ast.Name):
                args = [self.ev(a, env) for a in node.args]
                target = self.resolve(fn.id)
                if target is not None:
                    return self.call(target, *args)
                if fn.id in self.lib and callable(self.lib[fn.id]):
                    # callables passed as values (map(key, xs)) resolve lazily
                    return self.lib[fn.id](*args, **{k.arg: self.ev(k.value, env) for k in node.keywords if k.arg})
            if isinstance(fn, ast.Attribute) and fn.attr in ("real", "imag"):
                pass
        if isinstance(node, ast.Name):
            if node.id in env:
                return env[node.id]
            target = self.resolve(node.id)
            if target is not None:
                # one callable per function: `f is g` on two references of the same function holds
                fc = self.__dict__.setdefault("_fncache", {})
                if id(target) not in fc:
                    fc[id(target)] = (lambda *a, _t=target: self.call(_t, *a))
                return fc[id(target)]
            if node.id in self.lib:
                return self.lib[node.id]
            if node.id in ("True", "False", "None"):
                return {"True": True, "False": False, "None": None}[node.id]
            ma = getattr(self, "module_assigns", None)
            if ma and node.id in ma and len(ma[node.id]) == 1:
                # a module-level name is bound once: every reference sees the same object (a shared NaN, a shared list)
                cache = self.__dict__.setdefault("_modcache", {})
                if node.id not in cache:
                    cache[node.id] = self.ev(ma[node.id][0], {})
                return cache[node.id]
            raise FevalError(f"free name {node.id}")
        if isinstance(node, (ast.GeneratorExp, ast.ListComp, ast.SetComp)):
            out = []

            def rec(gi, e):
                if gi == len(node.generators):
                    out.append(self.ev(node.elt, e))
                    return
                g = node.generators[gi]
                seq = list(self.ev(g.iter, e))
                if len(seq) > max(64, self.MAX_ITER):
                    raise FevalError("comprehension too long")
                for x in seq:
                    e2 = _flat(e)
                    self._bind(g.target, x, e2)
                    if all(self.ev(c, e2) for c in g.ifs):
                        rec(gi + 1, e2)
            rec(0, _flat(env))
            return set(out) if isinstance(node, ast.SetComp) else (list(out) if isinstance(node, ast.ListComp) else tuple(out))
        if isinstance(node, ast.Attribute):
            base = self.ev(node.value, env)
            if node.attr in ("real", "imag") and isinstance(base, (complex, float, int)):
                return getattr(base, node.attr)
            if isinstance(base, dict) and node.attr in base:
                return base[node.attr]
            raise FevalError(f"attribute {node.attr}")
        if isinstance(node, ast.Subscript):
            base = self.ev(node.value, env)
            if isinstance(node.slice, ast.Slice):
                lo = self.ev(node.slice.lower, env) if node.slice.lower is not None else None
                hi = self.ev(node.slice.upper, env) if node.slice.upper is not None else None
                return base[lo:hi]
            return base[self.ev(node.slice, env)]
        if isinstance(node, ast.Constant):
            return node.value
        if isinstance(node, ast.Tuple):
            return tuple(self.ev(e, env) for e in node.elts)
        if isinstance(node, ast.List) and not any(isinstance(e, ast.Starred) for e in node.elts):
            return [self.ev(e, env) for e in node.elts]
        if isinstance(node, ast.Compare):
            left = self.ev(node.left, env)
            for o, c in zip(node.ops, node.comparators):
                right = self.ev(c, env)
                if not _CMP[type(o)](left, right):
                    return False
                left = right
            return True
        if isinstance(node, ast.BoolOp):
            v = None
            for x in node.values:
                v = self.ev(x, env)
                if (isinstance(node.op, ast.And) and not v) or (isinstance(node.op, ast.Or) and v):
                    return v
            return v
        if isinstance(node, ast.UnaryOp):
            v = self.ev(node.operand, env)
            return (not v) if isinstance(node.op, ast.Not) else (-v if isinstance(node.op, ast.USub) else v)
        if isinstance(node, ast.BinOp):
            return _BIN[type(node.op)](self.ev(node.left, env), self.ev(node.right, env))
        if isinstance(node, ast.IfExp):
            return self.ev(node.body, env) if self.ev(node.test, env) else self.ev(node.orelse, env)
        if isinstance(node, ast.Call) and isinstance(node.func, ast.Attribute) and node.func.attr in ("items", "keys", "values", "get", "most_common", "count", "index", "endswith", "startswith"):
            base = self.ev(node.func.value, env)
            if isinstance(base, (dict, tuple, list, str)) and hasattr(base, node.func.attr):
                r = getattr(base, node.func.attr)(*[self.ev(a, env) for a in node.args])
                return tuple(r) if node.func.attr in ("items", "keys", "values") else r
        if isinstance(node, ast.Call) and not any(k.arg is None for k in node.keywords) and not any(isinstance(a, ast.Starred) for a in node.args):
            f = self.ev(node.func, env)
            if callable(f):
                return f(*[self.ev(a, env) for a in node.args], **{k.arg: self.ev(k.value, env) for k in node.keywords})
        raise FevalError(f"unsupported {type(node).__name__} in a pure function")


_NORET = object()
_BREAK = object()
_CONT = object()


class BlockOutcome(Exception):
    def __init__(self, kind, node=None):
        self.kind, self.node = kind, node


class WitnessRaise(BlockOutcome):
    """An operation of the evaluated code on witness VALUES (subscript, arithmetic, comparison) raises a builtin exception: the code under
    evaluation stops there, exactly as it would when run - not a gap of the evaluator."""

    def __init__(self, node, exc):
        super().__init__("raise", node)
        self.exc = exc


class BlockEval(PureEval):
    """Straight-line evaluation of a short block over small concrete sets / scalars: exhaustive over an explicitly enumerated finite
    domain of inputs (e.g. every subset of three flag names the compiler can set).  Supports assignment, set-valued augmented
    assignment, the mutating set methods on local names, assert / raise (reported as outcomes), if, cast()."""

    def run_block(self, stmts, env, stop=None):
        """Run until `stop` (a node) is about to be evaluated; returns the env.  Raises BlockOutcome('raise'|'assert')."""
        for st in stmts:
            if stop is not None and any(x is stop for x in ast.walk(st)) and not isinstance(st, ast.If):
                return env, True
            if isinstance(st, ast.Expr) and isinstance(st.value, ast.Constant):
                continue
            if isinstance(st, ast.Assert):
                if not self.ev(st.test, env):
                    raise BlockOutcome("assert", st)
                continue
            if isinstance(st, ast.Raise):
                raise BlockOutcome("raise", st)
            if isinstance(st, ast.If):
                env, hit = self.run_block(st.body if self.ev(st.test, env) else st.orelse, env, stop)
                if hit:
                    return env, True
                continue
            if isinstance(st, ast.Assign) and len(st.targets) == 1:
                self._bind(st.targets[0], self.ev(st.value, env), env)
                continue
            if isinstance(st, ast.AnnAssign) and isinstance(st.target, ast.Name):
                if st.value is not None:
                    env[st.target.id] = self.ev(st.value, env)
                continue
            if isinstance(st, ast.AugAssign) and isinstance(st.target, ast.Name) and st.target.id in env:
                env[st.target.id] = _BIN[type(st.op)](env[st.target.id], self.ev(st.value, env))
                continue
            if isinstance(st, ast.Expr):
                self.ev(st.value, env)
                continue
            raise FevalError(f"statement {type(st).__name__} in a block")
        return env, False

    def ev(self, node, env):
        if isinstance(node, ast.Call) and isinstance(node.func, ast.Name) and node.func.id == "cast" and len(node.args) == 2:
            return self.ev(node.args[1], env)
        if isinstance(node, ast.Call) and isinstance(node.func, ast.Attribute) and isinstance(node.func.value, ast.Name) and node.func.value.id in env:
            base = env[node.func.value.id]
            m = node.func.attr
            if isinstance(base, (set, frozenset)):
                args = [self.ev(a, env) for a in node.args]
                if m == "pop" and not args:
                    if len(base) != 1 and not (getattr(self, "arbitrary_pop", False) and base):
                        raise FevalError("pop() from a set that is not a singleton")
                    x = sorted(base, key=repr)[0]  # (with arbitrary_pop: any member - the caller only asks whether the block raises)
                    env[node.func.value.id] = set(base) - {x}
                    return x
                if m in ("remove", "discard"):
                    if m == "remove" and args[0] not in base:
                        raise BlockOutcome("raise", node)
                    env[node.func.value.id] = set(base) - {args[0]}
                    return None
                if m == "add":
                    env[node.func.value.id] = set(base) | {args[0]}
                    return None
                if m in ("update", "difference_update", "intersection_update"):
                    o = set(args[0])
                    env[node.func.value.id] = {"update": set(base) | o, "difference_update": set(base) - o, "intersection_update": set(base) & o}[m]
                    return None
                if m in ("isdisjoint", "issubset", "issuperset", "union", "intersection", "difference", "copy"):
                    return getattr(frozenset(base), m)(*args)
        if isinstance(node, ast.Set):
            return frozenset(self.ev(e, env) for e in node.elts)
        if isinstance(node, ast.JoinedStr):
            return "<text>"
        return super().ev(node, env)


class ChainEnv(dict):
    """The frame of a helper function defined inside another function: names it binds are its own, names it declares nonlocal are written to
    the enclosing frame, every other name is read from the enclosing frame."""

    def __init__(self, parent, nonlocals):
        super().__init__()
        self.parent, self.nonlocals = parent, set(nonlocals)

    def __contains__(self, k):
        return dict.__contains__(self, k) or k in self.parent

    def __getitem__(self, k):
        if dict.__contains__(self, k):
            return dict.__getitem__(self, k)
        return self.parent[k]

    def get(self, k, d=None):
        return self[k] if k in self else d

    def __setitem__(self, k, v):
        if k in self.nonlocals:
            self.parent[k] = v
        else:
            dict.__setitem__(self, k, v)

    def pop(self, k, *d):
        if dict.__contains__(self, k):
            return dict.pop(self, k)
        return d[0] if d else None


def _flat(e):
    """A snapshot of a frame for a comprehension scope (which only reads the enclosing names)."""
    if isinstance(e, ChainEnv):
        out = _flat(e.parent)
        out.update(dict.items(e))
        return out
    return dict(e)


class _Ret(Exception):
    def __init__(self, value):
        self.value = value


class _Brk(Exception):
    pass


class _Cnt(Exception):
    pass


class Obj(dict):
    """An instance in ObjEval: attribute name -> value.  Truthiness is that of an instance (True unless the class under evaluation defines
    __bool__ / __len__, which the running evaluator folds), not that of the dict that models it."""
    _truth_hook = None
    _eq_hook = None
    _hash_hook = None

    def __bool__(self):
        h = Obj._truth_hook
        return True if h is None else h(self)

    def __eq__(self, other):
        h = Obj._eq_hook
        return dict.__eq__(self, other) if h is None else h(self, other)

    def __ne__(self, other):
        r = self.__eq__(other)
        return r if r is NotImplemented else not r

    def __hash__(self):
        h = Obj._hash_hook
        if h is None:
            raise TypeError("unhashable instance model")
        return h(self)


class ObjEval(BlockEval):
    """Evaluation of the methods of one small bookkeeping class (a table with a few dict / set attributes) on an explicitly enumerated,
    finite set of witness call sequences: attribute and subscript stores on the instance, calls between its methods, generators (the
    yielded values are returned as a tuple), bounded loops.  Anything outside that fragment raises FevalError."""

    def call(self, fn_node, *args):
        # functions passed as values (map(f, xs)) run with the same statement fragment as direct calls
        return self.call_method(fn_node, *args)

    MAX_ITER = 64
    MAX_STEPS = 20000

    def __init__(self, resolve, extra=None, methods=None):
        super().__init__(resolve, extra)
        self.methods = methods or {}
        self._yields = []
        self.steps = 0
        self.lib["len"] = self._len
        self.lib["isinstance"] = self._isinstance
        self.lib.setdefault("replace", self._replace)
        self.class_methods = {}
        self.class_fields = {}
        self.class_frozen = {}
        self.class_props = {}
        self.class_all_fields = {}

    def _eq(self, a, b):
        ms = self._methods_of(a)
        if "__eq__" in ms and a.get("__cls__") in self.class_methods:
            r = self.call_method(ms["__eq__"], a, b)
            return False if r is NotImplemented else bool(r)
        if not isinstance(b, Obj) or a.get("__cls__") != b.get("__cls__"):
            return False
        fs = self.class_fields.get(a.get("__cls__"))
        if fs is None:
            return dict.__eq__(a, b)
        return all(a.get(f) == b.get(f) for f in fs)

    def _hash(self, a):
        ms = self._methods_of(a)
        c = a.get("__cls__")
        if "__hash__" in ms and c in self.class_methods:
            return self.call_method(ms["__hash__"], a)
        if not self.class_frozen.get(c):
            raise TypeError(f"unhashable type: '{c}'")
        return hash((c, tuple(a.get(f) for f in self.class_fields[c])))

    def register_class(self, ci):
        """Make the data class `ci` (sa.model.ClassInfo) constructible by name: instances are Obj with `__cls__`, defaults and default
        factories are folded, __post_init__ runs, methods dispatch by the instance's class, isinstance() knows the name."""
        names = [fl.name for fl in ci.fields]
        self.class_methods[ci.name] = {m.name: m.node for m in ci.methods.values() if isinstance(m.node, ast.FunctionDef)}
        self.class_fields[ci.name] = [fl.name for fl in ci.fields if getattr(fl, "flags", {}).get("compare", True) is not False]
        self.class_all_fields[ci.name] = list(names)
        self.class_props[ci.name] = {m.name: m.node for m in ci.methods.values() if isinstance(m.node, ast.FunctionDef) and "property" in getattr(m, "decorators", ())}
        self.class_frozen[ci.name] = bool(ci.is_dataclass and ci.dc_args.get("frozen") is True and ci.dc_args.get("eq") is not False)

        def make(*a, **kw):
            if len(a) > len(names):
                raise FevalError(f"too many positional arguments for {ci.name}")
            kw = dict(zip(names, a), **kw)
            if set(kw) - set(names):
                raise FevalError(f"unexpected keyword for {ci.name}")
            obj = Obj({"__cls__": ci.name})
            for fl in ci.fields:
                if fl.name in kw:
                    obj[fl.name] = kw[fl.name]
                elif fl.default_factory is not None:
                    obj[fl.name] = self.ev(ast.Call(func=fl.default_factory, args=[], keywords=[]), {})
                elif fl.default is not None:
                    obj[fl.name] = self.ev(fl.default, {})
                else:
                    raise FevalError(f"{ci.name}() without {fl.name}")
            post = self.class_methods[ci.name].get("__post_init__")
            if post is not None:
                self.call_method(post, obj)
            return obj
        make.cls_name = ci.name
        self.lib[ci.name] = make
        return make

    def _iterate(self, v):
        """iter(v): an instance iterates through its class's __iter__ (a generator: the tuple of what it yields)."""
        if isinstance(v, Obj):
            ms = self._methods_of(v)
            if "__iter__" not in ms:
                raise FevalError("iteration over an instance without __iter__")
            return list(self.call_method(ms["__iter__"], v))
        return list(v)

    def _replace(self, obj, **changes):
        """dataclasses.replace: a new instance of the same class through its constructor."""
        if not isinstance(obj, Obj) or not callable(self.lib.get(obj.get("__cls__"))) or not hasattr(self.lib[obj["__cls__"]], "cls_name"):
            raise FevalError("replace() of something that is not an instance of a registered data class")
        kw = {k: v for k, v in obj.items() if k != "__cls__" and k in self.class_all_fields.get(obj["__cls__"], ())}
        kw.update(changes)
        return self.lib[obj["__cls__"]](**kw)

    def _methods_of(self, x):
        if isinstance(x, Obj) and x.get("__cls__") in self.class_methods:
            return self.class_methods[x["__cls__"]]
        return self.methods

    def _isinstance(self, x, cls):
        cs = cls if isinstance(cls, tuple) else (cls,)
        for c in cs:
            name = getattr(c, "cls_name", None)
            if name is not None:
                if isinstance(x, Obj) and x.get("__cls__") == name:
                    return True
            elif isinstance(c, type):
                if isinstance(x, c) and not (isinstance(x, Obj) and c in (dict, object)):
                    return True
            else:
                raise FevalError("isinstance() against something that is not a class")
        return False

    def _len(self, x):
        if isinstance(x, Obj):
            ms = self._methods_of(x)
            if "__len__" in ms:
                return self.call_method(ms["__len__"], x)
            raise FevalError("len() of an instance without __len__")
        return len(x)

    def _truth(self, x):
        ms = self._methods_of(x)
        if "__bool__" in ms:
            return bool(self.call_method(ms["__bool__"], x))
        if "__len__" in ms:
            return self.call_method(ms["__len__"], x) != 0
        return True

    def call_method(self, fn_node, *args, **kwargs):
        a = fn_node.args
        names = [x.arg for x in a.posonlyargs + a.args]
        env = dict(zip(names, args))
        defaults = dict(zip(names[len(names) - len(a.defaults):], a.defaults))
        for k, v in kwargs.items():
            env[k] = v
        for k, d in defaults.items():
            if k not in env:
                env[k] = self.ev(d, {})
        if len(env) != len(names):
            raise FevalError("arity")
        own = [n for n in ast.walk(fn_node) if isinstance(n, (ast.Yield, ast.YieldFrom))]
        self.depth += 1
        if self.depth > 20:
            raise FevalError("recursion too deep")
        if own:
            self._yields.append([])
        prev_hook = (Obj._truth_hook, Obj._eq_hook, Obj._hash_hook)
        Obj._truth_hook, Obj._eq_hook, Obj._hash_hook = self._truth, self._eq, self._hash
        try:
            try:
                self.exec(fn_node.body, env)
                r = None
            except _Ret as ret:
                r = ret.value
            if own:
                return tuple(self._yields[-1])
            return r
        finally:
            Obj._truth_hook, Obj._eq_hook, Obj._hash_hook = prev_hook
            self.depth -= 1
            if own:
                self._yields.pop()

    def _store(self, target, value, env):
        if isinstance(target, ast.Name):
            env[target.id] = value
        elif isinstance(target, (ast.Tuple, ast.List)):
            vals = list(value)
            if len(vals) != len(target.elts):
                raise FevalError("unpacking mismatch")
            for t, v in zip(target.elts, vals):
                self._store(t, v, env)
        elif isinstance(target, ast.Attribute):
            base = self.ev(target.value, env)
            if not isinstance(base, Obj):
                raise FevalError("attribute store on a non-instance")
            base[target.attr] = value
        elif isinstance(target, ast.Subscript):
            base = self.ev(target.value, env)
            if isinstance(base, Obj) and "__setitem__" in self._methods_of(base):
                self.call_method(self._methods_of(base)["__setitem__"], base, self.ev(target.slice, env), value)
                return
            if not isinstance(base, (dict, list, bytearray)) or isinstance(base, Obj):
                raise FevalError("subscript store on an unsupported object")
            base[self.ev(target.slice, env)] = value
        else:
            raise FevalError("store target")

    def exec(self, stmts, env):
        for st in stmts:
            self.steps += 1
            if self.steps > self.MAX_STEPS:
                raise FevalError("too many steps")
            if isinstance(st, ast.Expr) and isinstance(st.value, ast.Constant):
                continue
            if isinstance(st, (ast.Pass, ast.Import, ast.ImportFrom, ast.Nonlocal)):
                continue
            if isinstance(st, ast.FunctionDef):
                # a helper defined inside the function: it runs in the frame that defines it, which is exact when it has no parameters
                # and every name it binds is declared nonlocal (the only form accepted)
                a = st.args
                declared = {x for n in ast.walk(st) if isinstance(n, ast.Nonlocal) for x in n.names}
                if a.kwonlyargs or a.vararg or a.kwarg or a.defaults or st.decorator_list \
                        or any(isinstance(n, (ast.Yield, ast.YieldFrom, ast.Lambda, ast.Global)) or (isinstance(n, ast.FunctionDef) and n is not st) for n in ast.walk(st)):
                    raise FevalError(f"nested function {st.name} is not a plain helper (positional parameters, nonlocal names)")
                pnames = [x.arg for x in a.posonlyargs + a.args]

                def _closure(*args, _st=st, _env=env, _declared=declared, _pnames=pnames):
                    if len(args) != len(_pnames):
                        raise FevalError("arity")
                    self.depth += 1
                    if self.depth > 20:
                        raise FevalError("recursion too deep")
                    frame = ChainEnv(_env, _declared)
                    for k_, v_ in zip(_pnames, args):
                        dict.__setitem__(frame, k_, v_)
                    try:
                        self.exec(_st.body, frame)
                        return None
                    except _Ret as ret:
                        return ret.value
                    finally:
                        self.depth -= 1
                env[st.name] = _closure
                continue
            if isinstance(st, ast.Return):
                raise _Ret(self.ev(st.value, env) if st.value is not None else None)
            if isinstance(st, ast.Assert):
                if not self.ev(st.test, env):
                    raise BlockOutcome("assert", st)
                continue
            if isinstance(st, ast.Raise):
                raise BlockOutcome("raise", st)
            if isinstance(st, ast.If):
                self.exec(st.body if self.ev(st.test, env) else st.orelse, env)
                continue
            if isinstance(st, ast.Assign):
                v = self.ev(st.value, env)
                for t in st.targets:
                    self._store(t, v, env)
                continue
            if isinstance(st, ast.AnnAssign):
                if st.value is not None:
                    self._store(st.target, self.ev(st.value, env), env)
                continue
            if isinstance(st, ast.AugAssign):
                cur = self.ev(_as_load(st.target), env)
                self._store(st.target, _BIN[type(st.op)](cur, self.ev(st.value, env)), env)
                continue
            if isinstance(st, ast.Expr):
                self.ev(st.value, env)
                continue
            if isinstance(st, ast.Delete):
                for t in st.targets:
                    if isinstance(t, ast.Name):
                        env.pop(t.id, None)
                    elif isinstance(t, ast.Subscript):
                        del self.ev(t.value, env)[self.ev(t.slice, env)]
                    else:
                        raise FevalError("del target")
                continue
            if isinstance(st, ast.For):
                seq = self._iterate(self.ev(st.iter, env))
                if len(seq) > self.MAX_ITER:
                    raise FevalError("loop too long")
                broke = False
                for x in seq:
                    self._store(st.target, x, env)
                    try:
                        self.exec(st.body, env)
                    except _Brk:
                        broke = True
                        break
                    except _Cnt:
                        continue
                if not broke:
                    self.exec(st.orelse, env)
                continue
            if isinstance(st, ast.While):
                n = 0
                broke = False
                while self.ev(st.test, env):
                    n += 1
                    if n > self.MAX_ITER:
                        raise FevalError("loop too long")
                    try:
                        self.exec(st.body, env)
                    except _Brk:
                        broke = True
                        break
                    except _Cnt:
                        continue
                if not broke:
                    self.exec(st.orelse, env)
                continue
            if isinstance(st, ast.With):
                # a context manager modelled as the value it yields (files, warnings.catch_warnings()): no __exit__ effects
                for item in st.items:
                    v = self.ev(item.context_expr, env)
                    if isinstance(v, dict) and callable(v.get("__enter__")):
                        v = v["__enter__"]()
                    if item.optional_vars is not None:
                        self._store(item.optional_vars, v, env)
                self.exec(st.body, env)
                continue
            if isinstance(st, ast.Break):
                raise _Brk()
            if isinstance(st, ast.Continue):
                raise _Cnt()
            if isinstance(st, ast.Try) and not st.finalbody and all(h.type is not None for h in st.handlers):
                # `try: <pure builtin call> except <builtin exception>:` - the exception a real builtin raises on the witness value selects the handler
                import builtins as _b
                kinds = []
                for h in st.handlers:
                    names = [x.id for x in (h.type.elts if isinstance(h.type, ast.Tuple) else [h.type]) if isinstance(x, ast.Name)]
                    ts = tuple(getattr(_b, n_) for n_ in names if isinstance(getattr(_b, n_, None), type) and issubclass(getattr(_b, n_), BaseException))
                    if len(ts) != len(names) or not ts:
                        raise FevalError("except clause over a non-builtin exception")
                    kinds.append(ts)
                try:
                    try:
                        self.exec(st.body, env)
                    except WitnessRaise as w:
                        raise w.exc
                except (_Ret, _Brk, _Cnt, BlockOutcome, FevalError):
                    raise
                except Exception as ex:  # noqa: BLE001 - raised by a builtin applied to a witness value
                    for h, ts in zip(st.handlers, kinds):
                        if isinstance(ex, ts):
                            if h.name:
                                env[h.name] = ex
                            self.exec(h.body, env)
                            break
                    else:
                        raise
                else:
                    self.exec(st.orelse, env)
                continue
            raise FevalError(f"statement {type(st).__name__}")

    def ev(self, node, env):
        if isinstance(node, ast.Yield):
            if not self._yields:
                raise FevalError("yield outside a generator")
            self._yields[-1].append(self.ev(node.value, env) if node.value is not None else None)
            return None
        if isinstance(node, ast.YieldFrom):
            self._yields[-1].extend(self._iterate(self.ev(node.value, env)))
            return None
        if isinstance(node, ast.Set):
            return {self.ev(e, env) for e in node.elts}  # (a real set: this evaluator has reference semantics for containers)
        if isinstance(node, ast.NamedExpr):
            v = self.ev(node.value, env)
            env[node.target.id] = v
            return v
        if isinstance(node, ast.Dict):
            out = {}
            for k, v in zip(node.keys, node.values):
                if k is None:
                    out.update(self.ev(v, env))
                else:
                    out[self.ev(k, env)] = self.ev(v, env)
            return out
        if isinstance(node, ast.Call) and isinstance(node.func, ast.Name):
            target = self.resolve(node.func.id) if node.func.id not in env else None
            star = [k for k in node.keywords if k.arg is None]
            if target is not None or star or any(isinstance(a, ast.Starred) for a in node.args):
                args = []
                for a in node.args:
                    if isinstance(a, ast.Starred):
                        args.extend(self.ev(a.value, env))
                    else:
                        args.append(self.ev(a, env))
                kwargs = {k.arg: self.ev(k.value, env) for k in node.keywords if k.arg}
                for k in star:
                    kwargs.update(self.ev(k.value, env))
                if target is not None:
                    return self.call_method(target, *args, **kwargs)
                f = self.ev(node.func, env)
                if callable(f):
                    return f(*args, **kwargs)
                raise FevalError(f"call of {node.func.id}")
        if isinstance(node, (ast.List, ast.Tuple)) and any(isinstance(e, ast.Starred) for e in node.elts):
            out = []
            for e in node.elts:
                if isinstance(e, ast.Starred):
                    out.extend(self.ev(e.value, env))
                else:
                    out.append(self.ev(e, env))
            return out if isinstance(node, ast.List) else tuple(out)
        if isinstance(node, ast.List):
            return [self.ev(e, env) for e in node.elts]
        if isinstance(node, ast.Attribute):
            base = self.ev(node.value, env)
            if isinstance(base, Obj) and node.attr not in base and node.attr in getattr(self, "properties", {}):
                return self.call_method(self.properties[node.attr], base)
            if isinstance(base, Obj) and node.attr not in base and node.attr in self.class_props.get(base.get("__cls__"), {}):
                return self.call_method(self.class_props[base["__cls__"]][node.attr], base)
            if isinstance(base, Obj) and node.attr in base:
                return base[node.attr]
            if isinstance(base, dict) and not isinstance(base, Obj) and node.attr in base:
                return base[node.attr]
            if node.attr in ("real", "imag") and isinstance(base, (complex, float, int)):
                return getattr(base, node.attr)
            raise FevalError(f"attribute {node.attr}")
        if isinstance(node, ast.Subscript) and isinstance(node.value, ast.Name) and node.value.id not in env and hasattr(self.lib.get(node.value.id), "cls_name"):
            return self.lib[node.value.id]  # Table[str]: the class itself
        if isinstance(node, ast.DictComp):
            out = {}

            def rec(gi, e):
                if gi == len(node.generators):
                    out[self.ev(node.key, e)] = self.ev(node.value, e)
                    return
                g = node.generators[gi]
                for x in list(self.ev(g.iter, e)):
                    e2 = _flat(e)
                    self._bind(g.target, x, e2)
                    if all(self.ev(c, e2) for c in g.ifs):
                        rec(gi + 1, e2)
            rec(0, _flat(env))
            return out
        if isinstance(node, ast.Call) and isinstance(node.func, ast.Attribute):
            base = self.ev(node.func.value, env)
            m = node.func.attr
            args = [self.ev(a, env) for a in node.args]
            kwargs = {k.arg: self.ev(k.value, env) for k in node.keywords if k.arg}
            if isinstance(base, Obj):
                if m in self._methods_of(base):
                    return self.call_method(self._methods_of(base)[m], base, *args, **kwargs)
                if m in base and callable(base[m]):
                    return base[m](*args, **kwargs)
                raise FevalError(f"method {m}")
            if isinstance(base, dict) and m in base and callable(base[m]):
                return base[m](*args, **kwargs)  # a module modelled as a dict of names
            if isinstance(base, type) and (base.__name__, m) in (("int", "from_bytes"), ("chain", "from_iterable"), ("bytes", "fromhex"), ("dict", "fromkeys")):
                return getattr(base, m)(*args, **kwargs)  # alternative constructors of immutable / fresh values
            if isinstance(base, (int, float, complex, str, bytes)) and not m.startswith("_") and hasattr(base, m):
                return getattr(base, m)(*args, **kwargs)  # methods of immutable scalars are pure
            if isinstance(base, (dict, list, set, tuple, frozenset, str)) and m in (
                    "get", "setdefault", "append", "add", "pop", "update", "extend", "items", "keys", "values", "count", "index", "discard", "remove",
                    "insert", "copy", "union", "intersection", "difference", "isdisjoint", "issubset", "issuperset", "most_common", "clear"):
                r = getattr(base, m)(*args, **kwargs)
                return tuple(r) if m in ("items", "keys", "values") else r
            raise FevalError(f"call of .{m} on {type(base).__name__}")
        if isinstance(node, (ast.Subscript, ast.BinOp, ast.Compare, ast.UnaryOp)):
            try:
                return super().ev(node, env)
            except (TypeError, KeyError, IndexError, ZeroDivisionError, OverflowError) as ex:
                raise WitnessRaise(node, ex)
        return super().ev(node, env)


def _as_load(t):
    import copy
    t2 = copy.deepcopy(t)
    for n in ast.walk(t2):
        if hasattr(n, "ctx"):
            n.ctx = ast.Load()
    return t2
