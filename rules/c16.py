"""C16 - the command line prints what the API returns for the same program (DESIGN 5, R16.1-R16.4)."""
from __future__ import annotations

import ast
from typing import Dict, List, Optional, Set, Tuple

from sa.analysis import Analysis
from sa.feval import FevalError, feval
from sa.model import AnalysisError, FunctionInfo, loc, norm_src

from .common import attr_chain
from .encode_model import conj, guards_of, inline_locals, parent_map


def parser_options(an: Analysis) -> Dict[str, dict]:
    """dest -> {flags, action, positional} for every add_argument of the module-level parser."""
    m = an.prog.module("code_data._cli")
    out: Dict[str, dict] = {}
    for n in ast.walk(m.tree):
        if isinstance(n, ast.Call) and isinstance(n.func, ast.Attribute) and n.func.attr == "add_argument":
            flags = [a.value for a in n.args if isinstance(a, ast.Constant) and isinstance(a.value, str)]
            kw = {k.arg: k.value for k in n.keywords}
            action = kw["action"].value if "action" in kw and isinstance(kw["action"], ast.Constant) else None
            if "dest" in kw and isinstance(kw["dest"], ast.Constant):
                dest = kw["dest"].value
            else:
                longs = [f for f in flags if f.startswith("--")]
                base = longs[0] if longs else flags[0]
                dest = base.lstrip("-").replace("-", "_")
            out[dest] = {"flags": flags, "action": action, "positional": not flags[0].startswith("-"), "node": n}
    if len(out) < 5:
        raise AnalysisError("command-line options (parser.add_argument calls) not found")
    return out


_NS_NAMES = {"args"}


def namespace_names(fn: FunctionInfo):
    """Names bound to the parsed command line, by role: assigned from `<parser>.parse_args()` (or parse_known_args()[0])."""
    out = set()
    for n in ast.walk(fn.node):
        if isinstance(n, ast.Assign) and len(n.targets) == 1 and isinstance(n.targets[0], ast.Name):
            v = n.value
            if isinstance(v, ast.Subscript):
                v = v.value
            if isinstance(v, ast.Call) and isinstance(v.func, ast.Attribute) and v.func.attr in ("parse_args", "parse_known_args", "parse_intermixed_args"):
                out.add(n.targets[0].id)
    return out or {"args"}


def unpack_map(fn: FunctionInfo) -> Dict[str, str]:
    """local name -> args.<dest>, from `a, b = args.x, args.y` or single assignments."""
    global _NS_NAMES
    _NS_NAMES = namespace_names(fn)
    res: Dict[str, str] = {}
    for n in ast.walk(fn.node):
        if isinstance(n, ast.Assign) and len(n.targets) == 1:
            t, v = n.targets[0], n.value
            pairs = []
            if isinstance(t, ast.Tuple) and isinstance(v, ast.Tuple) and len(t.elts) == len(v.elts):
                pairs = list(zip(t.elts, v.elts))
            elif isinstance(t, ast.Name):
                pairs = [(t, v)]
            for tt, vv in pairs:
                if isinstance(tt, ast.Name) and isinstance(vv, ast.Attribute) and isinstance(vv.value, ast.Name) and vv.value.id in _NS_NAMES:
                    res[tt.id] = vv.attr
    return res


def dest_of(e, umap) -> Optional[str]:
    if isinstance(e, ast.Name):
        return umap.get(e.id)
    if isinstance(e, ast.Attribute) and isinstance(e.value, ast.Name) and e.value.id in _NS_NAMES:
        return e.attr
    return None


def count_expr_vars(test, umap) -> Optional[Tuple[List[str], str]]:
    """Recognise the 'number of given sources' expression: returns (dests, predicate) with predicate in truthy|notnone."""
    for n in ast.walk(test):
        # len(list(filter(None, [..])))  /  len([x for x in [..] if x is not None]) / sum(x is not None for x in [..])
        if isinstance(n, ast.Call) and isinstance(n.func, ast.Name) and n.func.id == "filter" and len(n.args) == 2 and isinstance(n.args[1], (ast.List, ast.Tuple)):
            pred = "truthy" if (isinstance(n.args[0], ast.Constant) and n.args[0].value is None) or (isinstance(n.args[0], ast.Name) and n.args[0].id == "bool") else None
            if pred is None and isinstance(n.args[0], ast.Lambda):
                pred = _pred_of(n.args[0].body, n.args[0].args.args[0].arg)
            return [dest_of(e, umap) for e in n.args[1].elts], pred
        if isinstance(n, (ast.ListComp, ast.GeneratorExp)) and len(n.generators) == 1 and isinstance(n.generators[0].iter, (ast.List, ast.Tuple)):
            g = n.generators[0]
            var = g.target.id if isinstance(g.target, ast.Name) else None
            pred = None
            if g.ifs:
                pred = _pred_of(g.ifs[0], var)
            elif not (isinstance(n.elt, ast.Name) and n.elt.id == var):
                pred = _pred_of(n.elt, var)
            return [dest_of(e, umap) for e in g.iter.elts], pred
        if isinstance(n, ast.Call) and isinstance(n.func, ast.Name) and n.func.id == "map" and len(n.args) == 2 and isinstance(n.args[1], (ast.List, ast.Tuple)):
            pred = "truthy" if isinstance(n.args[0], ast.Name) and n.args[0].id == "bool" else None
            return [dest_of(e, umap) for e in n.args[1].elts], pred
    return None


def _pred_of(e, var) -> Optional[str]:
    if isinstance(e, ast.Name) and e.id == var:
        return "truthy"
    if isinstance(e, ast.Compare) and len(e.ops) == 1 and isinstance(e.left, ast.Name) and e.left.id == var \
            and isinstance(e.comparators[0], ast.Constant) and e.comparators[0].value is None:
        if isinstance(e.ops[0], ast.IsNot):
            return "notnone"
    if isinstance(e, ast.Call) and isinstance(e.func, ast.Name) and e.func.id == "bool":
        return "truthy"
    return None


def run(an: Analysis, rep):
    rep.explanation = (
        "Decides, on the source of the console entry point: the 'exactly one source' validation and the dispatch chain range over the "
        "same four options (the positional file and -c/-e/-m as declared on the parser) and apply the same null test to each; each "
        "source variable is used in the role of its option (eval'd, compiled as \"<string>\" after un-escaping newlines, looked up as a "
        "module, read from a path); the object printed, the receiver of to_json_data() and the receiver of to_code() are the same "
        "variable, whose only definitions are CodeData.from_code(code) and normalize() of itself; normalize runs exactly when "
        "--no-normalize is absent and --json/--dis/--dis-after/--source each guard their own output. R16.F folds the entry point over every "
        "combination of the five flags for each of the four sources, and over 0 / 2 / 3 / 4 sources, with compile / eval / the file system / "
        "importlib / from_code / normalize / the console replaced by recording symbols. Exit status and rendered text "
        "are not decided."
    )
    rep.rule("R16.1", "validation and dispatch use one option set and one null test", 3)
    rep.rule("R16.2", "each source variable is used in the role of its option", 4)
    rep.rule("R16.3", "printed value, JSON value and re-encoded value are the same definition", 4)
    rep.rule("R16.4", "flag polarity", 4)
    rep.run(r16f, an, rep)
    rep.run(r169, an, rep)
    fn = an.prog.function("code_data._cli::main")
    m = fn.module
    opts = parser_options(an)
    umap = unpack_map(fn)
    sources = sorted(d for d, o in opts.items() if o["action"] is None)  # value-taking options
    # ---- R16.1
    validation = None
    for n in ast.walk(fn.node):
        if isinstance(n, ast.If) and any(isinstance(c, ast.Call) and isinstance(c.func, ast.Attribute) and c.func.attr in ("error", "exit") for b in n.body for c in ast.walk(b)):
            r = count_expr_vars(inline_locals(fn.node, n.test), umap)
            if r:
                validation = (n, r)
    if validation is None:
        raise AnalysisError(f"{fn.qual}: 'exactly one source' validation not recognised")
    vnode, (vdests, vpred) = validation
    if vpred is None or None in vdests:
        raise AnalysisError(f"{fn.qual}: validation predicate / variables not recognised in {norm_src(vnode.test)}")
    # dispatch chain: the if/elif chain whose bodies call compile()/get_code
    chain = None
    for st in fn.node.body:
        if isinstance(st, ast.If) and any(isinstance(c, ast.Call) and isinstance(c.func, ast.Name) and c.func.id == "compile" for c in ast.walk(st)):
            chain = st
    if chain is None:
        raise AnalysisError(f"{fn.qual}: source dispatch chain not recognised")
    ddests, dpreds = [], []
    node = chain
    while True:
        t = node.test
        d = p = None
        if isinstance(t, ast.Compare) and len(t.ops) == 1 and isinstance(t.comparators[0], ast.Constant) and t.comparators[0].value is None and isinstance(t.ops[0], ast.IsNot):
            d, p = dest_of(t.left, umap), "notnone"
        elif isinstance(t, (ast.Name, ast.Attribute)):
            d, p = dest_of(t, umap), "truthy"
        if d is None:
            raise AnalysisError(f"{fn.qual}: dispatch test {norm_src(t)} not recognised")
        ddests.append(d)
        dpreds.append(p)
        if len(node.orelse) == 1 and isinstance(node.orelse[0], ast.If):
            node = node.orelse[0]
        else:
            break
    ok = sorted(vdests) == sorted(ddests) == sources
    rep.add("R16.1", f"{fn.qual}::validation and dispatch cover the declared source options", ok, loc(m, vnode),
            f"both range over {sources}" if ok else f"validation counts {sorted(vdests)}, dispatch tests {sorted(ddests)}, the parser declares the source options {sources}")
    same_pred = all(p == vpred for p in dpreds)
    rep.add("R16.1", f"{fn.qual}::validation and dispatch apply the same null test", same_pred, loc(m, vnode),
            f"both use '{vpred}'" if same_pred else
            f"the validation counts sources by '{vpred}' ({norm_src(vnode.test)}) but the dispatch selects by {sorted(set(dpreds))}: an empty string is a valid, given "
            f"program for the dispatch and 'not given' for the validation, so `-c ''` is rejected although exactly one source was given and `-c '' file.py` is "
            f"accepted although two were")
    cmp_ok = False
    for n in ast.walk(vnode.test):
        if isinstance(n, ast.Compare) and len(n.ops) == 1 and isinstance(n.ops[0], ast.NotEq) and isinstance(n.comparators[0], ast.Constant) and n.comparators[0].value == 1:
            cmp_ok = True
    rep.add("R16.1", f"{fn.qual}::usage error unless exactly one", cmp_ok, loc(m, vnode), "`!= 1` -> parser.error" if cmp_ok else f"validation is {norm_src(vnode.test)}, not 'count != 1'")
    # ---- R16.2 roles
    roles: Dict[str, str] = {}
    node = chain
    i = 0
    while True:
        d = ddests[i]
        body = node.body
        calls = [c for b in body for c in ast.walk(b) if isinstance(c, ast.Call)]
        names = {(attr_chain(c.func) or "").split(".")[-1] for c in calls}
        src = "\n".join(norm_src(b) for b in body)
        role = None
        if "eval" in names:
            role = "e"
        elif "read_text" in names or "read" in names or "open" in names:
            role = "file"
        elif "find_spec" in names or "get_code" in names or "import_module" in names:
            role = "m"
        elif "compile" in names:
            role = "c"
        var_used = any(isinstance(x, ast.Name) and umap.get(x.id) == d for b in body for x in ast.walk(b))
        ok = role == d and var_used
        detail = f"the arm selected by `{d}` {'evaluates' if role == 'e' else 'reads' if role == 'file' else 'imports' if role == 'm' else 'compiles'} it"
        if role == "c":
            comp = [c for c in calls if isinstance(c.func, ast.Name) and c.func.id == "compile"]
            fname_ok = comp and len(comp[0].args) >= 3 and isinstance(comp[0].args[1], ast.Constant) and comp[0].args[1].value == "<string>" \
                and isinstance(comp[0].args[2], ast.Constant) and comp[0].args[2].value == "exec"
            repl = any(isinstance(c.func, ast.Attribute) and c.func.attr == "replace" and len(c.args) == 2 and isinstance(c.args[0], ast.Constant) and c.args[0].value == "\\n"
                       and isinstance(c.args[1], ast.Constant) and c.args[1].value == "\n" for c in calls)
            ok = ok and bool(fname_ok) and repl
            detail += " as \"<string>\" in exec mode after replacing escaped newlines"
            # the text compiled is the option's text with that replacement only
            if comp and comp[0].args:
                txt = inline_locals(ast.Module(body=body, type_ignores=[]), comp[0].args[0])
                while isinstance(txt, ast.Call) and isinstance(txt.func, ast.Name) and txt.func.id == "cast" and len(txt.args) == 2:
                    txt = txt.args[1]
                verbatim = isinstance(txt, ast.Name) and umap.get(txt.id) == d
                unescape = (isinstance(txt, ast.Call) and isinstance(txt.func, ast.Attribute) and txt.func.attr == "replace" and isinstance(txt.func.value, ast.Name)
                            and umap.get(txt.func.value.id) == d and len(txt.args) == 2 and isinstance(txt.args[0], ast.Constant) and txt.args[0].value == "\\n")
                if unescape:
                    rep.add("R16.2", f"{fn.qual}::the text given with -{d} is compiled as given (escaped newlines)", False, loc(m, comp[0]),
                            f"compile() receives `{norm_src(txt)[:60]}`: every backslash-n pair of the text becomes a newline, also inside string literals - the valid program "
                            f"`x = \"a\\nb\"` given with -{d} is a SyntaxError, `x = r'a\\nb'` is decoded with a newline in the constant")
                else:
                    rep.add("R16.2", f"{fn.qual}::the text given with -{d} is compiled as given", verbatim, loc(m, comp[0]),
                            "compile() receives the option's text itself" if verbatim else
                            f"compile() receives `{norm_src(txt)[:80]}`: the program text is rewritten before it is compiled, so string literals / layout of a valid program can change "
                            f"(e.g. textwrap.dedent blanks a whitespace-only line inside a triple-quoted string) and what is printed describes another program")
        if role == "e":
            ev = [c for c in calls if isinstance(c.func, ast.Name) and c.func.id == "eval"]
            for c in ev:
                envs = [a for a in c.args[1:]] + [k.value for k in c.keywords]
                hides = [e for e in envs if isinstance(e, ast.Dict) and any(isinstance(k, ast.Constant) and k.value == "__builtins__" for k in e.keys)]
                rep.add("R16.2", f"{fn.qual}::the -e expression is evaluated with the builtins", not hides, loc(m, c),
                        "eval() gets no replacement for __builtins__" if not hides else
                        f"`{norm_src(c)[:80]}` removes the builtins: an expression that names one (`'x = ' + str(2 ** 70)`) raises NameError, so a valid program given with -e makes the command fail")
        rep.add("R16.2", f"{fn.qual}::role of option {d}", ok, loc(m, node),
                detail if ok else f"the dispatch arm selected by option `{d}` uses it as `{role}` ({src[:80]})")
        i += 1
        if len(node.orelse) == 1 and isinstance(node.orelse[0], ast.If):
            node = node.orelse[0]
        else:
            break
    # ---- R16.3
    it, _ = an.interp("cli")
    prints = [c for c in ast.walk(fn.node) if isinstance(c, ast.Call) and isinstance(c.func, ast.Attribute) and c.func.attr == "print" and c.args]
    tojson = [c for c in ast.walk(fn.node) if isinstance(c, ast.Call) and isinstance(c.func, ast.Attribute) and c.func.attr == "to_json_data"]
    tocode = [c for c in ast.walk(fn.node) if isinstance(c, ast.Call) and isinstance(c.func, ast.Attribute) and c.func.attr == "to_code"]
    fromcode = [c for c in ast.walk(fn.node) if isinstance(c, ast.Call) and isinstance(c.func, ast.Attribute) and c.func.attr == "from_code"]
    if not (prints and tojson and tocode and fromcode):
        raise AnalysisError(f"{fn.qual}: print / to_json_data / to_code / from_code calls not all found")
    cd_print = [c for c in prints if isinstance(c.args[0], ast.Name) and it.value_at(c.args[0]) and
                any(a[0] == "obj" and (it.obj_class(a) or "").endswith("::CodeData") for a in it.value_at(c.args[0]))]
    if not cd_print:
        rep.add("R16.3", f"{fn.qual}::the CodeData is printed", False, loc(m, fn.node), "no console.print of the decoded CodeData found")
    else:
        pv = it.value_at(cd_print[0].args[0])
        jv = it.value_at(tojson[0].func.value)
        cv = it.value_at(tocode[0].func.value)
        same_name = isinstance(tojson[0].func.value, ast.Name) and isinstance(tocode[0].func.value, ast.Name) and \
            cd_print[0].args[0].id == tojson[0].func.value.id == tocode[0].func.value.id
        ok = pv == jv == cv and same_name
        rep.add("R16.3", f"{fn.qual}::printed, JSON and re-encoded value are one variable", ok, loc(m, cd_print[0]),
                f"`{cd_print[0].args[0].id}` ({len(pv)} abstract object(s)) is printed, serialised and re-encoded" if ok else
                f"console.print receives {norm_src(cd_print[0].args[0])}, to_json_data is called on {norm_src(tojson[0].func.value)}, to_code on {norm_src(tocode[0].func.value)}: "
                f"the outputs describe different objects")
        var = cd_print[0].args[0].id
        defs = [n for n in ast.walk(fn.node) if isinstance(n, ast.Assign) and any(isinstance(t, ast.Name) and t.id == var for t in n.targets)]
        kinds = []
        for d in defs:
            v = d.value
            if isinstance(v, ast.Call) and isinstance(v.func, ast.Attribute) and v.func.attr == "from_code":
                kinds.append("from_code")
            elif isinstance(v, ast.Call) and ((isinstance(v.func, ast.Name) and v.func.id == "normalize" and len(v.args) == 1 and isinstance(v.args[0], ast.Name) and v.args[0].id == var)
                                              or (isinstance(v.func, ast.Attribute) and v.func.attr == "normalize" and isinstance(v.func.value, ast.Name) and v.func.value.id == var)):
                kinds.append("normalize(self)")
            else:
                kinds.append("other:" + norm_src(v))
        ok = sorted(kinds) == ["from_code", "normalize(self)"]
        rep.add("R16.3", f"{fn.qual}::definitions of the printed variable", ok, loc(m, defs[0]) if defs else loc(m, fn.node),
                f"`{var}` = CodeData.from_code(code), optionally replaced by normalize({var})" if ok else f"`{var}` is defined by {kinds}")
        # --dis-after must show the instructions --dis shows: the data it re-encodes may not have gone through normalize() (which drops unreferenced table
        # entries - nested code objects dead-code elimination left behind - and redundant EXTENDED_ARG prefixes)
        norm_defs = [d_ for d_ in defs if isinstance(d_.value, ast.Call) and ((isinstance(d_.value.func, ast.Name) and d_.value.func.id == "normalize")
                                                                            or (isinstance(d_.value.func, ast.Attribute) and d_.value.func.attr == "normalize"))]
        if isinstance(tocode[0].func.value, ast.Name) and tocode[0].func.value.id == var:
            rep.add("R16.3", f"{fn.qual}::--dis-after re-encodes the data as decoded", not norm_defs, loc(m, tocode[0]),
                    "the re-encoded value is never normalized" if not norm_defs else
                    f"`{norm_src(tocode[0])}` re-encodes `{var}` after `{norm_src(norm_defs[0])[:50]}` (unless --no-normalize): a nested code object that no instruction loads "
                    f"(`def g(): return 1; def h(): return 5`) and every redundant EXTENDED_ARG prefix are missing from the --dis-after output although --dis shows them")
        fc_arg = fromcode[0].args[0] if fromcode[0].args else None
        comp_targets = {t.id for n in ast.walk(chain) if isinstance(n, ast.Assign) for t in n.targets if isinstance(t, ast.Name)
                        and isinstance(n.value, ast.Call) and ((isinstance(n.value.func, ast.Name) and n.value.func.id == "compile") or (isinstance(n.value.func, ast.Attribute) and n.value.func.attr == "get_code"))}
        ok = isinstance(fc_arg, ast.Name) and fc_arg.id in comp_targets
        rep.add("R16.3", f"{fn.qual}::from_code receives the compiled program", ok, loc(m, fromcode[0]),
                f"from_code({fc_arg.id}) where `{fc_arg.id}` is assigned by every dispatch arm" if ok else f"from_code receives {norm_src(fc_arg) if fc_arg is not None else 'nothing'}")
        # dis-after shows the to_code() result
        tc_stmt = parent_map(m)[id(tocode[0])]
        res_name = tc_stmt.targets[0].id if isinstance(tc_stmt, ast.Assign) and isinstance(tc_stmt.targets[0], ast.Name) else None
        after = [c for c in ast.walk(fn.node) if isinstance(c, ast.Call) and c.args and isinstance(c.args[0], ast.Name) and c.args[0].id == res_name
                 and (attr_chain(c.func) or "").split(".")[-1] in ("dis", "show_code_recursive", "show_code")]
        before = [c for c in ast.walk(fn.node) if isinstance(c, ast.Call) and c.args and isinstance(c.args[0], ast.Name) and c.args[0].id in comp_targets
                  and (attr_chain(c.func) or "").split(".")[-1] in ("dis",)]
        ok = bool(after) and bool(before) and res_name is not None
        rep.add("R16.3", f"{fn.qual}::--dis shows the compiled code, --dis-after the re-encoded code", ok, loc(m, tocode[0]),
                f"dis.dis({before[0].args[0].id}) before, dis.dis({res_name}) after the round trip" if ok else "disassembly targets not recognised")
    # ---- R16.4 polarity
    def guard_env_check(stmt_node, dest, want_when_set: bool, what: str):
        gs = guards_of(m, fn, stmt_node)
        test = inline_locals(fn.node, conj(gs)) if gs else ast.Constant(True)
        names = {n.id for n in ast.walk(test) if isinstance(n, ast.Name)}
        var = [n for n in names if umap.get(n) == dest]
        res = {}
        for val in (True, False):
            env = {n: (val if umap.get(n) == dest else True) for n in names}
            env["None"] = None
            for n in names:
                if umap.get(n) != dest and umap.get(n) is None:
                    env[n] = "x"
            try:
                res[val] = bool(feval(test, env))
            except FevalError as ex:
                raise AnalysisError(f"{fn.qual}: guard {norm_src(test)} not evaluable: {ex}")
        ok = bool(var) and res[True] == want_when_set and res[False] == (not want_when_set)
        flag = [f for f in opts[dest]["flags"] if f.startswith("--")][0] if dest in opts else dest
        rep.add("R16.4", f"{fn.qual}::{flag} {what}", ok, loc(m, stmt_node),
                f"{what} runs iff {flag} is {'given' if want_when_set else 'absent'}" if ok else
                f"{what} is guarded by `{norm_src(test)}`: with {flag} given it {'runs' if res.get(True) else 'does not run'}, without it {'runs' if res.get(False) else 'does not run'}")

    pm = parent_map(m)

    def stmt_of(n):
        while id(n) in pm and not isinstance(n, ast.stmt):
            n = pm[id(n)]
        return n

    norm_calls = [c for c in ast.walk(fn.node) if isinstance(c, ast.Call) and ((isinstance(c.func, ast.Name) and c.func.id == "normalize") or (isinstance(c.func, ast.Attribute) and c.func.attr == "normalize"))]
    if not norm_calls:
        rep.add("R16.4", f"{fn.qual}::--no-normalize normalization", False, loc(m, fn.node), "normalize is never called: the default output is not the normalized CodeData")
    else:
        if "no_normalize" not in opts or opts["no_normalize"]["action"] != "store_true":
            raise AnalysisError("--no-normalize option not declared as store_true")
        guard_env_check(stmt_of(norm_calls[0]), "no_normalize", False, "normalization")
    for dest, what, finder in (
        ("json", "JSON output", lambda: tojson[0]),
        ("dis_after", "re-disassembly", lambda: tocode[0]),
        ("dis", "disassembly", lambda: next(c for c in ast.walk(fn.node) if isinstance(c, ast.Call) and (attr_chain(c.func) or "") == "dis.dis" and not guards_of(m, fn, stmt_of(c)) == [] and
                                              any(umap.get(x.id) == "dis" for g, _ in guards_of(m, fn, stmt_of(c)) for x in ast.walk(g) if isinstance(x, ast.Name)))),
        ("source", "source listing", lambda: next(c for c in ast.walk(fn.node) if isinstance(c, ast.Call) and (attr_chain(c.func) or "").split(".")[-1] == "Syntax")),
    ):
        try:
            node = finder()
        except StopIteration:
            rep.add("R16.4", f"{fn.qual}::--{dest.replace('_', '-')} {what}", False, loc(m, fn.node), f"no {what} guarded by the option found")
            continue
        guard_env_check(stmt_of(node), dest, True, what)
    # ---- R16.5 the only error exit is the usage validation
    rep.rule("R16.5", "for a valid program the entry point has no other exit path than falling off its end", 1)
    exits = []
    for c in ast.walk(fn.node):
        if isinstance(c, ast.Call):
            nm = attr_chain(c.func) or ""
            if nm.split(".")[-1] in ("exit", "_exit", "quit", "abort") or nm in ("parser.error",):
                if not any(c is x for x in ast.walk(vnode)):
                    exits.append(c)
        if isinstance(c, ast.Raise) and c.exc is not None and "SystemExit" in {x.id for x in ast.walk(c.exc) if isinstance(x, ast.Name)}:
            exits.append(c)
    rep.add("R16.5", f"{fn.qual}::no exit call after the usage validation", not exits, loc(m, exits[0]) if exits else loc(m, fn.node),
            f"`{norm_src(exits[0])}` ends the program with its own status after the source was accepted: a valid program can make the command exit non-zero" if exits
            else "the only exit call is the usage error of the source validation")
    # ---- R16.6 the program named by -m / file is decoded, not executed; R16.7 the text compiled is the text given
    rep.rule("R16.6", "the program is compiled / located, never imported or executed (except -e, which is evaluated by design)", 3)
    node = chain
    i = 0
    while True:
        d = ddests[i]
        calls = [c for b in node.body for c in ast.walk(b) if isinstance(c, ast.Call)]
        names = [(attr_chain(c.func) or "").split(".")[-1] for c in calls]
        banned = {"import_module", "__import__", "exec", "run_module", "run_path", "exec_module", "load_module"} | (set() if d == "e" else {"eval"})
        hit = [c for c, nm in zip(calls, names) if nm in banned]
        rep.add("R16.6", f"{fn.qual}::option {d} does not execute the program", not hit, loc(m, hit[0]) if hit else loc(m, node),
                f"the arm for option `{d}` calls `{norm_src(hit[0])}`: the program is executed (its output and side effects precede the result; a program that cannot run here "
                f"makes the command fail) instead of being compiled" if hit else f"the arm for `{d}` only locates / reads / compiles the program")
        if d == "file":
            comp = [c for c in calls if isinstance(c.func, ast.Name) and c.func.id == "compile"]
            ok = False
            why = "compile(...) call not found"
            if comp and comp[0].args:
                src = comp[0].args[0]
                while isinstance(src, ast.Call) and isinstance(src.func, ast.Name) and src.func.id == "cast" and len(src.args) == 2:
                    src = src.args[1]
                defs = [s_ for b in node.body for s_ in ast.walk(b) if isinstance(s_, ast.Assign) and isinstance(src, ast.Name) and any(isinstance(t, ast.Name) and t.id == src.id for t in s_.targets)]
                val = defs[0].value if len(defs) == 1 else (src if not isinstance(src, ast.Name) else None)
                direct = isinstance(val, ast.Call) and isinstance(val.func, ast.Attribute) and val.func.attr in ("read_text", "read", "read_bytes") \
                    and any(isinstance(x, ast.Name) and umap.get(x.id) == "file" for x in ast.walk(val.func.value))
                # bytes, not text: CPython decodes a source file by its BOM / PEP 263 declaration, which only compile(<bytes>) reproduces
                as_bytes = bool(direct) and (val.func.attr == "read_bytes" or (val.func.attr == "read" and any(
                    isinstance(x, ast.Constant) and isinstance(x.value, str) and "b" in x.value for x in ast.walk(val.func.value))))
                ok = bool(direct) and as_bytes
                shown = norm_src(val) if val is not None else norm_src(src)
                why = (f"compile() receives `{shown}`, the file's bytes as read (CPython decodes them by BOM / encoding declaration)" if ok else
                       (f"compile() receives `{shown}`, the file decoded as text with the default encoding: a UTF-8 file with a BOM is a SyntaxError, a file with `# coding: latin-1` is "
                        f"decoded wrongly (other string constants, or UnicodeDecodeError) although CPython runs it" if direct else
                        f"compile() receives `{shown}`, not the file's content as read: the program decoded is a rewritten one (line numbers / string contents can differ)"))
            rep.add("R16.6", f"{fn.qual}::the file's bytes are compiled unmodified", ok, loc(m, node), why)
            # the file name recorded in every code object (CodeData.filename) is the path as given, like `python prog.py` records it
            rewriting = {"resolve", "absolute", "expanduser", "abspath", "realpath", "normpath", "normcase", "relpath", "basename", "name", "stem", "with_suffix", "relative_to", "lower", "upper"}
            if comp and len(comp[0].args) >= 2:
                fnarg = comp[0].args[1]
                rw = [x for x in ast.walk(fnarg) if (isinstance(x, ast.Attribute) and x.attr in rewriting)]
                plain = (isinstance(fnarg, ast.Name) and umap.get(fnarg.id) == "file") or (
                    isinstance(fnarg, ast.Call) and ((isinstance(fnarg.func, ast.Name) and fnarg.func.id == "str") or (attr_chain(fnarg.func) or "").endswith("fspath"))
                    and len(fnarg.args) == 1 and isinstance(fnarg.args[0], ast.Name) and umap.get(fnarg.args[0].id) == "file")
                if not plain and not rw:
                    raise AnalysisError(f"{fn.qual}: the file name given to compile() is `{norm_src(fnarg)[:60]}`: whether that is the path as given is not decided")
                conv = {k.arg: k.value for k in opts["file"]["node"].keywords}.get("type")
                conv_fn = None
                if conv is not None and isinstance(conv, ast.Name):
                    r_ = an.prog.resolve_global(m, conv.id, fn)
                    if r_ and r_[0] == "func":
                        conv_fn = r_[1]
                    elif r_ and r_[0] == "lam":
                        conv_fn = r_[1]
                elif isinstance(conv, ast.Lambda):
                    conv_fn = conv
                conv_name = (attr_chain(conv) or "").split(".")[-1] if conv is not None else None
                conv_ok = conv is None or (conv_fn is None and conv_name in ("Path", "PurePath", "str", "PosixPath"))
                # pathlib normalises what it is given: a leading `./` is dropped, `a//b` and `a/./b` become `a/b` - str(Path(x)) is not x
                path_conv = conv_fn is None and conv_name in ("Path", "PurePath", "PosixPath")
                rw2 = []
                if conv_fn is not None:
                    body = conv_fn.node if hasattr(conv_fn, "node") else conv_fn
                    rw2 = [x for x in ast.walk(body) if isinstance(x, ast.Attribute) and x.attr in rewriting]
                    if not rw2:
                        raise AnalysisError(f"{fn.qual}: the positional argument is converted by `{norm_src(conv)}`: whether it keeps the path as given is not decided")
                elif not conv_ok:
                    raise AnalysisError(f"{fn.qual}: the positional argument is converted by `{norm_src(conv)}`: not a plain path / str constructor, effect on the file name not decided")
                bad_ = rw or rw2
                if not bad_ and path_conv:
                    rep.add("R16.6", f"{fn.qual}::the file is compiled under the path given on the command line", False, loc(m, opts["file"]["node"]),
                            f"the positional argument is converted with `type={norm_src(conv)}` and compiled under `{norm_src(fnarg)}`: pathlib normalises the text (`./pkg/prog.py`, `pkg//prog.py`, "
                            f"`pkg/./prog.py` all become `pkg/prog.py`), so the `filename` of every printed CodeData is not the path that was typed - `python ./pkg/prog.py` itself records './pkg/prog.py', "
                            f"and so does CodeData.from_code(compile(source, './pkg/prog.py', 'exec'))")
                else:
                  rep.add("R16.6", f"{fn.qual}::the file is compiled under the path given on the command line", not bad_, loc(m, bad_[0]) if bad_ else loc(m, comp[0]),
                        f"compile() records `{norm_src(fnarg)}` and the argument is converted by `{norm_src(conv) if conv is not None else 'nothing'}`: the filename of every code object is the path as typed" if not bad_ else
                        f"the path of the program is rewritten by `.{bad_[0].attr}` before compile() records it: `python-code-data prog.py` prints CodeData whose `filename` (of every nested "
                        f"code object too) is not 'prog.py' - not what CodeData.from_code(compile(source, 'prog.py', 'exec')) gives for the same program")
        i += 1
        if len(node.orelse) == 1 and isinstance(node.orelse[0], ast.If):
            node = node.orelse[0]
        else:
            break
    # ---- R16.5 (cont.) the program text is decoded a second time (for --source) only when it is asked for: tokenize.open() / get_source() are stricter than the
    #      compiler (a stray non-UTF-8 byte in a comment, a byte on the coding line itself), so reading it unconditionally makes a program that python runs exit 1
    show_names = {k for k, v in umap.items() if v == "source"}
    node = chain
    i = 0
    while True:
        d = ddests[i]
        if d in ("file", "m"):
            for c in [c for b in node.body for c in ast.walk(b) if isinstance(c, ast.Call)]:
                nm = attr_chain(c.func) or ""
                textual = nm in ("tokenize.open",) or nm.endswith(".get_source") or nm.endswith(".read_text") or (nm == "open" and not any(
                    isinstance(a, ast.Constant) and isinstance(a.value, str) and "b" in a.value for a in list(c.args[1:]) + [k.value for k in c.keywords]))
                if not textual:
                    continue
                from .encode_model import guards_of as _go
                gs = _go(m, fn, c)
                guarded = any(pos and any(isinstance(x, ast.Name) and x.id in show_names for x in ast.walk(t)) for t, pos in gs)
                # ... or wrapped in a try that swallows decoding errors
                pm_ = {id(ch): par for par in ast.walk(fn.node) for ch in ast.iter_child_nodes(par)}
                cur = c
                in_try = False
                while id(cur) in pm_:
                    cur = pm_[id(cur)]
                    if isinstance(cur, ast.Try) and cur.handlers:
                        in_try = True
                rep.add("R16.5", f"{fn.qual}::option {d}: `{nm}` only runs when the source is shown", guarded or in_try, loc(m, c),
                        "the text is only decoded for --source" if guarded or in_try else
                        f"the arm for `{d}` calls `{norm_src(c)[:50]}` whether or not --source was given: decoding the text is stricter than compiling the bytes (`# coding: utf-8` with a stray latin-1 byte in a "
                        f"comment; a module with a non-UTF-8 byte in a comment) - `python prog.py` runs such a program, the command exits 1 with UnicodeDecodeError / SyntaxError and prints nothing")
        i += 1
        if len(node.orelse) == 1 and isinstance(node.orelse[0], ast.If):
            node = node.orelse[0]
        else:
            break
    # ---- R16.1 (cont.) a value that starts with '-' is a value: `-c "-1+2"` is one program
    for d_ in sources:
        o = opts[d_]
        if o["positional"]:
            continue
        kwn = {k.arg: k.value for k in o["node"].keywords}
        takes_any = "nargs" in kwn or ("action" in kwn and not (isinstance(kwn["action"], ast.Constant) and kwn["action"].value in ("store",)))
        if d_ in ("c", "e"):
            rep.add("R16.1", f"{fn.qual}::option {o['flags'][0]} accepts program text that starts with '-'", takes_any, loc(m, o["node"]),
                    "the option is declared with its own action / nargs" if takes_any else
                    f"`{norm_src(o['node'])[:60]}` is a plain argparse option: argparse takes a value that starts with '-' for another option, so `{o['flags'][0]} \"-1+2\"` (also `-x`, `-(1)`) "
                    f"exits 2 with 'expected one argument' although exactly one source, a valid program, was given (`python -c \"-1+2\"` runs it)")
    # ---- R16.1 (cont.) a source option given twice is "more than one source"
    for d_ in sources:
        o = opts[d_]
        if o["positional"]:
            continue
        kwn = {k.arg: k.value for k in o["node"].keywords}
        rejects_repeat = "action" in kwn and not (isinstance(kwn["action"], ast.Constant) and kwn["action"].value in ("store", "append", "extend"))
        rep.add("R16.1", f"{fn.qual}::option {o['flags'][0]} given twice is a usage error", rejects_repeat, loc(m, o["node"]),
                "a custom action can reject the repetition" if rejects_repeat else
                f"`{norm_src(o['node'])[:60]}` uses argparse's default `store` action: `{o['flags'][0]} A {o['flags'][0]} B` is accepted and the last value wins, although two "
                f"program sources were given - the command should exit with a usage error")
    # ---- R16.8 nothing on the command line is ignored
    rep.rule("R16.8", "every argument is parsed: unknown or surplus arguments are a usage error", 1)
    pcs = [c for c in ast.walk(fn.node) if isinstance(c, ast.Call) and isinstance(c.func, ast.Attribute) and c.func.attr in ("parse_args", "parse_known_args", "parse_intermixed_args", "parse_known_intermixed_args")]
    if not pcs:
        raise AnalysisError(f"{fn.qual}: the call that parses the command line was not found")
    for pc in pcs:
        lenient = "known" in pc.func.attr
        if lenient:
            # the leftovers may be rejected by hand: `args, extra = parse_known_args(); if extra: parser.error(...)`
            for asg in ast.walk(fn.node):
                if isinstance(asg, ast.Assign) and asg.value is pc and isinstance(asg.targets[0], ast.Tuple) and len(asg.targets[0].elts) == 2 and isinstance(asg.targets[0].elts[1], ast.Name):
                    rest = asg.targets[0].elts[1].id
                    if any(isinstance(x, ast.Name) and x.id == rest and isinstance(x.ctx, ast.Load) for x in ast.walk(fn.node)):
                        raise AnalysisError(f"{fn.qual}: the arguments left over by `{norm_src(pc)}` are used afterwards (`{rest}`): whether they are rejected is not decided")
        rep.add("R16.8", f"{fn.qual}::{pc.func.attr}()", not lenient, loc(m, pc),
                "parse_args() exits with a usage error on anything it does not recognise" if not lenient else
                f"`{norm_src(pc)}` returns what it does not recognise instead of rejecting it: a second program file (`a.py b.py`) is dropped silently and the command exits 0 "
                f"although it was not given exactly one source")
    # ---- R16.7 the parser takes every argument literally
    rep.rule("R16.7", "the argument parser reads the command line literally (no @file expansion)", 1)
    pcalls = [c for c in ast.walk(m.tree) if isinstance(c, ast.Call) and (attr_chain(c.func) or "").split(".")[-1] == "ArgumentParser"]
    if not pcalls:
        raise AnalysisError("ArgumentParser(...) construction not found in the command-line module")
    for pc in pcalls:
        kw = {k.arg: k.value for k in pc.keywords if k.arg}
        ff = kw.get("fromfile_prefix_chars")
        bad = ff is not None and not (isinstance(ff, ast.Constant) and ff.value is None)
        rep.add("R16.7", f"{m.name}::ArgumentParser(...) takes arguments literally", not bad, loc(m, pc),
                "no fromfile_prefix_chars: every argument, including the program text after -c / -e, is used as given" if not bad else
                f"fromfile_prefix_chars={norm_src(ff)}: argparse replaces ANY argument that starts with such a character - also the value of -c / -e - by the lines of the file it "
                f"names; a valid program whose text starts with it (`@staticmethod\\ndef f(): ...` for '@') is not compiled but looked up as a file, and the command exits 2")
    from .common import SharedRules as _SR16, purity as _purity16
    rep.run(_purity16, an, rep, "R16.P", ["from_code", "normalize", "to_json", "to_code"])
    from . import c03 as _c03r
    from . import c08 as _c08k16
    rep.run(_c08k16.r084, an, _SR16(rep, "R16.K", "the key that decides which constants are one table entry tells apart what CPython tells apart (shared with C08's R08.4): the command prints and re-encodes "
                                                  "normalized data, in which a coarser key merges constants (-1j and 0-1j) that --dis shows apart"), rule="R16.K")
    shr16 = _SR16(rep, "R16.R", "the code --dis-after disassembles is laid out from data without recorded widths: the encoder's re-layout and layout fold (shared with C03's R03.7 / R03.E) - "
                                "'--dis-after shows the same instructions as --dis'")
    rep.run(_c03r.r037, an, shr16)
    rep.run(_c03r.r03e, an, shr16)
    # ---- R16.J the --json document: what is printed is loadable, and printable as the command prints it
    from .common import SharedRules
    from . import c07
    from .json_model import find_json_functions, load_schema
    raw_print = [k for c in ast.walk(fn.node) if isinstance(c, ast.Call) for k in c.keywords if k.arg == "ensure_ascii" and isinstance(k.value, ast.Constant) and k.value.value is False]
    shj = SharedRules(rep, "R16.J", "the document printed by --json is one from_json_data loads back (shared with C07's R07.1 / R07.3)"
                      + ("; the command prints it with ensure_ascii=False, so every plain string in it must be UTF-8 encodable or the print itself fails" if raw_print else ""))
    root, defs = load_schema(an)
    enc, cdec = find_json_functions(an)
    from . import c12 as _c12m
    rep.run(_c12m.arg_mutation_rule, an, shj, "R12.1", ["from_json"])
    rep.run(c07.r071, an, shj, enc, cdec, defs)
    rep.run(c07.r073, an, shj, enc)
    rep.run(c07.r07a, an, shj, enc)
    rep.run(c07.r07b, an, shj, defs)
    rep.run(c07.r07r, an, shj)
    from . import json_fold as _jf
    rep.run(_jf.fold_rule, an, shj)
    rep.run(_jf.encode_fold_rule, an, shj)
    rep.run(_jf.constants_fold_rule, an, shj)
    rep.stats.update(an.stats([it]))


def r16f(an: Analysis, rep, rule="R16.F"):
    """The entry point folded over witness command lines (as the namespaces argparse hands over), with the outside world as symbols: compile /
    eval / the file system / importlib / from_code / normalize / the console are stubs that record what they are asked to do.  Expected, from
    the property: zero or several sources -> usage error; one source -> that program is compiled (file: its bytes under its own path; -c: the
    text; -e: the value of the expression; -m: the loader's code), the API result for it is printed - normalized unless --no-normalize -, --json
    prints to_json_data() of that same value, --dis-after disassembles to_code() of that same value, --dis disassembles the compiled code."""
    from sa.feval import BlockOutcome, Obj, ObjEval
    rep.rule(rule, "the entry point folded over witness command lines with the outside world as recording stubs", 3)
    fn = an.prog.function("code_data._cli::main")
    m = fn.module
    opts = parser_options(an)
    dests = sorted(opts)
    sources = sorted(d for d, o in opts.items() if o["action"] is None)
    flags = sorted(d for d, o in opts.items() if o["action"] == "store_true")
    if set(sources) != {"file", "c", "e", "m"} or not {"dis", "dis_after", "json", "no_normalize", "source"} <= set(flags):
        raise AnalysisError(f"{m.name}: the parser's options {dests} are not the ones the property names")
    import itertools as _it

    class UsageError(Exception):
        pass

    def _compile_extras(a, k):
        """Arguments of compile() beyond (source, name, mode) that change the code object: explicit flags, an optimisation level other than 'as the interpreter runs'
        (the API's result for the same program is compiled the way the running interpreter compiles).  dont_inherit alone changes nothing here."""
        names = ("flags", "dont_inherit", "optimize")
        given = dict(zip(names, a), **k)
        out = []
        if given.get("flags", 0) not in (0, None):
            out.append(("flags", given["flags"]))
        if given.get("optimize", -1) != -1:
            out.append(("optimize", given["optimize"]))
        for extra in set(given) - set(names):
            out.append((extra, given[extra]))
        return out

    def run(ns):
        out = []

        def tok(kind, *a, **extra):
            return Obj({"__cls__": kind, "args": a, **extra})

        def code_tok(*a):
            return tok("code", *a, co_consts=())

        def data_tok(kind, *a):
            t = tok(kind, *a)
            t["to_json_data"] = lambda: tok("json_of", t)
            t["to_code"] = lambda: code_tok("code_of", t)
            t["normalize"] = lambda: data_tok("normalized", t)
            return t

        def usage(*a, **k):
            raise UsageError()
        spec = {"loader": {"get_code": lambda name: code_tok("loader.get_code", name), "get_source": lambda name: tok("loader.get_source", name)}}

        def resolve(name):
            f = m.functions.get(name)
            return f.node if f is not None and f.cls is None and name != fn.name else None
        extra = {
            "parser": {"parse_args": lambda *a: ns, "error": usage, "exit": usage, "parse_known_args": lambda *a: (ns, [])},
            "Console": lambda *a, **k: {"print": lambda *x, **kw: out.append(("print",) + x)},
            "Syntax": lambda src, *a, **k: tok("syntax", src), "JSON": {"from_data": lambda d, **k: tok("rendered_json", d)},
            "dumps": lambda d, **k: tok("rendered_json", d), "print": lambda *a, **k: None,
            "eval": lambda e, *a: tok("value_of", e), "compile": lambda src, name, mode, *a, **k: code_tok("compile", src, name, mode, *_compile_extras(a, k)),
            "pathlib": {"Path": lambda f: {"read_bytes": lambda: tok("bytes_of", f), "read_text": lambda *a, **k: tok("text_of", f)}},
            "open": lambda f, *a, **k: {"read": lambda: tok("text_of", f)},
            "tokenize": {"open": lambda f: {"read": lambda: tok("text_of", f)}},
            "importlib": {"util": {"find_spec": lambda name: Obj({"__cls__": "spec", "name": name, **spec})}},
            "dis": {"dis": lambda c, **k: out.append(("dis", c)), "show_code": lambda c, **k: out.append(("show_code", c))},
            "CodeData": {"from_code": lambda c: data_tok("from_code", c)},
            "normalize": lambda d: data_tok("normalized", d),
            "linesep": "\n", "CodeType": type(None), "SystemExit": SystemExit,
            "os": {"fspath": lambda p_: p_, "linesep": "\n", "fsdecode": lambda p_: p_,
                   "path": {k_: (lambda p_, _k=k_: tok("os.path." + _k, p_)) for k_ in ("abspath", "realpath", "normpath", "expanduser", "basename", "relpath")}},
            "sys": {"exit": usage, "argv": ["prog"], "stderr": None},
        }
        ev = ObjEval(resolve, extra=extra)
        ev.module_assigns = {k: v for k, v in m.assigns.items() if k not in extra}
        ev.MAX_ITER = 256
        try:
            ev.call_method(fn.node)
        except UsageError:
            return "usage error"
        except BlockOutcome as o:
            return f"stops at `{norm_src(o.node)[:60]}`"
        return out
    SRC = {"file": "./pkg/prog.py", "c": "x = 1", "e": "'y = ' + str(2)", "m": "pkg.tally"}
    bad_usage, bad_run = [], []
    n = 0

    def ns_of(given, fl):
        d = {k: None for k in sources}
        d.update({k: SRC[k] for k in given})
        d.update({k: (k in fl) for k in flags})
        return Obj({"__cls__": "Namespace", **d})

    def show(v, depth=0):
        if isinstance(v, Obj):
            a = ", ".join(show(x, depth + 1) for x in v.get("args", ()))
            return f"{v.get('__cls__')}({a})"
        return ascii(v)
    try:
        for k in (0, 2, 3, 4):
            for given in _it.combinations(sources, k):
                n += 1
                r = run(ns_of(given, ()))
                if r != "usage error":
                    bad_usage.append(f"{'no source' if not given else 'sources ' + ', '.join(given)}: {'accepted' if isinstance(r, list) else r}")
        # an empty program text is a source like any other
        for given, empty in ((("c",), "c"), (("c", "file"), "c"), (("e", "m"), "e")):
            n += 1
            ns = ns_of(given, ())
            ns[empty] = ""
            r = run(ns)
            want_err = len(given) != 1
            if (r == "usage error") != want_err:
                bad_usage.append(f"sources {', '.join(given)} with an empty text for -{empty}: {'usage error' if r == 'usage error' else 'accepted'}")
        for src in sources:
            for r_ in range(len(flags) + 1):
                for fl in _it.combinations(flags, r_):
                    n += 1
                    got = run(ns_of((src,), fl))
                    if not isinstance(got, list):
                        bad_run.append(f"-{src} {' '.join('--' + f for f in fl)}: {got}")
                        continue
                    code = [x[1] for x in got if x[0] == "dis"]
                    prints = [x[1] for x in got if x[0] == "print" and len(x) > 1]
                    datas = [p for p in prints if isinstance(p, Obj) and p.get("__cls__") in ("from_code", "normalized")]
                    why = None
                    if len(datas) != 1:
                        why = f"prints {len(datas)} CodeData values"
                    else:
                        d = datas[0]
                        base = d["args"][0] if d["__cls__"] == "normalized" else d
                        compiled = base["args"][0] if isinstance(base, Obj) and base.get("__cls__") == "from_code" else None
                        exp_compile = {"file": ("compile", "bytes_of(%r)" % SRC["file"], SRC["file"], "exec"), "c": ("compile", SRC["c"], "<string>", "exec"),
                                       "e": ("compile", "value_of(%r)" % SRC["e"], "<string>", "exec"), "m": ("loader.get_code", SRC["m"])}[src]
                        got_compile = tuple(show(x) if isinstance(x, Obj) else x for x in compiled["args"]) if isinstance(compiled, Obj) else None
                        if (d["__cls__"] == "normalized") != ("no_normalize" not in fl):
                            why = f"prints the {'normalized' if d['__cls__'] == 'normalized' else 'un-normalized'} data"
                        elif not (isinstance(base, Obj) and base.get("__cls__") == "from_code"):
                            why = f"prints {show(d)}, not the API's result for the program"
                        elif got_compile != exp_compile:
                            why = f"decodes {show(compiled)}; the program of -{src} is {exp_compile}"
                        js = [p for p in prints if isinstance(p, Obj) and p.get("__cls__") == "rendered_json"]
                        if not why and (len(js) == 1) != ("json" in fl):
                            why = f"{len(js)} JSON document(s) printed"
                        if not why and js and not (isinstance(js[0]["args"][0], Obj) and js[0]["args"][0].get("__cls__") == "json_of" and js[0]["args"][0]["args"][0] is d):
                            why = f"the JSON document is {show(js[0])}, not to_json_data() of the value that was printed ({show(d)})"
                        want_dis = ([compiled] if "dis" in fl else []) + ([("code_of", d)] if "dis_after" in fl else [])
                        got_dis = [c if not (isinstance(c, Obj) and c.get("args", (None,))[0] == "code_of") else ("code_of", c["args"][1]) for c in code]
                        if not why and (len(got_dis) != len(want_dis) or any(not (g is w or (isinstance(g, tuple) and isinstance(w, tuple) and g[1] is w[1])) for g, w in zip(got_dis, want_dis))):
                            why = f"disassembles {[show(c) for c in code]}; expected {'the compiled code' if 'dis' in fl else ''}{' and ' if len(want_dis) == 2 else ''}{'to_code() of the printed value' if 'dis_after' in fl else ''}"
                        srcs = [p for p in prints if isinstance(p, Obj) and p.get("__cls__") == "syntax"]
                        if not why and srcs and "source" not in fl:
                            why = "prints the source without --source"
                    if why:
                        bad_run.append(f"-{src} {' '.join('--' + f for f in fl)}: {why}")
    except AnalysisError:
        raise
    except Exception as ex:  # noqa: BLE001 - a gap of the evaluator, never a verdict
        raise AnalysisError(f"{fn.qual}: not evaluable on the witness command lines ({type(ex).__name__}: {ex})")
    rep.add(rule, f"{fn.qual}::zero or several sources are a usage error", not bad_usage, loc(m, fn.node),
            "0, 2, 3, 4 sources (and an empty -c / -e text counted as a source): usage error exactly when the number of sources is not one" if not bad_usage else bad_usage[0] + (f" (+{len(bad_usage) - 1} more)" if len(bad_usage) > 1 else ""))
    rep.add(rule, f"{fn.qual}::what is printed is the API's result for the program given", not bad_run, loc(m, fn.node),
            f"4 sources x {2 ** len(flags)} flag combinations: the value printed, the JSON document and the re-encoded code are the API's results for the one program" if not bad_run else
            bad_run[0] + (f" (+{len(bad_run) - 1} more)" if len(bad_run) > 1 else ""))
    rep.add(rule, "witness command lines folded", True, "code_data/_cli.py", f"{n} namespaces", nontrivial=False)


def r169(an: Analysis, rep, rule="R16.9"):
    """What the command prints is the value itself: no field of the data classes is left out of the printed form (`field(repr=False)` hides it from repr(), which
    is what the console falls back to without rich; the rich protocol of the classes lists every field that differs from its default)."""
    from .common import data_classes
    rep.rule(rule, "no field of the data is hidden from the printed form", 1)
    n = 0
    for ci in data_classes(an):
        if ci.dc_args.get("repr") is False:
            rep.add(rule, f"{ci.qual}::repr", False, loc(ci.module, ci.node), f"@dataclass(repr=False) on {ci.name}: the command prints an object address instead of the data")
        for f in ci.fields:
            n += 1
            fl = getattr(f, "flags", {})
            if "repr" in fl and fl["repr"] is not True:
                rep.add(rule, f"{ci.qual}.{f.name}::shown when printed", False, loc(ci.module, f.node),
                        f"field(repr={fl['repr']!r}): {f.name} does not appear in the printed CodeData, so what the command prints is not the API's result (evaluating the printout gives the "
                        f"default for {f.name})")
    rep.add(rule, "fields of the data classes are part of the printed form", True, "code_data/__init__.py", f"{n} fields examined", nontrivial=False)
