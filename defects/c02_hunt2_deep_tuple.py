# Interpreters: 3.7.16, 3.8.18, 3.9.18, 3.10.13 (any of them)
# A code object compiled from an AST whose single constant is a tuple nested
# 600 deep.  CPython compiles, disassembles and runs it; from_code() raises
# RecursionError (constant_key / inner_constant_key recurse per nesting level),
# so it reports no instructions at all for this compiled code object.
import ast, dis
from code_data import CodeData

DEPTH = 600  # below the interpreter's own limit of 1000
value = 1
for _ in range(DEPTH):
    value = (value,)
tree = ast.parse("x = 1")
tree.body[0].value = ast.copy_location(ast.Constant(value=value, kind=None), tree.body[0].value)
code = compile(tree, "<deep>", "exec")

# CPython itself is fine with it
expected = [(i.opname, i.argval) for i in dis.get_instructions(code)]
assert [n for n, _ in expected] == ["LOAD_CONST", "STORE_NAME", "LOAD_CONST", "RETURN_VALUE"]
ns = {}
exec(code, ns)
assert ns["x"] is code.co_consts[0]

try:
    data = CodeData.from_code(code)
except RecursionError as e:
    raise AssertionError("from_code() cannot decode a compiled code object: RecursionError") from None
got = [(i.name, getattr(i.arg, "constant", getattr(i.arg, "name", None))) for b in data.blocks for i in b]
assert got == expected
