"""CPython's line-table assemblers and readers (3.7 - 3.10), transcribed from compile.c, peephole.c and codeobject.c.

Pure functions over bytes / lists; validated against the real interpreters by tools/validate_line_asm.py (run by hand, not by the checks)."""


def asm_lnotab(seq, zero_ok):
    """compile.c assemble_lnotab, 3.7/3.8 (zero_ok: an entry is written unless both deltas are 0) and 3.9 (no entry when the line stays).
    seq: (offset, line) of the instructions that carry a line, in order; the table starts at offset 0, line 0."""
    out = []
    off = line = 0
    for o, ln in seq:
        db, dl = o - off, ln - line
        if (db == 0 and dl == 0) if zero_ok else dl == 0:
            continue
        if db > 255:
            n = db // 255
            out += [255, 0] * n
            db -= n * 255
        if dl < -128 or dl > 127:
            k = -128 if dl < 0 else 127
            n = abs(dl) // abs(k) if dl < 0 else dl // k
            dl -= n * k
            out += [db, k & 255]
            db = 0
            out += [0, k & 255] * (n - 1)
        out += [db, dl & 255]
        off, line = o, ln
    return bytes(out)


def peephole_lnotab(tab, new_offset):
    """peephole.c (3.7-3.9): after instructions were removed every entry's bytecode delta is recomputed from the new position of the
    instruction it pointed at; the line deltas stay.  new_offset: old absolute offset -> new absolute offset."""
    out = []
    cum = last = 0
    for i in range(0, len(tab), 2):
        cum += tab[i]
        new = new_offset(cum)
        out += [new - last, tab[i + 1]]
        last = new
    return bytes(out)


def asm_linetable(seq, end):
    """compile.c (3.10) assemble_lnotab + assemble_line_range.  seq: (offset, line or None) for EVERY instruction start that changes the line;
    end: the length of the code."""
    out = []
    start = 0
    lineno = prev = 0
    first = True

    def line_range(upto):
        nonlocal start, prev
        bd = upto - start
        if bd == 0:
            return
        if lineno is None:
            ld = -128
        else:
            ld = lineno - prev
            prev = lineno
            while ld > 127:
                out.extend([0, 127])
                ld -= 127
            while ld < -127:
                out.extend([0, (-127) & 255])
                ld += 127
        while bd > 254:
            out.extend([254, ld & 255])
            ld = -128 if lineno is None else 0
            bd -= 254
        out.extend([bd, ld & 255])
        start = upto

    for o, ln in seq:
        if not first and ln == lineno:
            continue
        if first:
            first = False
            if ln == lineno:
                continue
        line_range(o)
        lineno = ln
    line_range(end)
    return bytes(out)


def read_lnotab(tab, addrq):
    """codeobject.c PyCode_Addr2Line (3.7-3.9), relative to co_firstlineno."""
    line = addr = 0
    for i in range(0, len(tab), 2):
        addr += tab[i]
        if addr > addrq:
            break
        line += tab[i + 1] - 256 if tab[i + 1] >= 128 else tab[i + 1]
    return line


def read_linetable(tab, addrq):
    """codeobject.c (3.10) PyLineTable_NextAddressRange / PyCode_Addr2Line, relative to co_firstlineno; None = no line."""
    line = end = 0
    for i in range(0, len(tab), 2):
        start, end = end, end + tab[i]
        ld = tab[i + 1] - 256 if tab[i + 1] >= 128 else tab[i + 1]
        if ld == -128:
            cur = None
        else:
            line += ld
            cur = line
        if start <= addrq < end:
            return cur
    return "<no entry>"


