# Run with any of /root/.pyenv/versions/{3.7.16,3.8.18,3.9.18,3.10.13}/bin/python
#   PYTHONPATH=/tmp/shim:/tmp/hunt2_C16 <python> find2.py
# A program FILE which CPython runs (exit 0) makes the command exit 1: the command
# also decodes the source text with tokenize.open(), which is stricter than the compiler.
import os, subprocess, sys, tempfile

CLI = "import sys; sys.argv[0]='python-code-data'; from code_data._cli import main; main()"
from code_data import CodeData

FILES = {
    # utf-8 declared, a stray latin-1 byte in a comment
    "stray.py": b"# coding: utf-8\nx = 1  # caf\xe9\nprint('ran')\n",
    # latin-1 declared, a latin-1 byte on the line of the declaration itself
    "cookie.py": b"#!/usr/bin/env python\n# -*- coding: latin-1 -*- \xa9 2003\ns = '\xe9'\nprint('ran')\n",
}
d = tempfile.mkdtemp()
bad = []
for name, data in FILES.items():
    path = os.path.join(d, name)
    with open(path, "wb") as f:
        f.write(data)
    # it is a valid program: CPython runs it, and the API decodes it
    assert subprocess.run([sys.executable, path], capture_output=True).returncode == 0
    expected = CodeData.from_code(compile(data, path, "exec")).normalize()
    p = subprocess.run([sys.executable, "-c", CLI, path], capture_output=True, text=True)
    last = p.stderr.strip().splitlines()[-1:] or [""]
    print(name, "python: exit 0; python-code-data: exit", p.returncode, last[0])
    if p.returncode != 0 or p.stdout.strip() != repr(expected):
        bad.append(name)
assert not bad, "valid program files, but the command did not exit 0: %s" % bad
