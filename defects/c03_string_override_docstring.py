# Run on any of 3.7.16 / 3.8.18 / 3.9.18 / 3.10.13 (PYTHONPATH=/tmp/shim:/tmp/hunt2_C03)
# Hand edit of decoded data: change `return None` into `return 'zz'` by replacing only the
# public `constant` of that operand.  The data still says the function has NO docstring and its
# position overrides are consistent (no gap, no collision), yet to_code() puts 'zz' into
# co_consts[0], which CPython takes for the docstring: flags/signature part "as described" is
# broken and decoding again gives Function(docstring='zz') != input.
import dis, types
from dataclasses import replace
from code_data import CodeData, Constant

def f():
    x = 1
    return None

data = CodeData.from_code(f.__code__)
assert data.type.docstring is None
blocks = tuple(
    tuple(replace(i, arg=replace(i.arg, constant="zz"))
          if isinstance(i.arg, Constant) and i.arg.constant is None else i for i in b)
    for b in data.blocks)
edited = replace(data, blocks=blocks)
assert edited.type.docstring is None

code = edited.to_code()                      # does not raise
ops = [(i.opname, i.argval) for i in dis.get_instructions(code)]
assert ("LOAD_CONST", "zz") in ops            # operands are fine
g = types.FunctionType(code, {})
print("co_consts:", code.co_consts, " __doc__:", repr(g.__doc__))
back = CodeData.from_code(code)
print("docstring in:", edited.type.docstring, " docstring back:", repr(back.type.docstring))
assert g.__doc__ is None, "data describes a function without docstring, CPython sees __doc__ == 'zz'"
assert back.normalize() == edited.normalize()
