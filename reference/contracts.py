"""
CPython contracts that live in C (no parseable source in the sandbox); frozen with citations.
Part of the trusted base.
"""

# Objects/codeobject.c, code_new(): positional constructor signature of types.CodeType
CODE_SLOTS = {
    (3, 7): ["argcount", "kwonlyargcount", "nlocals", "stacksize", "flags", "code", "consts", "names", "varnames",
             "filename", "name", "firstlineno", "lnotab", "freevars", "cellvars"],
    (3, 8): ["argcount", "posonlyargcount", "kwonlyargcount", "nlocals", "stacksize", "flags", "code", "consts", "names",
             "varnames", "filename", "name", "firstlineno", "lnotab", "freevars", "cellvars"],
    (3, 9): ["argcount", "posonlyargcount", "kwonlyargcount", "nlocals", "stacksize", "flags", "code", "consts", "names",
             "varnames", "filename", "name", "firstlineno", "lnotab", "freevars", "cellvars"],
    (3, 10): ["argcount", "posonlyargcount", "kwonlyargcount", "nlocals", "stacksize", "flags", "code", "consts", "names",
              "varnames", "filename", "name", "firstlineno", "linetable", "freevars", "cellvars"],
}

# compile.c / symtable.c: the flags the compiler itself can set on a code object
# (ITERABLE_COROUTINE is only set by types.coroutine), plus the __future__ flags future.c still records in 3.7-3.10
COMPILER_EMITTABLE = ["OPTIMIZED", "NEWLOCALS", "VARARGS", "VARKEYWORDS", "NESTED", "GENERATOR", "NOFREE", "COROUTINE",
                      "ASYNC_GENERATOR", "barry_as_FLUFL", "annotations"]
# Python/compile.c compute_code_flags: `flags |= (c->c_flags->cf_flags & PyCF_MASK)` - a __future__ flag handed to compile(..., flags=)
# (what doctest, codeop and the REPLs do for code that runs in a module using the feature) is copied into co_flags of the module and of
# every function in it, although the `from __future__ import` statement itself no longer sets it (Python/future.c: obsolete features)
EMITTABLE_VIA_COMPILE_FLAGS = ["division", "absolute_import", "with_statement", "print_function", "unicode_literals", "generator_stop"]
# Lib/types.py coroutine(): sets CO_ITERABLE_COROUTINE on a copy of a generator function's code object (a function-like code object the
# standard library produces; the compiler never does)
EMITTABLE_BY_STDLIB = ["ITERABLE_COROUTINE"]

# Objects/lnotab_notes.txt
LINE_LIMITS = {
    "lnotab": {"max_bytecode": 255, "max_line": 127, "min_line": -128, "no_line": None},
    "linetable": {"max_bytecode": 254, "max_line": 127, "min_line": -127, "no_line": -128},
}

# Objects/funcobject.c func_new: __doc__ = consts[0] if consts and type(consts[0]) is str else None
# Python/compile.c + inspect._signature_from_function: co_varnames layout
VARNAMES_LAYOUT = ["positional_only", "positional_or_keyword", "keyword_only", "var_positional", "var_keyword"]
SIGNATURE_ORDER = ["positional_only", "positional_or_keyword", "var_positional", "keyword_only", "var_keyword"]
