# from_code must not silently drop a redundant EXTENDED_ARG prefix of a non-jump instruction (hand-altered code object); 3.8 - 3.10
import dis, sys
from code_data import CodeData
f = compile("x = 5", "f", "exec")
co = f.co_code
ext = bytes([dis.EXTENDED_ARG, 0])
new = ext + co          # EXTENDED_ARG 0; LOAD_CONST 0; ...
kw = dict(co_code=new)
if sys.version_info >= (3, 10):
    kw["co_linetable"] = bytes([len(new), 0])
else:
    kw["co_lnotab"] = b""
g = f.replace(**kw)
ns = {}
exec(g, ns)
assert ns["x"] == 5
a, b = CodeData.from_code(f), CodeData.from_code(g)
r = b.to_code()
assert r.co_code == g.co_code, ("to_code() wrote other bytes than from_code was given", g.co_code.hex(), r.co_code.hex())
assert a != b, "two different code objects decode to equal data"
print("OK")
