# Run with 3.8.18 / 3.9.18 / 3.10.13 (real code object); on 3.12 it uses the equal hand-built data.
# An instruction argument beyond 2**53 is written as {"int": "..."} but from_json_data cannot read that back.
import dis, json, sys
from code_data import CodeData, Instruction

def f():
    return 7

if sys.version_info < (3, 11):
    c = f.__code__
    EA = dis.EXTENDED_ARG
    # eight EXTENDED_ARG prefixes; CPython keeps the low 32 bits (0) -> BUILD_TUPLE 0; POP_TOP
    pre = bytes([EA, 0x7F] * 4 + [EA, 0] * 4 + [dis.opmap["BUILD_TUPLE"], 0, dis.opmap["POP_TOP"], 0])
    kw = {"co_linetable": bytes([len(pre), 0]) + c.co_linetable} if sys.version_info >= (3, 10) else {}
    code = c.replace(co_code=pre + c.co_code, **kw)
    assert eval(code) == 7  # CPython runs it
    cd = CodeData.from_code(code)
else:
    cd = CodeData(blocks=((Instruction("BUILD_TUPLE", 0x7F7F7F7E00000000 << 8),),),
                  filename="f", first_line_number=1, name="f", stacksize=1)

doc = json.loads(json.dumps(cd.to_json_data()))  # the written document
print(doc["blocks"][0][0])
try:
    back = CodeData.from_json_data(doc)
    again = json.loads(json.dumps(back.to_json_data()))
except Exception as e:
    raise AssertionError("document written by to_json_data cannot be loaded/re-serialized: %r" % e)
assert again == doc, "document changed"
