# Run with 3.7.16 / 3.8.18 / 3.9.18 / 3.10.13 (PYTHONPATH=/tmp/shim:/tmp/hunt3_C09).
# A function code object whose two parameters carry the same name (code.replace of
# co_varnames; CPython calls it normally). co_varnames = ('a', 'a', 'c') is in first-use
# order with the parameters counting first, all entries are referenced, 'c' is unique,
# yet 'c' decodes with a position override that can be removed without any effect.
import dataclasses, sys, types
from code_data import CodeData, Varname

def f(a, b):
    c = a
    return c + b

c0 = f.__code__
names = ["argcount", "posonlyargcount", "kwonlyargcount", "nlocals", "stacksize", "flags",
         "code", "consts", "names", "varnames", "filename", "name", "firstlineno",
         "linetable" if sys.version_info >= (3, 10) else "lnotab", "freevars", "cellvars"]
if sys.version_info < (3, 8):
    names.remove("posonlyargcount")
vals = {n: getattr(c0, "co_" + n) for n in names}
vals["varnames"] = ("a", "a", "c")
code = types.CodeType(*vals.values())
assert types.FunctionType(code, {})(1, 2) == 3  # a valid, callable code object

cd = CodeData.from_code(code)
assert cd.to_code() == code
uses = [i.arg for b in cd.blocks for i in b if isinstance(i.arg, Varname)]
print(uses, cd._additional_args)
c_uses = [u for u in uses if u.varname == "c"]
# position of 'c' is 2, its first-use rank (2 parameters first) is 2
if all(u._index_override is None for u in c_uses):
    sys.exit(0)  # property holds

# remove the override from all uses of 'c': same code object comes back
def strip(a):
    if isinstance(a, Varname) and a.varname == "c":
        return dataclasses.replace(a, _index_override=None)
    return a
cd2 = dataclasses.replace(cd, blocks=tuple(
    tuple(dataclasses.replace(i, arg=strip(i.arg)) for i in b) for b in cd.blocks))
code2 = cd2.to_code()
same = code2 == code and code2.co_varnames == code.co_varnames and code2.co_code == code.co_code
assert not same, "override %r on unique local 'c' (position 2 == rank 2) is redundant" % (
    c_uses[0]._index_override,)
