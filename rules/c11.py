"""C11 - flags convert without loss, nothing unrepresentable is silently dropped (DESIGN 5, R11.1-R11.6)."""
from __future__ import annotations

import ast
import json
import os
from typing import Dict, List, Optional, Set, Tuple

from sa import paths
from sa.analysis import VERSIONS, Analysis, fmt_atom, vname
from sa.model import AnalysisError, FunctionInfo, loc, norm_src

from .common import attr_chain
from .encode_model import field_reads, in_error_message

REF = os.path.join(os.path.dirname(os.path.dirname(os.path.abspath(__file__))), "reference")


def reference(V) -> dict:
    return json.load(open(os.path.join(REF, f"cpython-{vname(V)}.json")))


def flag_universe(an: Analysis, V) -> Tuple[List[str], List[str]]:
    """Names of the flag enumeration as the repository builds it, from the reference tables of V."""
    ref = reference(V)
    m = an.prog.module("code_data._flags_data")
    excluded: Set[str] = set()
    for n in ast.walk(m.tree):
        if isinstance(n, ast.Compare) and len(n.ops) == 1 and isinstance(n.ops[0], ast.NotIn) and isinstance(n.comparators[0], ast.Set):
            excluded |= {e.value for e in n.comparators[0].elts if isinstance(e, ast.Constant)}
    names = list(ref["COMPILER_FLAG_NAMES"].values()) + [f for f in ref["future_features"] if f not in excluded]
    return names, sorted(excluded)


# --------------------------------------------------------------------------- R11.1
def flags_decoder(an: Analysis, V) -> FunctionInfo:
    it, _ = an.interp("from_code", V)
    for (q, ctx), summ in it.summaries.items():
        for p, v in summ["args"].items():
            if any(a[0] == "src" and a[2] == (("a", "co_flags"),) for a in v):
                f = an.prog.find_function(q)
                if f is not None and len(f.params) == 1:
                    return f
    # not handed over as it is: a value computed from co_flags (masked, shifted, ...)?
    for (q, ctx), summ in it.summaries.items():
        f = an.prog.find_function(q)
        if f is None or len(f.params) != 1 or f.cls is not None:
            continue
        for p, v in summ["args"].items():
            org = it.origins(v)
            if org and all(a[0] == "const" or (a[0] == "src" and a[2] == (("a", "co_flags"),)) for a in org) and any(a[0] == "src" for a in org) \
                    and any(isinstance(n, ast.Call) and (attr_chain(n.func) or "").endswith("_decompose") for n in ast.walk(f.node)):
                return f
    raise AnalysisError("no function in the decode closure receives code.co_flags as its only argument")


def r111_whole_word(an: Analysis, rep, V):
    """The flag decoder is given co_flags itself: bits cleared (masked, shifted away) before the decoder's unknown-bits test never reach it."""
    it, _ = an.interp("from_code", V)
    fn = flags_decoder(an, V)
    for g in an.closure("from_code", V):
        for c in ast.walk(g.node):
            if isinstance(c, ast.Call) and fn.qual in it.callees.get(id(c), ()) and c.args:
                a0 = c.args[0]
                vals = it.value_at(a0)
                direct = any(a[0] == "src" and a[2] == (("a", "co_flags"),) for a in vals) and all(a[0] == "src" for a in vals)
                from .encode_model import inline_locals
                ae = inline_locals(g.node, a0)
                lossy = [x for x in ast.walk(ae) if isinstance(x, ast.BinOp) and isinstance(x.op, (ast.BitAnd, ast.RShift, ast.Mod, ast.FloorDiv))]
                if direct:
                    rep.add("R11.1", f"{g.qual}::{fn.name} receives the whole flag word", True, loc(g.module, c), f"`{norm_src(a0)}` is code.co_flags itself", config=vname(V))
                elif lossy:
                    rep.add("R11.1", f"{g.qual}::{fn.name} receives the whole flag word", False, loc(g.module, c),
                            f"`{norm_src(ae)[:70]}` clears bits of co_flags before the decoder looks at them (`{norm_src(lossy[0])[:50]}`): a word with one of those bits set (a "
                            f"negative co_flags on 3.7: bit 31) is decoded as if the bit were not there, and to_code() writes a different co_flags - silently lossy", config=vname(V))
                else:
                    raise AnalysisError(f"{g.qual}: the argument `{norm_src(ae)[:60]}` of the flag decoder is computed from co_flags in a way this check does not decide")


RESIDUAL_HINT = "residual"


class ResidualVisitor(paths.Visitor):
    """state = (tested: bool, zero_guard: bool)"""

    def __init__(self, fn: FunctionInfo, carriers: Set[str], param: str):
        self.fn, self.carriers, self.param = fn, carriers, param

    def _is_residual_test(self, test) -> bool:
        for n in ast.walk(test):
            if isinstance(n, ast.Name) and n.id in self.carriers:
                return True
            if _is_residual_expr(n, self.param):
                return True
        return False

    def branch(self, test, state):
        tested, zero = state
        if self._is_residual_test(test):
            # the true edge of a residual test must raise; the false edge carries "tested"
            return (tested, zero), (True, zero)
        t = test
        if isinstance(t, ast.UnaryOp) and isinstance(t.op, ast.Not) and isinstance(t.operand, ast.Name) and t.operand.id == self.param:
            return (tested, True), (tested, zero)
        if isinstance(t, ast.Compare) and isinstance(t.left, ast.Name) and t.left.id == self.param and len(t.ops) == 1 \
                and isinstance(t.ops[0], ast.Eq) and isinstance(t.comparators[0], ast.Constant) and t.comparators[0].value == 0:
            return (tested, True), (tested, zero)
        return state, state

    def assert_(self, st, state):
        tested, zero = state
        if self._is_residual_test(st.test):
            return (True, zero), (tested, zero)
        return state, state


def _is_residual_expr(n, param) -> bool:
    # flags & ~MASK
    if isinstance(n, ast.BinOp) and isinstance(n.op, ast.BitAnd):
        for a, b in ((n.left, n.right), (n.right, n.left)):
            if isinstance(b, ast.UnaryOp) and isinstance(b.op, ast.Invert) and any(isinstance(x, ast.Name) and x.id == param for x in ast.walk(a)):
                return True
    # reconstruct-and-compare: f(result) != flags
    if isinstance(n, ast.Compare) and len(n.ops) == 1 and isinstance(n.ops[0], (ast.NotEq, ast.Eq)):
        sides = [n.left, n.comparators[0]]
        if any(isinstance(s, ast.Name) and s.id == param for s in sides) and any(isinstance(s, ast.Call) for s in sides):
            return True
    return False


def r111(an: Analysis, rep, V):
    fn = flags_decoder(an, V)
    param = fn.params[0]
    ref = reference(V)
    # carriers: names bound to the "not covered" component of the decomposition
    carriers: Set[str] = set()
    decompose_calls = [n for n in ast.walk(fn.node) if isinstance(n, ast.Call) and (attr_chain(n.func) or "").endswith("_decompose")]
    discarded = []
    from .encode_model import parent_map
    pm = parent_map(fn.module)
    for c in decompose_calls:
        par = pm.get(id(c))
        if isinstance(par, ast.Subscript) and isinstance(par.slice, ast.Constant):
            if par.slice.value == 1:
                gp = pm.get(id(par))
                if isinstance(gp, ast.Assign) and isinstance(gp.targets[0], ast.Name):
                    carriers.add(gp.targets[0].id)
            else:
                discarded.append(par)
        elif isinstance(par, ast.Assign) and isinstance(par.targets[0], ast.Tuple) and len(par.targets[0].elts) == 2:
            t1 = par.targets[0].elts[1]
            if isinstance(t1, ast.Name):
                carriers.add(t1.id)
        elif isinstance(par, ast.Assign) and isinstance(par.targets[0], ast.Name):
            whole = par.targets[0].id
            for n in ast.walk(fn.node):
                if isinstance(n, ast.Subscript) and isinstance(n.value, ast.Name) and n.value.id == whole and isinstance(n.slice, ast.Constant) and n.slice.value == 1:
                    gp = pm.get(id(n))
                    if isinstance(gp, ast.Assign) and isinstance(gp.targets[0], ast.Name):
                        carriers.add(gp.targets[0].id)
                    else:
                        carriers.add(whole)
    vis = ResidualVisitor(fn, carriers, param)
    outs = paths.walk(fn.node.body, (False, False), vis)
    bad = []
    n_paths = 0
    for kind, (tested, zero), node in outs:
        if kind in ("return", "fall"):
            n_paths += 1
            if not tested and not zero:
                bad.append(node)
    where = loc(fn.module, discarded[0]) if discarded else (loc(fn.module, bad[0]) if bad else loc(fn.module, fn.node))
    rep.add("R11.1", f"{fn.qual}::residual bits are tested before the flag set is returned", not bad, where,
            (f"{len(bad)} of {n_paths} returning path(s) never test the bits of `{param}` that no member of the flag enumeration covers"
             + (f": `{norm_src(discarded[0])}` keeps only the decomposed members and discards the not-covered remainder "
                f"(enum._decompose returns ({', '.join(ref['enum_decompose_returns'] or [])}))" if discarded else "")
             + "; an unknown bit is silently dropped, e.g. to_flags_data(0x80000000) == set(), so from_code returns data whose to_code() has different co_flags")
            if bad else f"every one of the {n_paths} returning paths is dominated by a raising test of the uncovered bits (carriers {sorted(carriers)}) or by `{param}` being 0",
            config=vname(V))


# --------------------------------------------------------------------------- R11.2
class FlagVisitor(paths.Visitor):
    """Tracks one flag name N through the decoder: state = present (bool), or (present, sunk) when a sink class is given."""

    def __init__(self, an, it, sobjs, name, depth=0, sink=None):
        self.an, self.it, self.sobjs, self.N = an, it, sobjs, name
        self.sink = sink
        self.removals: List[Tuple[str, ast.AST]] = []
        self.tests: List[ast.AST] = []
        self.rejected = False
        self.depth = depth
        self.walked: List[str] = []

    def is_S(self, node) -> bool:
        return bool(self.it.value_at(node) & self.sobjs)

    def _const_names(self, node) -> Optional[Set[str]]:
        """String constants an expression may evaluate to (set display / module constant / abstract value)."""
        if isinstance(node, ast.Set):
            return {e.value for e in node.elts if isinstance(e, ast.Constant) and isinstance(e.value, str)}
        v = self.it.value_at(node)
        out: Set[str] = set()
        for a in v:
            if a[0] == "const" and isinstance(a[1], str):
                out.add(a[1])
            elif a[0] == "obj":
                for e in self.it.elements(frozenset([a])):
                    if e[0] == "const" and isinstance(e[1], str):
                        out.add(e[1])
        return out

    def _record_tests(self, node):
        for n in ast.walk(node):
            if isinstance(n, ast.Compare) and len(n.ops) == 1 and isinstance(n.ops[0], (ast.In, ast.NotIn)):
                if isinstance(n.left, ast.Constant) and n.left.value == self.N and self.is_S(n.comparators[0]):
                    self.tests.append(n)
            if isinstance(n, ast.BinOp) and isinstance(n.op, ast.BitAnd):
                for a, b in ((n.left, n.right), (n.right, n.left)):
                    if self.is_S(a) and self.N in (self._const_names(b) or set()):
                        self.tests.append(n)

    def stmt(self, st, present):
        if self.sink is not None:
            pres, sunk = present
            if any(isinstance(c, ast.Call) and isinstance(c.func, ast.Name) and c.func.id == self.sink for c in ast.walk(st)):
                sunk = True
            r = self._stmt(st, pres)
            if isinstance(r, list):
                return [(k, (p, sunk)) for k, p in r]
            return (r, sunk)
        return self._stmt(st, present)

    def branch(self, test, present):
        if self.sink is not None:
            pres, sunk = present
            t, f = self._branch(test, pres)
            return (None if t is None else (t, sunk)), (None if f is None else (f, sunk))
        return self._branch(test, present)

    def _stmt(self, st, present):
        self._record_tests(st)
        # inline package calls that receive S
        forks = self._inline_calls(st, present)
        if forks is not None:
            return forks
        if isinstance(st, ast.AugAssign) and isinstance(st.op, ast.Sub) and self.is_S(st.target):
            names = self._const_names(st.value) or set()
            if self.N in names:
                if present:
                    self.removals.append(("definite", st))
                return False
        if isinstance(st, ast.Expr) and isinstance(st.value, ast.Call) and isinstance(st.value.func, ast.Attribute) \
                and st.value.func.attr in ("remove", "discard", "pop") and self.is_S(st.value.func.value) and st.value.args:
            a0 = st.value.args[0]
            if isinstance(a0, ast.Constant):
                if a0.value == self.N:
                    if present:
                        self.removals.append(("definite", st))
                    return False
            else:
                names = self._const_names(a0) or set()
                if self.N in names and present:
                    self.removals.append(("maybe", st))
                    return [("fall", True), ("fall", False)]
        return present

    def _inline_calls(self, st, present):
        if self.depth > 3:
            return None
        for c in ast.walk(st):
            if not isinstance(c, ast.Call):
                continue
            callees = [q for q in self.it.callees.get(id(c), ()) if self.an.prog.find_function(q) is not None]
            if not callees:
                continue
            carries = False
            for a in list(c.args) + [k.value for k in c.keywords]:
                v = self.it.value_at(a)
                if v & self.sobjs:
                    carries = True
                for x in v:
                    if x[0] == "obj":
                        for fld, vals in self.it.obj_fields(x).items():
                            if vals & self.sobjs:
                                carries = True
            if not carries:
                continue
            f = self.an.prog.find_function(callees[0])
            if f.qual in self.walked:
                continue
            self.walked.append(f.qual)
            inner = self
            if self.sink is not None:  # callees are walked on the plain state; the sink flag belongs to the top function
                inner = FlagVisitor(self.an, self.it, self.sobjs, self.N, self.depth + 1)
                inner.removals, inner.tests, inner.walked = self.removals, self.tests, self.walked
            sub = paths.walk(f.node.body, present, inner)
            if inner is not self and inner.rejected:
                self.rejected = True
            outs = []
            for kind, s, node in sub:
                if kind == "raise":
                    if s:
                        self.rejected = True
                    outs.append(("raise", s))
                else:
                    outs.append(("fall", s))
            return outs
        return None

    def _branch(self, test, present):
        self._record_tests(test)
        neg = False
        t = test
        while isinstance(t, ast.UnaryOp) and isinstance(t.op, ast.Not):
            neg = not neg
            t = t.operand
        res = (present, present)
        if isinstance(t, ast.Compare) and len(t.ops) == 1 and isinstance(t.ops[0], (ast.In, ast.NotIn)) \
                and isinstance(t.left, ast.Constant) and self.is_S(t.comparators[0]) and t.left.value == self.N:
            inn = isinstance(t.ops[0], ast.In)
            res = (present, None) if (present == inn) else (None, present)
            if not present:
                res = (None, present) if inn else (present, None)
        elif isinstance(t, (ast.Name, ast.Attribute)) and self.is_S(t):
            res = (present, None) if present else (present, present)
        if neg:
            res = (res[1], res[0])
        return res

    def assert_(self, st, present):
        return self.branch(st.test, present)


def r112_sink(an: Analysis, rep, V, top):
    """Function-kind flags live in Function.type: on a path that builds no Function, removing one of them loses it."""
    it, ret = an.interp("from_code", V)
    tg = an.tg
    fnc = an.prog.cls("code_data::Function")
    t = tg.field_type(fnc.field("type"))
    lits = set()
    for x in (t[1] if t[0] == "union" else [t]):
        if x[0] == "literal":
            lits |= {v for v in x[1] if isinstance(v, str)}
    sobjs = set()
    for (o, fld), vals in it.heap.items():
        if o[0] == "obj" and it.obj_kind(o) == "set" and any(a[0] == "src" and a[2][:1] == (("a", "co_flags"),) for a in it.origins(frozenset(vals))):
            sobjs.add(o)
    for N in sorted(lits):
        vis = FlagVisitor(an, it, frozenset(sobjs), N, sink=fnc.name)
        outs = paths.walk(top.node.body, (True, False), vis)
        lost = [node for kind, st, node in outs if kind in ("return", "fall") and st[0] is False and st[1] is False]
        rep.add("R11.2", f"{top.qual}::flag {N} is removed only where it is stored", not lost, loc(top.module, lost[0]) if lost else loc(top.module, top.node),
                f"on a path that never builds a {fnc.name} value the flag {N} is removed from the flag set and the decoder returns: the flag of non-function code "
                f"(e.g. a module compiled with top-level await, or a hand-set bit) is dropped silently, to_code() yields different co_flags" if lost
                else f"every path on which {N} is removed builds the {fnc.name} value that stores it", config=vname(V))


def r114_dominance(an: Analysis, rep, V, top):
    """Header fields the data does not store (they are re-derived by the encoder) must be checked on every returning path."""
    import reference.contracts as C
    it, ret = an.interp("from_code", V)
    stored = set()
    for a in ret:
        for fld, vals in it.obj_fields(a).items():
            for o in it.origins(vals, stop_kinds=("call:len",)):
                if o[0] == "src" and o[1] == "code" and o[2]:
                    stored.add(o[2][0][1])
    seen = header_reads(an, V)
    for s in C.CODE_SLOTS[V]:
        attr = "co_" + s
        if attr not in seen or attr in stored:
            continue

        class V_(paths.Visitor):
            def branch(self, test, state):
                if any(isinstance(x, ast.Attribute) and x.attr == attr for x in ast.walk(test)):
                    return state, True
                return state, state

            def assert_(self, st, state):
                if any(isinstance(x, ast.Attribute) and x.attr == attr for x in ast.walk(st.test)):
                    return True, state
                return state, state
        outs = paths.walk(top.node.body, False, V_())
        unchecked = [node for kind, st, node in outs if kind in ("return", "fall") and not st]
        rep.add("R11.4", f"{top.qual}::{attr} is checked on every returning path", not unchecked, loc(top.module, unchecked[0]) if unchecked else loc(top.module, top.node),
                f"{attr} is not stored in the data (the encoder re-derives it) and the test that rejects code objects where the derivation would differ is skipped on "
                f"{len(unchecked)} returning path(s): such a code object is decoded without error and re-encoded with a different {attr}" if unchecked
                else f"{attr} is only checked, and the check dominates every return", config=vname(V))


def r112(an: Analysis, rep, V):
    it, ret = an.interp("from_code", V)
    names, excluded = flag_universe(an, V)
    ref = reference(V)
    # the exclusions must be exactly the future features that collide with a compiler flag or have flag value 0
    coll = sorted(f for f, val in ref["future_flags"].items() if val == 0 or str(val) in ref["COMPILER_FLAG_NAMES"])
    rep.add("R11.2", "flag enumeration::excluded future features", sorted(excluded) == coll, "code_data/_flags_data.py",
            f"excluded {sorted(excluded)} == features whose flag is 0 or collides with a compiler flag {coll}" if sorted(excluded) == coll
            else f"excluded {sorted(excluded)} but the features with a zero / colliding flag are {coll}", config=vname(V))
    # S = the abstract set objects holding names decoded from co_flags
    sobjs = set()
    for (o, fld), vals in it.heap.items():
        if o[0] == "obj" and it.obj_kind(o) == "set":
            if any(a[0] == "src" and a[2][:1] == (("a", "co_flags"),) for a in it.origins(frozenset(vals))):
                sobjs.add(o)
    if not sobjs:
        raise AnalysisError("no flag-name set derived from code.co_flags found in the decode closure")
    # the top function: the one that builds the CodeData result
    top = None
    sites = {(a[1][0], a[1][1]) for a in ret if a[0] == "obj"}
    for f in an.closure("from_code", V):
        if f.cls is None and any(f.module.name == m and f.node.lineno <= ln <= f.node.end_lineno for m, ln in sites):
            top = f
    if top is None:
        raise AnalysisError("decoder top-level function not found")
    dispositions: Dict[str, str] = {}
    for N in names:
        vis = FlagVisitor(an, it, frozenset(sobjs), N)
        outs = paths.walk(top.node.body, True, vis)
        survive = [node for kind, present, node in outs if kind in ("return", "fall") and present]
        rejected = vis.rejected or any(kind == "raise" and present for kind, present, node in outs)
        removed = [s for k, s in vis.removals]
        fed = bool(vis.tests)
        key = f"{top.qual}::flag {N}"
        if survive:
            rep.add("R11.2", key, False, loc(top.module, survive[0]),
                    f"flag {N} can still be in the flag set when the decoder returns: it is neither consumed into a field nor rejected - silently dropped, to_code() yields different co_flags",
                    config=vname(V))
            dispositions[N] = "survives"
        elif removed and not fed:
            rep.add("R11.2", key, False, loc(top.module, removed[0]),
                    f"flag {N} is removed from the flag set at `{norm_src(removed[0])}` but its presence is never tested: dropped without being recorded",
                    config=vname(V))
            dispositions[N] = "dropped"
        elif removed:
            rep.add("R11.2", key, True, loc(top.module, removed[0]),
                    f"consumed: presence tested ({norm_src(vis.tests[0])}) and removed ({norm_src(removed[0])}); otherwise reaches the final raise", config=vname(V))
            dispositions[N] = "consumed"
        elif rejected:
            rep.add("R11.2", key, True, loc(top.module, top.node), "rejected: never removed, every path on which it is present ends in a raise", config=vname(V))
            dispositions[N] = "rejected"
        else:
            rep.add("R11.2", key, False, loc(top.module, top.node), f"flag {N}: no path found", config=vname(V))
    return dispositions, top


# --------------------------------------------------------------------------- R11.3
def codetype_calls(an: Analysis, V):
    it, _ = an.interp("to_code", V)
    out = []
    for f in an.closure("to_code", V):
        for n in ast.walk(f.node):
            if isinstance(n, ast.Call) and (attr_chain(n.func) or "").split(".")[-1] == "CodeType" and it.value_at(n):
                out.append((f, n))
    return out


def r113(an: Analysis, rep, V, dispositions):
    import reference.contracts as C
    it, _ = an.interp("to_code", V)
    calls = codetype_calls(an, V)
    if len(calls) != 1:
        raise AnalysisError(f"expected exactly one live CodeType(...) call under {vname(V)}, found {len(calls)}")
    f, call = calls[0]
    slots = C.CODE_SLOTS[V]
    if len(call.args) != len(slots):
        rep.add("R11.3", f"{f.qual}::CodeType arity", False, loc(f.module, call),
                f"CodeType called with {len(call.args)} positional arguments; {vname(V)} takes {len(slots)}", config=vname(V))
        return
    fv = it.value_at(call.args[slots.index("flags")])
    org = it.origins(fv)
    consts = {a[1] for a in org if a[0] == "const" and isinstance(a[1], str)}
    lit: Set[str] = set()
    for a in org:
        if a[0] == "src":
            t = an.tg.unfold_rec(it.src_type(a))
            for x in (t[1] if t[0] == "union" else [t]):
                if x[0] == "literal":
                    lit |= {v for v in x[1] if isinstance(v, str)}
    for N, d in sorted(dispositions.items()):
        if d != "consumed":
            continue
        ok = N in consts or N in lit
        rep.add("R11.3", f"{f.qual}::flag {N} re-produced", ok, loc(f.module, call),
                f"the flags slot of CodeType is built from {'the literal' if N in consts else 'the function-type field, whose Literal type contains'} {N!r}" if ok
                else f"the decoder consumes flag {N} into the data but nothing in the encoder adds {N!r} to the flag set: the flag is lost on re-encoding",
                config=vname(V))
    # polarity: a flag consumed into a boolean / optional field is added exactly when that field is set
    r113_polarity(an, rep, V, f, dispositions)
    # from_flags_data folds with getattr on the same enumeration the decoder decomposes against
    enum_ok = any(a[0] == "ext" and "enum" in a[1] for a in org) or any(a[0] == "ext" and a[1].endswith("COMPILER_FLAG_NAMES") for a in org)
    rep.add("R11.3", f"{f.qual}::flags folded through the flag enumeration", enum_ok, loc(f.module, call),
            "flag names are converted through the enumeration built from dis.COMPILER_FLAG_NAMES/__future__" if enum_ok
            else "flags slot is not derived from the flag enumeration", config=vname(V))


def r113_polarity(an, rep, V, f, dispositions):
    """Each `flags |= {"X"}` / `.add("X")` in the encoder's top function is guarded by a test that is true iff the guarding data is 'set'."""
    from sa.feval import FevalError, feval
    from .encode_model import conj, guards_of, inline_locals
    from .c05 import _O
    it, _ = an.interp("to_code", V)
    p = f.params[0]
    for st in ast.walk(f.node):
        names = set()
        if isinstance(st, ast.AugAssign) and isinstance(st.op, ast.BitOr) and isinstance(st.value, ast.Set):
            names = {e.value for e in st.value.elts if isinstance(e, ast.Constant) and isinstance(e.value, str)}
        if not names:
            continue
        gs = guards_of(f.module, f, st)
        if not gs:
            continue
        test = inline_locals(f.node, conj(gs), keep_calls=True)
        # type tests on the data (`isinstance(code_data.type, Function)`) become boolean leaves of their own
        tleaves = {}

        class _TT(ast.NodeTransformer):
            def visit_Call(self, c):
                if isinstance(c.func, ast.Name) and c.func.id == "isinstance" and len(c.args) == 2 and isinstance(c.args[0], ast.Attribute) and _rooted(c.args[0], p):
                    nm = f"is_{norm_src(c.args[1])}_{len(tleaves)}" if norm_src(c) not in tleaves else tleaves[norm_src(c)]
                    tleaves[norm_src(c)] = nm
                    return ast.copy_location(ast.Name(nm, ast.Load()), c)
                return self.generic_visit(c)
        import copy as _copy
        test = ast.fix_missing_locations(_TT().visit(_copy.deepcopy(test)))
        for N in sorted(names):
            if dispositions.get(N) != "consumed":
                continue
            dec_conditional = _decoder_consumes_conditionally(an, V, N)
            # model the CodeData argument: every attribute chain rooted at the parameter is a leaf we can set or clear
            leaves = sorted({norm_src(a) for a in ast.walk(test) if isinstance(a, ast.Attribute) and _rooted(a, p)} |
                            {n.id for n in ast.walk(test) if isinstance(n, ast.Name) and n.id != p and n.id not in ("isinstance", "len", "bool", "Function")})
            leaves = [l for l in leaves if not any(l != m and m.startswith(l + ".") for m in leaves)]
            if not leaves or len(leaves) > 3:
                continue
            import itertools
            res = {}
            for combo in itertools.product((True, False), repeat=len(leaves)):
                env = {l: (("x",) if sv else ()) for l, sv in zip(leaves, combo)}
                try:
                    res[combo] = bool(feval(test, env))
                except (FevalError, KeyError, TypeError):
                    res = None
                    break
            if res is None:
                continue
            # NOFREE is the one flag that is present when ALL its data (free and cell variables) is empty;
            # every other flag is present when its (single) datum is set
            tidx = [i for i, l in enumerate(leaves) if l in tleaves.values()]
            if N == "NOFREE":
                want = {c: not any(c) for c in res}
            elif tidx and not dec_conditional:
                # the decoder takes this flag from every kind of code object: the encoder's guard may depend on the datum only
                want = {c: all(v for i, v in enumerate(c) if i not in tidx) for c in res}
            else:
                want = {c: all(c) for c in res}
            ok = res == want
            want_when_set = N != "NOFREE"
            if N == "NOFREE" and ok:
                # the decoder ties NOFREE to BOTH co_freevars and co_cellvars being empty: the guard must depend on data from both
                it_d, ret_d = an.interp("from_code", V)
                attrs = set()
                raw = conj(gs)
                for nm in ast.walk(raw):
                    if isinstance(nm, (ast.Name, ast.Attribute)):
                        for a in it.origins(it.value_at(nm)):
                            if a[0] == "src" and a[1] == "self":
                                for o in it_d.origins(it_d.navigate(ret_d, a[2]), stop_kinds=("call:len",)):
                                    if o[0] == "src" and o[1] == "code" and o[2]:
                                        attrs.add(o[2][0][1])
                need = {"co_freevars", "co_cellvars"}
                if not need <= attrs:
                    rep.add("R11.3", f"{f.qual}::flag NOFREE depends on free and cell variables", False, loc(f.module, st),
                            f"the encoder adds NOFREE from data that the decoder took from {sorted(attrs & need) or sorted(attrs)} only; CPython (and the decoder's own assertion) sets it "
                            f"iff there are neither free nor cell variables: code with {sorted(need - attrs)} re-encodes with a wrong CO_NOFREE", config=vname(V))
                else:
                    rep.add("R11.3", f"{f.qual}::flag NOFREE depends on free and cell variables", True, loc(f.module, st),
                            "guard data originates in co_freevars and co_cellvars", config=vname(V))
            rep.add("R11.3", f"{f.qual}::flag {N} polarity", ok, loc(f.module, st),
                    f"`{norm_src(test)}` adds {N} exactly when {leaves} is {'set' if want_when_set else 'empty'}" if ok else
                    f"`{norm_src(test)}` adds {N} for the assignments {[dict(zip(leaves, c)) for c, v in res.items() if v]} of (set / empty) data, expected "
                    f"{[dict(zip(leaves, c)) for c, v in want.items() if v]}: the re-encoded co_flags differs from the decoded one", config=vname(V))


def _decoder_consumes_conditionally(an, V, N) -> bool:
    """Is the decoder's test for flag N (`"N" in flags`) inside a branch (e.g. the function branch)?"""
    from .encode_model import guards_of
    for g in an.closure("from_code", V):
        for st in ast.walk(g.node):
            if isinstance(st, (ast.Assign, ast.If, ast.Expr, ast.AugAssign)):
                for c in ast.walk(st.value if isinstance(st, (ast.Assign, ast.Expr, ast.AugAssign)) else st.test):
                    if isinstance(c, ast.Compare) and isinstance(c.left, ast.Constant) and c.left.value == N and len(c.ops) == 1 and isinstance(c.ops[0], ast.In):
                        return bool(guards_of(g.module, g, st))
    return False


def _rooted(a, p) -> bool:
    while isinstance(a, ast.Attribute):
        a = a.value
    return isinstance(a, ast.Name) and a.id == p


# --------------------------------------------------------------------------- R11.4
def header_reads(an: Analysis, V) -> Set[str]:
    it, _ = an.interp("from_code", V)
    seen: Set[str] = set()
    for (ctx, nid), vals in it.node_values.items():
        for a in vals:
            if a[0] == "src" and a[1] == "code" and a[2] and a[2][0][0] == "a":
                seen.add(a[2][0][1])
    return seen


def r114(an: Analysis, rep, V, rule="R11.4", only=None):
    import reference.contracts as C
    seen = header_reads(an, V)
    api = an.prog.function("code_data::CodeData.from_code")
    for s in C.CODE_SLOTS[V]:
        if only is not None and s not in only:
            continue
        attr = "co_" + {"code": "code", "consts": "consts"}.get(s, s)
        ok = attr in seen
        rep.add(rule, f"decoder::reads {attr}", ok, loc(api.module, api.node),
                f"{attr} is read in the decode closure" if ok else
                f"header field {attr} is never read by from_code: a code object whose {attr} differs from what the encoder re-derives "
                f"(e.g. c.replace({attr}=3)) is decoded without error and re-encoded with a different {attr} - silently lossy",
                config=vname(V))


# --------------------------------------------------------------------------- R11.5 / R11.6
def r115(an: Analysis, rep):
    it, _ = an.interp("from_code")
    lm = an.prog.cls("code_data._line_mapping::LineMapping")
    dict_fields = [f for f in lm.fields if an.tg.field_type(f)[0] == "dict"]
    # the method called on the mapping after the instruction decoder consumed it: takes the code length
    cands = [m for m in lm.methods.values() if m.qual in it.reached and any(isinstance(n, ast.Raise) for n in ast.walk(m.node))]
    if not cands:
        raise AnalysisError("LineMapping: no leftover-checking method reached from from_code")
    m = cands[0]
    if len(m.params) != 2 or len(dict_fields) != 2:
        raise AnalysisError(f"{m.qual}: expected (self, offset after the code) and a mapping with two tables")
    # the method folded over witness mappings as the instruction decoder can leave them: (lines left, extra entries left, code length) -> expected
    from sa.feval import BlockOutcome, Obj, ObjEval
    from .line_fold import _ctor, evaluator
    RAISE = "<raises>"
    lines_f = next(f.name for f in dict_fields if f.name == "offset_to_line") if any(f.name == "offset_to_line" for f in dict_fields) else dict_fields[0].name
    extra_f = next(f.name for f in dict_fields if f.name != lines_f)
    W = [
        ("nothing left", {}, {}, 8, None),
        ("the line of dead code behind the last instruction", {8: 7}, {}, 8, (7, ())),
        ("that line with the redundant entries written at it", {8: 7}, {8: [1, 2]}, 8, (7, (1, 2))),
        ("that line with one zero entry", {8: 3}, {8: [0]}, 8, (3, (0,))),
        ("a line at an offset no instruction consumed", {6: 7}, {}, 8, RAISE),
        ("lines at two offsets behind the code", {8: 7, 10: 8}, {}, 8, RAISE),
        ("redundant entries at an offset no instruction consumed", {8: 7}, {4: [1]}, 8, RAISE),
        ("redundant entries left with no line left", {}, {4: [0]}, 8, RAISE),
        ("redundant entries at two offsets", {8: 7}, {8: [1], 2: [0]}, 8, RAISE),
    ]
    bad = {lines_f: [], extra_f: [], "value": []}
    for name, ls, xs, n, want in W:
        ev = evaluator(an, m.module, (3, 9))
        obj = Obj({"__cls__": lm.name, lines_f: dict(ls), extra_f: {k: list(v) for k, v in xs.items()}})
        try:
            got = ev.call_method(m.node, obj, n)
            if isinstance(got, Obj):
                got = (got.get("line"), got.get("additional_offsets"))
        except BlockOutcome:
            got = RAISE
        except Exception as ex:  # noqa: BLE001 - a gap of the evaluator, never a verdict
            raise AnalysisError(f"{m.qual}: not evaluable on the witness mapping '{name}' ({type(ex).__name__}: {ex})")
        if got != want or (want not in (None, RAISE) and not isinstance(got[1], tuple)):
            which = "value" if want != RAISE else (extra_f if (set(xs) - {n}) else lines_f)
            bad[which].append(f"{name} (lines left {ls}, extra entries left {xs}, code of {n} bytes): {'accepted, result ' + repr(got) if want == RAISE else 'gives ' + repr(got) + ', expected ' + repr(want)}")
    for f in dict_fields:
        b_ = bad[f.name]
        rep.add("R11.5", f"{m.qual}::leftover keys of {f.name} rejected", not b_, loc(m.module, m.node),
                f"on {sum(1 for w in W if w[4] == RAISE)} witness mappings with entries no instruction consumed the method raises" if not b_
                else f"{b_[0]}: line-table entries no instruction consumed are silently dropped")
    b_ = bad["value"]
    rep.add("R11.5", f"{m.qual}::the trailing line keeps its line and its redundant entries", not b_, loc(m.module, m.node),
            "on 4 witness mappings the result is None / (line, entries written at the offset behind the code)" if not b_
            else f"{b_[0]}: the entries CPython wrote behind the last instruction (statements removed as unreachable) are not kept, to_code() writes another table")
    # and the decoder really calls it after decoding the instructions
    top_calls = any(q == m.qual for (c, q) in it.call_edges)
    rep.add("R11.5", f"{m.qual}::called by the decoder", top_calls, loc(m.module, m.node), "called from the decode closure" if top_calls else "never called")


def r116(an: Analysis, rep, V):
    reads = field_reads(an, "to_code", V)
    ai = an.prog.cls("code_data._args::ArgsInput")
    for f in ai.fields:
        sites = reads.get((ai.qual, f.name), [])
        rep.add("R11.6", f"{ai.qual}.{f.name}", bool(sites), loc(ai.module, f.node),
                f"encoder uses it at {sites[:2]}" if sites else f"the encoder computes {f.name} but never uses it (neither passed to CodeType nor checked)",
                config=vname(V))


def width_rule(an: Analysis, rep, rule="R11.W", jumps_only=False):
    """The number of code units an instruction was written with is kept whenever it is not the minimal one: the statements that decide the
    recorded width are folded over (jump / not a jump) x (1..4 units) x (operand sizes); a redundant EXTENDED_ARG prefix that is dropped makes two
    different code objects decode to equal data and re-encode to other bytes than were given - silently."""
    from sa.feval import BlockEval, BlockOutcome, FevalError, Obj
    rep.rule(rule, "the width of every multi-unit jump is recorded" if jumps_only else
             "the recorded instruction width is None only when the instruction was written with the minimal number of code units", 1)
    site = None
    for f in an.closure("from_code"):
        for c in ast.walk(f.node):
            if isinstance(c, ast.Call) and isinstance(c.func, ast.Name) and c.func.id == "Instruction":
                kw = {k.arg: k.value for k in c.keywords}
                if "_n_args_override" in kw and not (isinstance(kw["_n_args_override"], ast.Attribute) and kw["_n_args_override"].attr == "_n_args_override"):
                    site = (f, c, kw["_n_args_override"])  # (a width copied from another instruction is decided where that one was built)
    if site is None:
        raise AnalysisError("the decoder's Instruction(..., _n_args_override=...) construction was not found")
    f, call, wexpr = site
    from .encode_model import parent_map
    pm = parent_map(f.module)
    loop = call
    while loop is not f.node and not isinstance(loop, ast.For):
        loop = pm[id(loop)]
    if not isinstance(loop, ast.For):
        raise AnalysisError(f"{f.qual}: the instruction is not built inside the loop over the parsed code units")
    wnames = {n.id for n in ast.walk(wexpr) if isinstance(n, ast.Name)}
    # the parser's tuple: which loop variable is the unit count, which the operand (R02.8 decides that the parser fills them correctly)
    from . import c02
    pf = c02.find_parser(an)
    y = [n for n in ast.walk(pf.node) if isinstance(n, ast.Yield) and isinstance(n.value, ast.Tuple)][0]
    _iv, cnt = c02.parser_roles(pf)
    tnames = [t.id if isinstance(t, ast.Name) else None for t in (loop.target.elts if isinstance(loop.target, ast.Tuple) else [])]
    if len(tnames) != len(y.value.elts):
        raise AnalysisError(f"{f.qual}: the loop does not unpack the parser's tuple")
    pos_cnt = next((i for i, e in enumerate(y.value.elts) if isinstance(e, ast.Name) and e.id == cnt), None)
    accs = [i for i, e in enumerate(y.value.elts) if isinstance(e, ast.Name) and e.id != cnt and i != 0]
    if pos_cnt is None or not accs:
        raise AnalysisError(f"{pf.qual}: unit count / operand positions of the yielded tuple not recognised")
    n_var, a_var = tnames[pos_cnt], tnames[accs[0]]
    # statements of the loop body (before the construction) that decide the names the width expression reads
    stmts = []
    for st in loop.body:
        if any(x is call for x in ast.walk(st)):
            break
        stores = {n.id for n in ast.walk(st) if isinstance(n, ast.Name) and isinstance(n.ctx, ast.Store)}
        if stores & wnames:
            stmts.append(st)
    jump_tests = [n for st in stmts for n in ast.walk(st) if isinstance(n, ast.Call) and isinstance(n.func, ast.Name) and n.func.id == "isinstance" and len(n.args) == 2
                  and isinstance(n.args[0], ast.Name) and "Jump" in norm_src(n.args[1])]
    jvar = jump_tests[0].args[0].id if jump_tests else None

    def resolve(name):
        r = an.prog.resolve_global(f.module, name, f)
        return r[1].node if r and r[0] == "func" else None

    def minimal(a):
        return 1 if a <= 0xFF else 2 if a <= 0xFFFF else 3 if a <= 0xFFFFFF else 4
    bad = []
    bad_jump = []
    n_pts = 0
    for is_jump in (True, False):
        for a in (0, 300, 70000):
            for n in (1, 2, 3, 4):
                if n < minimal(a):
                    continue
                be = BlockEval(resolve, extra={"Jump": "Jump", "isinstance": lambda o, c: isinstance(o, dict) and o.get("__cls__") in (c if isinstance(c, tuple) else (c,))})
                be.module_assigns = f.module.assigns
                env = {n_var: n, a_var: a}
                if jvar:
                    env[jvar] = Obj({"__cls__": "Jump" if is_jump else "Name", "target": 0, "relative": False})
                for nm in {x.id for st in stmts for x in ast.walk(st) if isinstance(x, ast.Name) and isinstance(x.ctx, ast.Load)} - set(env) - {"Jump", "isinstance", "None", "True", "False"}:
                    if resolve(nm) is None and nm not in f.module.assigns:
                        env.setdefault(nm, set())  # collections the same statements also fill (the set of jump targets)
                try:
                    env, _ = be.run_block(stmts, env)
                    got = be.ev(wexpr, env)
                except BlockOutcome:
                    continue
                except (FevalError, KeyError, TypeError, AttributeError) as ex:
                    raise AnalysisError(f"{f.qual}: the statements deciding `{norm_src(wexpr)}` are not evaluable ({ex})")
                n_pts += 1
                if is_jump and n > 1 and got != n:
                    bad_jump.append(f"a jump written with {n} code units for operand {a} gets width {got!r}")
                if n != minimal(a) and got != n:
                    bad.append(f"{'a jump' if is_jump else 'an instruction that is not a jump'} written with {n} code units for operand {a} (minimal: {minimal(a)}) gets width {got!r}")
    if jumps_only:
        rep.add(rule, f"{f.qual}::width of multi-unit jumps is recorded", not bad_jump, loc(f.module, call),
                "a jump written with more than one code unit keeps its width whatever its operand" if not bad_jump else
                f"{bad_jump[0]}: whether a prefix is 'needed' depends on the final layout, which is not known while decoding - CPython's peephole pass leaves such prefixes "
                f"(two jumps that only need two units because the other has two), and the re-encoded co_code comes out shorter")
        return
    rep.add(rule, f"{f.qual}::width kept whenever it is not minimal", not bad, loc(f.module, call),
            f"{n_pts} points (jump / other, 1-4 code units, three operand sizes): a width other than the minimal one is recorded" if not bad else
            f"{bad[0]}: the redundant EXTENDED_ARG prefix is forgotten, so `EXTENDED_ARG 0; LOAD_CONST 0` decodes exactly like `LOAD_CONST 0` - two different code objects give equal "
            f"data (as constants of one table they are then treated as one repeated entry), and to_code() writes other bytes than from_code was given, without any exception")


def r11q(an: Analysis, rep, rule="R11.Q"):
    """An operand class without a position override (Freevar: the name only) is encoded by looking its value up in the table (`table.index(name)`): two
    table entries with the same value cannot be told apart, the second is silently re-encoded as the first.  So the decoder must refuse a table
    with repeated entries for such a class (compiler output has none; a hand-altered co_freevars can)."""
    rep.rule(rule, "tables whose operands carry no position override are refused when an entry is repeated", 1)
    from . import c02
    it, _ = an.interp("from_code")
    f, arms = c02.find_operand_decoder(an, (3, 10))
    n = 0
    for cat, node in arms:
        for r in ast.walk(node):
            if not (isinstance(r, ast.Return) and isinstance(r.value, ast.Call) and isinstance(r.value.func, ast.Name)):
                continue
            res = an.prog.resolve_global(f.module, r.value.func.id, f)
            if not (res and res[0] == "class" and res[1].is_dataclass):
                continue
            ci = res[1]
            if any(fl.name == "_index_override" for fl in ci.fields):
                continue
            subs = [x for x in ast.walk(r.value) if isinstance(x, ast.Subscript) and isinstance(x.value, ast.Name)]
            if not subs:
                continue
            # which co_* table is indexed?
            attrs = set()
            for a in it.value_at(subs[0].value):
                for o in it.origins(frozenset([a])):
                    if o[0] == "src" and o[2]:
                        attrs |= {st[1] for st in o[2] if st[0] == "a" and str(st[1]).startswith("co_")}
            if not attrs:
                raise AnalysisError(f"{f.qual}: which code attribute `{norm_src(subs[0].value)}` comes from is not recognised")
            n += 1
            spurious = []
            # a rejection of repeated entries: a raise in the decode closure guarded by len(set(X)) != len(X) / len(X) != len(set(X)) with X from that attribute
            guarded = False
            for g in an.closure("from_code"):
                for st in ast.walk(g.node):
                    if not (isinstance(st, ast.If) and any(isinstance(b, ast.Raise) for b in st.body)):
                        continue
                    for c in ast.walk(st.test):
                        if isinstance(c, ast.Compare) and len(c.ops) == 1 and isinstance(c.ops[0], (ast.NotEq, ast.Lt, ast.Gt)):
                            sides = [c.left, c.comparators[0]]
                            def _len_of(e):
                                return e.args[0] if isinstance(e, ast.Call) and isinstance(e.func, ast.Name) and e.func.id == "len" and len(e.args) == 1 else None
                            inner = [_len_of(x) for x in sides]
                            if None in inner:
                                continue
                            sets = [x for x in inner if isinstance(x, ast.Call) and isinstance(x.func, ast.Name) and x.func.id in ("set", "frozenset") and len(x.args) == 1]
                            plains = [x for x in inner if x not in sets]
                            if len(sets) == 1 and len(plains) == 1 and ast.dump(sets[0].args[0]) == ast.dump(plains[0]):
                                from .encode_model import inline_locals as _il
                                px = _il(g.node, plains[0])
                                srcattrs = {x.attr for x in ast.walk(px) if isinstance(x, ast.Attribute) and x.attr.startswith("co_")}
                                for a in an.interp("from_code")[0].value_at(plains[0]):
                                    for o in an.interp("from_code")[0].origins(frozenset([a])):
                                        if o[0] == "src" and o[2]:
                                            srcattrs |= {stp[1] for stp in o[2] if stp[0] == "a" and str(stp[1]).startswith("co_")}
                                if srcattrs & attrs:
                                    guarded = True
                                    wider = sorted(srcattrs - attrs)
                                    if wider:
                                        spurious.append((st, wider))
            if spurious:
                rep.add(rule, f"{f.qual}::{ci.name} operands: only repeated entries of {sorted(attrs)[0]} are refused", False, loc(f.module, spurious[0][0]),
                        f"`{norm_src(spurious[0][0].test)[:70]}` counts the names of {sorted(attrs)[0]} together with those of {spurious[0][1]}: one name in both tables is not a repeated entry - a class body "
                        f"nested in a method has `__class__` as a cell variable and as a free variable (compiler output), and from_code refuses it")
            rep.add(rule, f"{f.qual}::{ci.name} operands: repeated entries of {sorted(attrs)[0]} are refused", guarded, loc(f.module, r),
                    f"from_code raises when {sorted(attrs)[0]} holds the same entry twice" if guarded else
                    f"`{norm_src(r.value)[:60]}` keeps only the value of the entry, and the encoder finds it again with `.index(...)`: with a repeated entry (hand-altered co_freevars=('a', 'a')) "
                    f"the second one is re-encoded as the first - LOAD_DEREF 1 becomes LOAD_DEREF 0, the function computes something else, and nothing is raised")
    if n == 0:
        rep.add(rule, "every operand class that names a table entry carries a position override", True, "code_data/__init__.py", "no operand class without _index_override indexes a table", nontrivial=False)


def r11o(an: Analysis, rep, rule="R11.O"):
    """The decoder names an instruction by `dis.opname[opcode]`, which has an entry ('<7>') for every byte; the encoder finds the opcode again through
    `dis.opmap[name]`, which only knows defined opcodes.  A byte the interpreter does not define (hand-altered co_code, e.g. in dead code) must therefore be
    refused by from_code: otherwise it returns data that to_code() cannot encode (KeyError) - neither an error from from_code nor a faithful round trip."""
    from sa.feval import FevalError, PureEval
    rep.rule(rule, "an opcode byte the interpreter does not define is refused by from_code", 1)
    site = None
    for f in an.closure("from_code"):
        for c in ast.walk(f.node):
            if isinstance(c, ast.Call) and isinstance(c.func, ast.Name) and c.func.id == "Instruction":
                kw = {k.arg: k.value for k in c.keywords}
                if "name" in kw and isinstance(kw["name"], ast.Subscript) and (attr_chain(kw["name"].value) or "").split(".")[-1] == "opname" and isinstance(kw["name"].slice, ast.Name):
                    site = (f, c, kw["name"].slice.id)
    if site is None:
        raise AnalysisError("how the decoder names an instruction (Instruction(name=dis.opname[<opcode>])) is not recognised")
    f, call, opv = site
    enc_lookup = any(isinstance(x, ast.Subscript) and (attr_chain(x.value) or "").split(".")[-1] == "opmap" for g in an.closure("to_code") for x in ast.walk(g.node))
    if not enc_lookup:
        raise AnalysisError("how the encoder finds the opcode of an instruction name (dis.opmap[name]) is not recognised")
    from .encode_model import parent_map
    pm = parent_map(f.module)
    loop = call
    while loop is not f.node and not isinstance(loop, ast.For):
        loop = pm[id(loop)]
    guards = [st for st in ast.walk(loop) if isinstance(st, ast.If) and any(isinstance(b, ast.Raise) for b in st.body)
              and {n.id for n in ast.walk(st.test) if isinstance(n, ast.Name)} <= {opv, "dis", "opcode", "HAVE_ARGUMENT", "len", "set", "frozenset"} | set(f.module.assigns)] if isinstance(loop, ast.For) else []
    bad = []
    for V in VERSIONS:
        ref = reference(V)
        opmap = dict(ref["opmap"])
        opname = [f"<{i}>" for i in range(256)]
        for nm, b in opmap.items():
            opname[b] = nm
        undefined = [b for b in range(256) if opname[b] not in opmap]
        disenv = {"opmap": opmap, "opname": opname, "HAVE_ARGUMENT": ref["HAVE_ARGUMENT"], "EXTENDED_ARG": ref["EXTENDED_ARG"]}
        for k in ref:
            if k.startswith("has"):
                disenv[k] = list(ref[k])
        pe = PureEval(lambda name: None, extra={"dis": disenv, "opcode": disenv, "HAVE_ARGUMENT": ref["HAVE_ARGUMENT"]})
        pe.module_assigns = f.module.assigns
        pe.MAX_ITER = 512

        def refused(b):
            for g in guards:
                try:
                    if pe.ev(g.test, {opv: b}):
                        return True
                except (FevalError, KeyError, TypeError, IndexError):
                    continue
            return False
        missed = [b for b in undefined if not refused(b)]
        spurious = [opname[b] for b in sorted(opmap.values()) if refused(b)]
        if missed or spurious:
            bad.append((vname(V), missed[:3], len(missed), spurious[:3]))
    rep.add(rule, f"{f.qual}::undefined opcode bytes are refused", not bad, loc(f.module, call),
            f"every byte without an opcode on 3.7 - 3.10 makes from_code raise, no defined opcode does" if not bad else
            (f"[{bad[0][0]}] bytes {bad[0][1]} ({bad[0][2]} in all) have no opcode, `dis.opname` names them '<{bad[0][1][0]}>' and the decoder stores that name; `dis.opmap` has no such key, so "
             f"to_code() of the data from_code returned raises KeyError('<{bad[0][1][0]}>') - from_code neither refused the code object nor gave data that can be encoded" if bad[0][1] else
             f"[{bad[0][0]}] the defined opcodes {bad[0][3]} are refused"))


def r11n(an: Analysis, rep, rule="R11.N"):
    """The members of the flag enumeration are CPython's flag names with CPython's values: the member list is folded per interpreter version with the reference
    tables standing in for `dis.COMPILER_FLAG_NAMES` and `__future__` (parsed from each stdlib) and compared name by name - a hand-written table in which two
    values are exchanged converts flags and names consistently in both directions (the round trip stays green) and calls every coroutine an async generator."""
    from sa.feval import BlockEval as PureEval, FevalError
    rep.rule(rule, "every member of the flag enumeration has the value CPython gives that flag, on every interpreter version", 1)
    site = None
    for m in an.prog.modules.values():
        if m.is_test or not m.name.startswith("code_data"):
            continue
        for nm, exprs in m.assigns.items():
            for e in exprs:
                if isinstance(e, ast.Call) and norm_src(e.func).split(".")[-1] in ("IntFlag", "Flag") and len(e.args) >= 2:
                    site = (m, nm, e)
    if site is None:
        raise AnalysisError("functional definition of the flag enumeration (enum.IntFlag(name, members)) not found")
    m, nm, e = site
    bad = []
    for V in VERSIONS:
        ref = reference(V)
        names = {int(k): v for k, v in ref["COMPILER_FLAG_NAMES"].items()}
        fut = dict(ref["future_flags"])

        class _Feature(dict):
            pass
        future = {n: {"compiler_flag": v} for n, v in fut.items()}
        future["all_feature_names"] = list(ref["future_features"])
        pe = PureEval(lambda name: None, extra={"dis": {"COMPILER_FLAG_NAMES": names}, "__future__": future, "getattr": lambda o, n, *d: o[n] if n in o or not d else d[0]})
        pe.module_assigns = m.assigns
        pe.MAX_ITER = 256
        try:
            members = pe.ev(e.args[1], {})
            members = list(members.items()) if isinstance(members, dict) else list(members)
            got = {str(k): int(v) for k, v in members}
        except (FevalError, KeyError, TypeError, ValueError) as ex:
            raise AnalysisError(f"{m.name}: the members of {nm} are not foldable under {vname(V)} ({ex})")
        want = {v: k for k, v in names.items()}
        want.update({n: v for n, v in fut.items() if n in got})
        for n_, v_ in sorted(got.items()):
            if n_ in want and want[n_] != v_:
                bad.append(f"[{vname(V)}] {n_} = {v_:#x}, CPython's CO_{n_} is {want[n_]:#x}")
        for n_ in sorted(set(want) - set(got)):
            if n_ in {v for v in names.values()}:
                bad.append(f"[{vname(V)}] CPython's flag {n_} ({want[n_]:#x}) is not a member")
    rep.add(rule, f"{m.name}::{nm} members carry CPython's values", not bad, loc(m, e),
            "every compiler flag and every __future__ flag has CPython's value on 3.7 - 3.10" if not bad else
            f"{bad[0]}" + (f" (and {len(bad) - 1} more)" if len(bad) > 1 else "") + ": flags and names are converted consistently in both directions, so co_flags round-trips - but the name the data "
            f"shows for a bit is another flag's (an `async def` decodes as ASYNC_GENERATOR)")


def r117(an: Analysis, rep):
    """The decoder rejects argument names on non-function code through the truthiness of Args: that is only a guard if len(args) counts every kind."""
    it, _ = an.interp("from_code")
    args_q = "code_data::Args"
    used = None
    for f in an.closure("from_code"):
        for n in ast.walk(f.node):
            if isinstance(n, ast.Assert) or (isinstance(n, ast.If) and any(isinstance(b, ast.Raise) for b in n.body)):
                t = n.test
                while isinstance(t, ast.UnaryOp) and isinstance(t.op, ast.Not):
                    t = t.operand
                if isinstance(t, ast.Name) and any(a[0] == "obj" and it.obj_class(a) == args_q for a in it.value_at(t)):
                    used = (f, n)
    if used is None:
        return
    from .common import SharedRules
    from . import c04
    sh = SharedRules(rep, "R11.7", "the 'no arguments on non-function code' guard tests the truthiness of Args, i.e. Args.__len__ (shared with C04's R04.7)")
    rep.run(c04.r047, an, sh)


def r119(an: Analysis, rep):
    """The flag enumeration is never *called* on a flag word: on 3.7-3.10 `FlagClass(value)` for an unnamed value registers a pseudo-member
    in the class-level value map (Flag._create_pseudo_member_), and enum._decompose consults that map - after one such call a bit no
    member covers is reported as covered by the pseudo-member, so the same word converts differently the second time."""
    rep.rule("R11.9", "the flag enumeration class is not called on input values (no pseudo-member registration)", 1)
    facts = {v: reference(V).get("enum_pseudo_members") for v, V in ((vname(V), V) for V in VERSIONS)}
    if not all(f and f["call_registers_pseudo_member"] and f["decompose_reads_value_map"] for f in facts.values()):
        rep.add("R11.9", "enum registers pseudo-members", True, "reference/", f"not on every version ({facts}): rule not applicable", nontrivial=False)
        return
    enums = []
    for m in an.prog.modules.values():
        if m.is_test:
            continue
        for name, exprs in m.assigns.items():
            for e in exprs:
                if isinstance(e, ast.Call) and norm_src(e.func).split(".")[-1] in ("IntFlag", "Flag"):
                    enums.append((m, name))
        for c in m.classes.values():
            if any(norm_src(b).split(".")[-1] in ("IntFlag", "Flag") for b in c.node.bases):
                enums.append((m, c.name))
    if not enums:
        raise AnalysisError("flag enumeration (enum.IntFlag / enum.Flag) not found in the package")
    # does the flag-word decoder reject a decomposed member that has no name (a pseudo-member)?
    fn = flags_decoder(an, VERSIONS[-1])
    guard = None
    for lp in ast.walk(fn.node):
        if not (isinstance(lp, ast.For) and isinstance(lp.target, ast.Name)):
            continue
        v = lp.target.id
        for st in ast.walk(lp):
            if isinstance(st, ast.If) and any(isinstance(b, ast.Raise) for b in st.body):
                for c in ast.walk(st.test):
                    if isinstance(c, ast.Compare) and len(c.ops) == 1:
                        l, r = c.left, c.comparators[0]
                        if isinstance(c.ops[0], ast.NotIn) and isinstance(l, ast.Name) and l.id == v and isinstance(r, ast.Name) and any(r.id == nm for _, nm in enums):
                            guard = st
                        if isinstance(c.ops[0], (ast.Is, ast.Eq)) and isinstance(l, ast.Attribute) and l.attr in ("name", "_name_") and isinstance(l.value, ast.Name) and l.value.id == v \
                                and isinstance(r, ast.Constant) and r.value is None:
                            guard = st
    n = 0
    calls = []
    for m in an.prog.modules.values():
        if m.is_test:
            continue
        for c in ast.walk(m.tree):
            if isinstance(c, ast.Call) and isinstance(c.func, ast.Name) and any(c.func.id == nm for _, nm in enums) and c.args:
                n += 1
                if not isinstance(c.args[0], ast.Constant):
                    calls.append((m, c))
    ok = not calls or guard is not None
    where = loc(calls[0][0], calls[0][1]) if calls else loc(fn.module, fn.node)
    if ok:
        why = (f"no call of the flag enumeration on a run-time value in the package ({n} call(s) examined)" if not calls else
               f"`{norm_src(calls[0][1])[:50]}` registers pseudo-members, but the decoder raises on a decomposed member without a name (`{norm_src(guard.test)}`)")
    else:
        why = (f"`{norm_src(calls[0][1])[:60]}` builds an enumeration value from a run-time integer: for a word with a bit no member names this registers a pseudo-member "
               f"for that bit in the class (enum.py, Flag._create_pseudo_member_), which enum._decompose then reports as a member covering the bit; {fn.name} does not reject "
               f"members without a name, so the next conversion of a word with that bit silently drops it (the result depends on earlier calls)")
    rep.add("R11.9", f"{fn.qual}::pseudo-members of the flag enumeration cannot be accepted", ok, where, why)


def run(an: Analysis, rep):
    rep.explanation = (
        "Decides, per interpreter version: (R11.1) every returning path of the flag-word decoder is dominated by a raising test of the "
        "bits no enumeration member covers; (R11.2) a typestate walk of the decoder for each of the 18 flag names of the version "
        "(from the stdlib tables) ends either consumed (presence tested and removed) or rejected (present at a raise), never "
        "surviving to the return and never removed untested; (R11.3) each consumed flag is re-produced into the flags slot of "
        "CodeType by the encoder; (R11.4) every positional slot of code() has its co_* attribute read by the decoder; (R11.5) "
        "line-mapping leftovers are rejected; (R11.6) every argument-count field the encoder derives is used or checked. "
        "Numeric values of the flag enumeration come from the running interpreter by construction and are not decided."
    )
    rep.rule("R11.1", "residual (unknown) flag bits are tested before the flag set is returned", 1)
    rep.rule("R11.2", "every flag name of every interpreter is consumed into a field or reaches a raise", 19)
    rep.rule("R11.3", "consumed flags are re-produced by the encoder", 8)
    rep.rule("R11.4", "every header field is read by the decoder", 15)
    rep.rule("R11.5", "line-mapping leftovers are rejected", 3)
    rep.rule("R11.6", "argument counts are used or rejected on the encode side", 5)
    interps = []
    for V in VERSIONS:
        interps.append(an.interp("from_code", V)[0])
        rep.run(r111, an, rep, V)
        rep.run(r111_whole_word, an, rep, V)
        res = rep.run(r112, an, rep, V)
        if res is not None:
            disp, top = res
            rep.run(r112_sink, an, rep, V, top)
            rep.run(r114_dominance, an, rep, V, top)
            rep.run(r113, an, rep, V, disp)
            rep.extra.setdefault("flag_dispositions", {})[vname(V)] = disp
        rep.run(r114, an, rep, V)
        rep.run(r116, an, rep, V)
    rep.run(r115, an, rep)
    from .common import purity
    rep.run(purity, an, rep, "R11.P", ["from_code", "to_code"])
    from .common import assert_guard_rule
    rep.run(assert_guard_rule, an, rep, "R11.A", ["from_code", "to_code"])
    from . import c01 as _c01
    rep.run(_c01.r01a, an, rep, "R11.L", "not dropped")
    from .common import truthiness_rule
    rep.run(truthiness_rule, an, rep, "R11.T", ["from_code", "to_code", "parameters"], [("Args", "var_positional"), ("Args", "var_keyword")],
            what="the name of *args / **kwargs (Optional[str]: '' is a name a hand-made code object can carry, None means the parameter is absent)")
    from .common import SharedRules as _SR
    from . import c09
    from . import c04 as _c04d
    shd11 = _SR(rep, "R11.D", "the decoder passes co_varnames on as it is and takes the docstring from co_consts[0] exactly when that is a str (shared with C04's R04.1 / R04.5): a renamed local or a first "
                              "constant moved out of / into the docstring slot changes co_varnames / co_consts of the re-encoded object, silently")
    rep.run(_c04d.r041_input, an, shd11)
    rep.run(_c04d.r045, an, shd11)
    rep.run(lambda a_, r_: _c04d.r04f(a_, r_, roundtrip=True), an, _SR(rep, "R11.Y", "from_code then to_code folded over witness code objects of every kind of scope (C04's R04.W witnesses): the flags word, "
                                                                            "the argument counts and every other header field handed to CodeType equal the attributes of the witness"))
    from . import line_fold as _lf11
    rep.run(_lf11.hand_tables_rule, an, rep)
    from . import c02 as _c02p
    from . import c10 as _c10f11
    rep.run(_c10f11.format_rules, an, _SR(rep, "R11.F2", "line-table format constants per format (shared with C10's R10.1 - R10.4): co_lnotab / co_linetable are header fields, a limit that is right for one "
                                                         "format only writes another table for the other, silently"))
    rep.run(_c02p.r02f, an, _SR(rep, "R11.F3", "the decoder's instruction function folded over witness code units (shared with C02's R02.F): entries of a table that no instruction uses are all listed, "
                                               "also when none of the table is used - otherwise to_code() writes a shorter co_names / co_consts"))
    from . import c03 as _c03w2
    rep.run(_c03w2.r035, an, _SR(rep, "R11.W2", "operand-width thresholds of the size function both sides use (shared with C03's R03.5): an operand of exactly 255 written with a prefix is other bytes than "
                                               "the code object had, although both sides agree and the round trip decodes fine"))
    shx11 = _SR(rep, "R11.X", "code units and operands the data cannot describe are refused by from_code, not repaired (shared with C02's R02.8 / C09's R09.7): prefixes behind the last instruction, a fourth "
                              "prefix, an operand that wrapped around to a negative table index - 'never returns silently lossy data'")
    rep.run(_c02p.r02p, an, shx11)
    rep.run(c09.negative_index_rule, an, shx11)
    from . import c03 as _c03e
    rep.run(_c03e.r03e, an, _SR(rep, "R11.E", "the encoder's layout folded over witness block lists (shared with C03's R03.E): the tables come out in first-use order with the unreferenced entries last - the "
                                              "order the decoder assumed when it left them without a position - so co_names / co_consts are reproduced exactly"))
    rep.run(c09.unreferenced_rules, an, _SR(rep, "R11.U", "table entries no instruction references are all kept in the data (shared with C09's R09.3): otherwise to_code() rebuilds a shorter table and different flags, silently"))
    rep.run(r117, an, rep)
    rep.run(r119, an, rep)
    rep.run(width_rule, an, rep)
    rep.run(r11q, an, rep)
    from . import c01 as _c01r
    shr2 = _SR(rep, "R11.S", "every header field of the re-encoded object is built from what the decoder took from that same field (shared with C01's R01.2): 'reproduces co_flags and every other header field exactly'")
    for V in VERSIONS:
        rep.run(_c01r.r012, an, shr2, V)
    rep.run(r11o, an, rep)
    rep.run(r11n, an, rep)
    from . import c09 as _c09t
    rep.run(_c09t.seed_rules, an, _SR(rep, "R11.G", "what the decoder pre-marks in a table is what the encoder pre-assigns (shared with C09's R09.2): a local pre-marked by mistake and used by no "
                                                    "instruction is not listed as unreferenced - co_varnames and co_nlocals shrink, silently"))
    rep.run(_c09t.table_sequences_rule, an, _SR(rep, "R11.B", "the decoder's table bookkeeping keeps a repeated entry at its position (shared with C09's R09.7): a hand-altered table with a repeated name "
                                                             "must not come back one entry short"))
    from . import c10, c13
    from .common import SharedRules as _SR
    rep.run(c10.r106_progress, an, rep, "R11.H")
    from . import c04 as _c04
    rep.run(_c04.r046_many_kinds, an, rep, "R11.K")
    rep.run(c13.r136, an, _SR(rep, "R11.J", "a jump into the middle of an instruction or past the code makes from_code raise (shared with C13's R13.6): otherwise the returned data names a block "
                                                    "that does not exist and to_code() fails or jumps elsewhere - silently wrong data for a hand-written code object"))
    from .common import SharedRules
    from . import c04
    rep.run(c04.r041, an, SharedRules(rep, "R11.8", "every argument count is stored in the data: the decoded Args determine co_argcount / co_posonlyargcount / co_kwonlyargcount "
                                                  "(shared with C04's R04.1) - otherwise to_code() writes different counts"))
    from . import c05 as _c05
    rep.run(_c05.r053, an, SharedRules(rep, "R11.D", "the encoder seeds the docstring slot exactly when the data has a docstring - also the empty one (shared with C05's R05.3): otherwise to_code() silently "
                                                    "writes other constants than the decoded ones ('never returns silently lossy data')"))
    rep.run(c04.r043, an, SharedRules(rep, "R11.C", "the counts and the VARARGS / VARKEYWORDS flags the encoder writes are those of the decoded parameters, also when a hand-altered code object repeats a "
                                                    "parameter name (shared with C04's R04.3): 'never returns silently lossy data'"), True)
    rep.stats.update(an.stats(interps))
    rep.assumptions += [
        "enum._decompose(flag, value) returns (members, not_covered) on 3.7-3.10 (parsed from each stdlib enum.py, see reference/)",
        "code() constructor signatures per version as frozen in reference/contracts.py (Objects/codeobject.c)",
    ]
