# Run with any of /root/.pyenv/versions/{3.7.16,3.8.18,3.9.18,3.10.13}/bin/python
#   PYTHONPATH=/tmp/shim:/tmp/hunt2_C16 <python> find4.py
# The file name in the printed CodeData is not the one the program was given with (and
# not the one CPython records): the command rewrites the path with pathlib.
import json, os, subprocess, sys, tempfile

CLI = "import sys; sys.argv[0]='python-code-data'; from code_data._cli import main; main()"
from code_data import CodeData

d = tempfile.mkdtemp()
os.mkdir(os.path.join(d, "pkg"))
src = b"import sys\ndef f(): pass\nprint(sys._getframe().f_code.co_filename)\n"
with open(os.path.join(d, "pkg", "prog.py"), "wb") as f:
    f.write(src)
env = dict(os.environ, PYTHONPATH=os.pathsep.join(sys.path))
bad = []
for path in ["pkg/prog.py", "./pkg/prog.py", "pkg//prog.py", "pkg/./prog.py"]:
    cpython = subprocess.run([sys.executable, path], cwd=d, capture_output=True, text=True).stdout.strip()
    # the API's result for this program
    expected = CodeData.from_code(compile(src, path, "exec")).normalize()
    p = subprocess.run([sys.executable, "-c", CLI, path, "--json"], cwd=d, env=env,
                       capture_output=True, text=True)
    assert p.returncode == 0, p.stderr
    first, _, rest = p.stdout.partition("\n")
    got = CodeData.from_json_data(json.loads(rest))
    names = sorted({c.filename for c in got.all_code_data()})
    print("%-15s CPython co_filename=%-40s command filename=%s" % (path, cpython, names))
    if got != expected or first != repr(expected):
        bad.append(path)
assert not bad, "printed CodeData is not the API's result for the program given as %s" % bad
