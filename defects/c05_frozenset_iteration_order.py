from code_data import CodeData
src = "out=[v for v in {7,15,23}]\nfor w in {31,15,7}: out.append(w)\n"
c = compile(src, "f", "exec")
def run(code):
    d = {}
    exec(code, d)
    return d["out"]
a = run(c)
b = run(CodeData.from_code(c).to_code())
n = run(CodeData.from_code(c).normalize().to_code())
print(a, b, n)
assert a == b == n, "iteration order of a frozenset constant changed"
print("OK")
