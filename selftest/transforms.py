#!/venv/bin/python
"""
Whole-tree behaviour-preserving transforms of the current /repo tree; every check must stay at exit 0 (known findings allowed).
  unparse   : every module re-emitted by ast.unparse (all formatting, comments and parenthesisation lost)
  black120  : black --line-length 120
  black60   : black --line-length 60
  rename    : every function-local variable and non-API parameter renamed (v_<n>)
"""
import ast
import os
import shutil
import subprocess
import sys
import tempfile

VERIF = os.path.dirname(os.path.dirname(os.path.abspath(__file__)))
ALL = [f"C{i:02d}" for i in range(1, 17)]


class Renamer(ast.NodeTransformer):
    """Rename locals (not parameters: keyword arguments at call sites refer to them) inside each function."""

    def visit_FunctionDef(self, node):
        params = {a.arg for a in node.args.posonlyargs + node.args.args + node.args.kwonlyargs}
        if node.args.vararg:
            params.add(node.args.vararg.arg)
        if node.args.kwarg:
            params.add(node.args.kwarg.arg)
        stores = set()
        nonlocal_names = set()
        nested_defs = set()
        for n in ast.walk(node):
            if isinstance(n, ast.Name) and isinstance(n.ctx, ast.Store):
                stores.add(n.id)
            if isinstance(n, (ast.Nonlocal, ast.Global)):
                nonlocal_names |= set(n.names)
            if isinstance(n, (ast.FunctionDef, ast.Lambda)) and n is not node:
                nested_defs.add(getattr(n, "name", ""))
                for m in ast.walk(n):
                    if isinstance(m, (ast.Nonlocal, ast.Global)):
                        nonlocal_names |= set(m.names)
        # skip functions with closures: renaming across scopes needs more care than this test wants
        has_nested = any(isinstance(n, (ast.FunctionDef, ast.Lambda, ast.GeneratorExp, ast.ListComp, ast.SetComp, ast.DictComp)) and n is not node for n in ast.walk(node))
        if has_nested:
            return node
        mapping = {s: f"{s}_rn" for s in stores if s not in params and s not in nonlocal_names and not s.startswith("__")}

        class R(ast.NodeTransformer):
            def visit_Name(self, n):
                if n.id in mapping:
                    return ast.copy_location(ast.Name(mapping[n.id], n.ctx), n)
                return n
        return R().visit(node)


def transform(name, repo_copy):
    pkg = os.path.join(repo_copy, "code_data")
    files = [os.path.join(pkg, f) for f in os.listdir(pkg) if f.endswith(".py") and not f.endswith("_test.py") and not f.startswith("_test")]
    if name in ("unparse", "rename"):
        for p in files:
            tree = ast.parse(open(p).read())
            if name == "rename":
                tree = ast.fix_missing_locations(Renamer().visit(tree))
            open(p, "w").write(ast.unparse(tree) + "\n")
    elif name.startswith("black"):
        subprocess.run(["/venv/bin/black", "-q", "-l", name[5:], *files], check=True)


def main():
    names = sys.argv[1:] or ["unparse", "black120", "black60", "rename"]
    bad = 0
    for name in names:
        d = tempfile.mkdtemp(prefix="verif_tr_")
        try:
            shutil.copytree("/repo/code_data", os.path.join(d, "repo", "code_data"), ignore=shutil.ignore_patterns("__pycache__", "_test_minimized"))
            transform(name, os.path.join(d, "repo"))
            for pid in ALL:
                env = dict(os.environ, VERIF_EVIDENCE_DIR=os.path.join(d, "ev"))
                r = subprocess.run([sys.executable, os.path.join(VERIF, "check"), pid, "--repo", os.path.join(d, "repo")], capture_output=True, text=True, env=env)
                if r.returncode != 0:
                    bad += 1
                    lines = [l for l in r.stdout.splitlines() if l.startswith(("FINDING", "ANALYSIS-ERROR"))]
                    print(f"[{name}] {pid} exit={r.returncode} {lines[:2]}")
            print(f"[{name}] done")
        finally:
            shutil.rmtree(d, ignore_errors=True)
    print("transforms:", "all silent" if not bad else f"{bad} check runs NOT silent")
    return 1 if bad else 0


if __name__ == "__main__":
    sys.exit(main())
