# Run with any of /root/.pyenv/versions/{3.7.16,3.8.18,3.9.18,3.10.13}/bin/python
#   PYTHONPATH=/tmp/shim:/tmp/hunt2_C16 <python> find3.py
# `-m MODULE`: a module which CPython imports and runs with `python -m` makes the command
# exit 1, because the command also asks the loader for the source text (get_source).
import importlib.util, os, subprocess, sys, tempfile

CLI = "import sys; sys.argv[0]='python-code-data'; from code_data._cli import main; main()"
from code_data import CodeData

d = tempfile.mkdtemp()
# no coding line; a latin-1 byte in a comment. The import system compiles the bytes of
# the file, and the compiler does not look into comments.
with open(os.path.join(d, "straymod.py"), "wb") as f:
    f.write(b"import sys\nx = 1  # caf\xe9\nprint('ran', x)\n")
env = dict(os.environ, PYTHONPATH=os.pathsep.join([d] + sys.path))

p = subprocess.run([sys.executable, "-m", "straymod"], env=env, capture_output=True, text=True)
print("python -m straymod: exit", p.returncode, p.stdout.strip())
assert p.returncode == 0  # a valid program for -m

# The API's result for the same program, from the same loader call the command uses
sys.path.insert(0, d)
spec = importlib.util.find_spec("straymod")
expected = CodeData.from_code(spec.loader.get_code("straymod")).normalize()

p = subprocess.run([sys.executable, "-c", CLI, "-m", "straymod"], env=env, capture_output=True, text=True)
last = (p.stderr.strip().splitlines() or [""])[-1]
print("python-code-data -m straymod: exit", p.returncode, last)
assert p.returncode == 0 and p.stdout.strip() == repr(expected), (
    "valid -m program, but exit %d: %s" % (p.returncode, last))
