#!/venv/bin/python
"""
Evaluate seeded changes: apply each /verif/seeded/<id>/patch.diff to a scratch copy of /repo (never to /repo itself),
run the quick check of the property it breaks (and optionally all checks), report which checks fire.
usage: seeded.py [--all-checks] [--record] [ids...]   (--record writes round and check_result_at_commit into each meta.json;
--transform=unparse|black60|black120|rename re-formats the changed tree before checking it: robustness of the recognisers)
"""
import json
import os
import shutil
import subprocess
import sys
import tempfile
import concurrent.futures as cf

VERIF = os.path.dirname(os.path.dirname(os.path.abspath(__file__)))
ALL = [f"C{i:02d}" for i in range(1, 17)]


def _findings(out: str):
    """{(key, explanation)} of the FINDING blocks of a check's output."""
    lines = out.splitlines()
    res = set()
    for i, l in enumerate(lines):
        if l.startswith("FINDING") and "key=" in l:
            detail = lines[i + 2].strip() if i + 2 < len(lines) and lines[i + 2].startswith("    ") else ""
            res.add((l.split("key=")[1], detail))
    return res


def run_one(args):
    sid, all_checks, repo = args[:3]
    tr_arg = args[3] if len(args) > 3 else None
    d = os.path.join(VERIF, "seeded", sid)
    meta = json.load(open(os.path.join(d, "meta.json")))
    tmp = tempfile.mkdtemp(prefix="verif_seed_")
    try:
        shutil.copytree(repo, os.path.join(tmp, "repo"), ignore=shutil.ignore_patterns(".git", "__pycache__", "_test_minimized", "docs", "binder", "benchmarks"))
        r = subprocess.run(["patch", "-p1", "-s", "-i", os.path.join(d, "patch.diff")], cwd=os.path.join(tmp, "repo"), capture_output=True, text=True)
        baseline_keys = None
        if r.returncode != 0 or meta.get("needs_tree_of_commit"):
            # (needs_tree_of_commit: the patch still applies, but a later `fix:` removed the code path through which the change broke the property -
            # the change is a violation only on the tree it was written against)
            # a later `fix:` commit touched the same lines: evaluate the change on the tree it was written against (git history of /repo) and count only the
            # findings the change ADDS to what the checks report on that tree without it
            shutil.rmtree(os.path.join(tmp, "repo"))
            os.makedirs(os.path.join(tmp, "repo"))
            commit = meta.get("applies_to_repo_commit", "")
            ar = subprocess.run(f"git -C {repo} archive {commit} code_data | tar -x -C {os.path.join(tmp, 'repo')}", shell=True, capture_output=True, text=True)
            if ar.returncode != 0:
                return sid, meta, None, "patch does not apply to the current tree and the commit it was written against is not available: " + ar.stderr[:120]
            baseline_keys = {}
            for pid in (ALL if all_checks else [meta["property"]]):
                env = dict(os.environ, VERIF_EVIDENCE_DIR=os.path.join(tmp, "ev0"))
                c0 = subprocess.run([sys.executable, os.path.join(VERIF, "check"), pid, "--repo", os.path.join(tmp, "repo")], capture_output=True, text=True, env=env, timeout=900)
                baseline_keys[pid] = (_findings(c0.stdout), c0.returncode)
            r = subprocess.run(["patch", "-p1", "-s", "-i", os.path.join(d, "patch.diff")], cwd=os.path.join(tmp, "repo"), capture_output=True, text=True)
            if r.returncode != 0:
                return sid, meta, None, f"patch does not apply, neither to the current tree nor to {commit}: " + (r.stdout + r.stderr)[:200]
        tr = tr_arg if tr_arg is not None else [a.split("=", 1)[1] for a in sys.argv if a.startswith("--transform=")]
        if tr:
            sys.path.insert(0, os.path.join(VERIF, "selftest"))
            import transforms as T
            for name in tr:
                T.transform(name, os.path.join(tmp, "repo"))
        res = {}
        for pid in (ALL if all_checks else [meta["property"]]):
            env = dict(os.environ, VERIF_EVIDENCE_DIR=os.path.join(tmp, "ev"))
            c = subprocess.run([sys.executable, os.path.join(VERIF, "check"), pid, "--repo", os.path.join(tmp, "repo")], capture_output=True, text=True, env=env, timeout=900)
            keys = [l.split("key=")[1] for l in c.stdout.splitlines() if l.startswith("FINDING")]
            err = [l for l in c.stdout.splitlines() if l.startswith("ANALYSIS-ERROR")]
            rc = c.returncode
            if baseline_keys is not None:
                base, rc0 = baseline_keys[pid]
                # a finding is "added" when its key is new or the same obligation now fails with another explanation
                keys = [k for k, detail in _findings(c.stdout) if (k, detail) not in base]
                if rc == 1 and not keys:
                    rc = 2 if err else 0  # nothing beyond what the old tree's own (since fixed) defects produce
                keys = keys and (keys + [f"(evaluated on /repo {meta.get('applies_to_repo_commit')}: findings added by the change)"])
            res[pid] = (rc, keys, err)
        return sid, meta, res, ""
    finally:
        shutil.rmtree(tmp, ignore_errors=True)


def main():
    args = [a for a in sys.argv[1:] if not a.startswith("--")]
    all_checks = "--all-checks" in sys.argv
    ids = args or sorted(x for x in os.listdir(os.path.join(VERIF, "seeded")) if os.path.exists(os.path.join(VERIF, "seeded", x, "meta.json")))
    caught = 0
    rows = []
    with cf.ThreadPoolExecutor(max_workers=16 if not all_checks else 4) as ex:
        for sid, meta, res, err in ex.map(run_one, [(i, all_checks, "/repo") for i in ids]):
            if res is None:
                print(f"{sid}: {err}")
                continue
            own = res[meta["property"]]
            others = sorted(p for p, (rc, k, e) in res.items() if rc == 1 and p != meta["property"])
            status = "CAUGHT" if own[0] == 1 else ("caught-by-other:" + ",".join(others) if others else ("ANALYSIS-ERROR" if own[0] == 2 else "missed"))
            if own[0] == 1 or others:
                caught += 1
            rows.append((sid, meta["property"], status, own[1][:2], own[2][:1]))
            if "--record" in sys.argv:
                mp = os.path.join(VERIF, "seeded", sid, "meta.json")
                m = json.load(open(mp))
                m["round"] = (int(sid.split("-")[1]) - 1) // 3 + 1
                m["check_result_at_commit"] = {"status": status if status in ("CAUGHT", "ANALYSIS-ERROR", "missed") else status, "findings": str(own[1][:4] or own[2][:1])}
                json.dump(m, open(mp, "w"), indent=1)
            print(f"{sid} [{meta['property']}] {status} {own[1][:2] or own[2][:1]}")
    print(f"seeded: {caught}/{len(rows)} caught")


if __name__ == "__main__":
    main()
