"""Helpers shared by rule modules."""
from __future__ import annotations

import ast
from typing import Dict, List, Optional, Set, Tuple

from sa.analysis import Analysis
from sa.analysis import VERSIONS as VERSIONS_ALL
from sa.model import AnalysisError, ClassInfo, FunctionInfo, loc, norm_src

ROOT_CLASS = "code_data::CodeData"


def data_classes(an: Analysis) -> List[ClassInfo]:
    return [an.prog.cls(q) for q in an.tg.reachable_classes(ROOT_CLASS)]


def isinstance_arms(fn: FunctionInfo, param: str):
    """
    Decompose a type-dispatch function into arms: [(type names, body stmts, If node)], plus the
    trailing statements after the chain.  Recognised spellings: a sequence of `if isinstance(p, T): ...`
    (with or without elif), each arm ending in return/raise.
    """
    arms = []
    rest: List[ast.stmt] = []
    tpvars = set()  # locals bound to type(param): `tp = type(value)` followed by `tp in (A, B)` / `tp is A`

    def is_type_of_param(e):
        return (isinstance(e, ast.Name) and e.id in tpvars) or (
            isinstance(e, ast.Call) and isinstance(e.func, ast.Name) and e.func.id == "type" and len(e.args) == 1
            and isinstance(e.args[0], ast.Name) and e.args[0].id == param)

    def exact_type_names(test):
        from sa.absint import _class_names
        if isinstance(test, ast.Compare) and len(test.ops) == 1 and is_type_of_param(test.left):
            c = test.comparators[0]
            if isinstance(test.ops[0], (ast.Is, ast.Eq)):
                return _class_names(c)
            if isinstance(test.ops[0], ast.In):
                if isinstance(c, ast.Name):
                    vals = getattr(fn.module, "assigns", {}).get(c.id, [])
                    if len(vals) != 1:
                        return None
                    c = vals[0]
                if isinstance(c, (ast.Tuple, ast.List, ast.Set)):
                    return _class_names(ast.Tuple(elts=list(c.elts), ctx=ast.Load()))
        return None

    def rec(stmts):
        for i, st in enumerate(stmts):
            if isinstance(st, ast.Expr) and isinstance(st.value, ast.Constant):
                continue
            if isinstance(st, ast.Assign) and len(st.targets) == 1 and isinstance(st.targets[0], ast.Name) and is_type_of_param(st.value):
                tpvars.add(st.targets[0].id)
                continue
            if isinstance(st, ast.If):
                names = _isinstance_names(st.test, param)
                if names is None:
                    names = exact_type_names(st.test)
                if names is not None:
                    arms.append((names, st.body, st))
                    if st.orelse:
                        rec(st.orelse)
                        return
                    continue
            rest.extend(stmts[i:])
            return

    rec(fn.node.body)
    return arms, rest


def _isinstance_names(test, param) -> Optional[List[str]]:
    from sa.absint import _class_names
    if isinstance(test, ast.Call) and isinstance(test.func, ast.Name) and test.func.id == "isinstance" and len(test.args) == 2:
        a0 = test.args[0]
        if isinstance(a0, ast.Name) and a0.id == param:
            return _class_names(test.args[1])
    # `value == ...` / `value is ...` spelling for Ellipsis
    if isinstance(test, ast.Compare) and isinstance(test.left, ast.Name) and test.left.id == param and len(test.ops) == 1:
        c = test.comparators[0]
        if isinstance(c, ast.Constant) and c.value is Ellipsis and isinstance(test.ops[0], (ast.Eq, ast.Is)):
            return ["ellipsis"]
    return None


def returns_of(stmts) -> List[ast.Return]:
    out = []
    for st in stmts:
        for n in ast.walk(st):
            if isinstance(n, ast.Return):
                out.append(n)
    return out


def mentions(node: ast.AST, name: str) -> bool:
    return any(isinstance(n, ast.Name) and n.id == name for n in ast.walk(node))


def attr_chain(node) -> Optional[str]:
    if isinstance(node, ast.Name):
        return node.id
    if isinstance(node, ast.Attribute):
        b = attr_chain(node.value)
        return f"{b}.{node.attr}" if b else None
    return None


def called_names(node: ast.AST) -> Set[str]:
    out = set()
    for n in ast.walk(node):
        if isinstance(n, ast.Call):
            c = attr_chain(n.func)
            if c:
                out.add(c.split(".")[-1])
        if isinstance(n, ast.Name):
            out.add(n.id)
    return out


MEMO_DECORATORS = {"lru_cache", "cache", "cached_property", "memoize", "memoized"}


API_ENTRIES = ("from_code", "to_code", "normalize", "to_json", "from_json")


def purity(an: Analysis, rep, rule: str, entries, versions=((3, 10),), foreign=API_ENTRIES):
    """
    Shared obligation (same facts as C12's R12.3): the closure of the given API entries keeps no state between calls -
    no memoising decorator, no write to a module-level / class-level object.  A result that depends on earlier calls breaks
    every property stated per input (decoded view, signature, equality, iteration ...).
    """
    from sa.absint import MODULE_CTX
    rep.rule(rule, "the closure is a function of its argument: no memoisation, no module-level state (shared with R12.3)", 1)
    n_fn = 0
    for entry in entries:
        for V in versions:
            it, _ = an.interp(entry, V)
            for f in an.closure(entry, V):
                n_fn += 1
                for sub in ast.walk(f.node):
                    if isinstance(sub, ast.Global):
                        rep.add(rule, f"{f.qual}::global {','.join(sub.names)}", False, loc(f.module, sub),
                                f"`global {', '.join(sub.names)}` in a function the API reaches: module state is written, so what a call does depends on the calls before it "
                                f"(a counter that is not reset when a call raises refuses every later input)", config=entry)
                memo = [d for d in f.decorators if d in MEMO_DECORATORS]
                if memo:
                    rep.add(rule, f"{f.qual}::decorators", False, loc(f.module, f.node),
                            f"{f.name} is memoised ({memo[0]}): results are shared between calls through a cache keyed by ==/hash, which is coarser than the "
                            f"identity the library must preserve (1 / 1.0 / True, 0.0 / -0.0; code objects compare equal regardless of file name and line table) and "
                            f"hands out one object to unrelated callers", config=entry)
            for m in it.mutations:
                bad = [a for a in m["targets"] if (a[0] == "obj" and a[2] == MODULE_CTX) or a[0] in ("class", "module", "ext")]
                if bad:
                    node = it.node_index[m["node"]]
                    mod = an.prog.module(m["module"])
                    rep.add(rule, f"{m['fn']}::{norm_src(node)}", False, loc(mod, node),
                            f"{m['kind']} on a module-level object (created at {bad[0][1][0]}:{bad[0][1][1]}" + ") that survives the call: later calls see state left by earlier ones"
                            if bad[0][0] == "obj" else f"{m['kind']} on {bad[0][0]} {bad[0][1]}", config=entry)
    # state these closures READ that another API call changes (a library table extended in place by the encoder and consulted by the decoder): the
    # property is stated for every history of calls, not for a fresh process
    own_read = set()
    for entry in entries:
        for V in versions:
            it, _ = an.interp(entry, V)
            for (_c, _i), vs in it.node_values.items():
                own_read.update(a for a in vs if a[0] in ("ext", "class", "module") or (a[0] == "obj" and a[2] == MODULE_CTX))
    for entry in foreign:
        if entry in entries:
            continue
        for V in versions:
            it, _ = an.interp(entry, V)
            for m in it.mutations:
                bad = [a for a in m["targets"] if ((a[0] == "obj" and a[2] == MODULE_CTX) or a[0] in ("class", "module", "ext")) and a in own_read]
                if bad:
                    node = it.node_index[m["node"]]
                    mod = an.prog.module(m["module"])
                    rep.add(rule, f"{m['fn']}::{norm_src(node)}", False, loc(mod, node),
                            f"{m['kind']} on {bad[0][0]} {bad[0][1]} in a function `{entry}` reaches: the closure of {list(entries)} reads that object, so what it returns depends on "
                            f"which other API calls were made before", config=entry)
    # a module-level iterator (zip / map / filter / iter / enumerate / reversed / generator expression) is state: the first call that walks it uses it up
    seen_fn = set()
    for entry in entries:
        for V in versions:
            for f in an.closure(entry, V):
                if f.qual in seen_fn or not isinstance(f.node, (ast.FunctionDef, ast.AsyncFunctionDef, ast.Lambda)):
                    continue
                seen_fn.add(f.qual)
                a = f.node.args
                local = {x.arg for x in a.posonlyargs + a.args + a.kwonlyargs} | {n.id for n in ast.walk(f.node) if isinstance(n, ast.Name) and isinstance(n.ctx, ast.Store)}
                for n in ast.walk(f.node):
                    if isinstance(n, ast.Name) and isinstance(n.ctx, ast.Load) and n.id not in local:
                        vals = getattr(f.module, "assigns", {}).get(n.id, [])
                        for v in vals:
                            one_shot = isinstance(v, ast.GeneratorExp) or (isinstance(v, ast.Call) and isinstance(v.func, ast.Name)
                                                                           and v.func.id in ("zip", "map", "filter", "iter", "enumerate", "reversed"))
                            if one_shot:
                                rep.add(rule, f"{f.qual}::module-level iterator {n.id}", False, loc(f.module, n),
                                        f"`{n.id} = {norm_src(v)[:70]}` at module level is an iterator, not a table: whatever walks it first consumes it, so the same call gives a "
                                        f"different result (or raises) the second time", config=entry)
    rep.add(rule, "closure keeps no state between calls", True, "code_data/", f"{n_fn} function activations in the closures of {list(entries)} examined", nontrivial=False)


class SharedRules:
    """Proxy that files the obligations of another property's rule functions under one alias rule of this property."""

    def __init__(self, rep, alias: str, doc: str):
        self._rep, self._alias = rep, alias
        rep.rule(alias, doc, 1)

    def rule(self, rid, doc, min_instances=1):
        pass

    def add(self, rule, construct, ok, where, detail, **kw):
        return self._rep.add(self._alias, f"[{rule}] {construct}", ok, where, detail, **kw)

    def run(self, fn, *args, **kw):
        return self._rep.run(fn, *args, **kw)

    def __getattr__(self, name):
        return getattr(self._rep, name)


def rebuild_rule(an: Analysis, rep, rule: str, entries, doc=None):
    """A data-class value rebuilt field by field from another value of the same class passes every field on.

    `D(a=x.a, b=x.b, c=<new>)` where D is a data class and x supplies two or more of D's fields under their own names is a copy with
    changes; a field of D that the call omits is silently reset to its default in the copy.  (dataclasses.replace cannot omit.)"""
    rep.rule(rule, doc or "a value rebuilt field by field from another value of the same class keeps every field", 0)
    n = 0
    seen = set()
    for entry in entries:
        for f in an.closure_all(entry):
            if f.qual in seen:
                continue
            seen.add(f.qual)
            for c in ast.walk(f.node):
                if not (isinstance(c, ast.Call) and isinstance(c.func, ast.Name)):
                    continue
                r = an.prog.resolve_global(f.module, c.func.id, f)
                if not r or r[0] != "class":
                    continue
                ci = r[1]
                if not ci.is_dataclass or any(isinstance(a, ast.Starred) for a in c.args) or any(k.arg is None for k in c.keywords):
                    continue
                init_fields = [fl for fl in ci.fields if fl.flags.get("init", True) is not False]
                given = {}
                for fl, a in zip(init_fields, c.args):
                    given[fl.name] = a
                for k in c.keywords:
                    given[k.arg] = k.value
                bases: Dict[str, List[str]] = {}
                for name, v in given.items():
                    if isinstance(v, ast.Attribute) and v.attr == name:
                        b = attr_chain(v.value)
                        if b:
                            bases.setdefault(b, []).append(name)
                    # the same for a JSON object: D(a=doc["a"], b=tuple(doc.get("b", ())), ...)
                    for x in ast.walk(v):
                        key = None
                        if isinstance(x, ast.Subscript) and isinstance(x.slice, ast.Constant) and x.slice.value == name:
                            key = attr_chain(x.value)
                        elif isinstance(x, ast.Call) and isinstance(x.func, ast.Attribute) and x.func.attr in ("get", "pop") and x.args and isinstance(x.args[0], ast.Constant) \
                                and x.args[0].value == name:
                            key = attr_chain(x.func.value)
                        if key:
                            bases.setdefault(key + "[...]", []).append(name)
                            break
                src = [(b, fs) for b, fs in bases.items() if len(fs) >= 2]
                if not src:
                    continue
                n += 1
                b, fs = max(src, key=lambda x: len(x[1]))
                omitted = [fl.name for fl in init_fields if fl.name not in given]
                rep.add(rule, f"{f.qual}::{ci.name}(...) rebuilt from {b}", not omitted, loc(f.module, c),
                        f"every field of {ci.name} is passed on" if not omitted else
                        f"`{norm_src(c)[:90]}` copies {sorted(fs)} from `{b}` but omits {omitted}: the rebuilt {ci.name} has the default there, whatever `{b}` carried")
    rep.add(rule, "field-by-field rebuilds examined", True, "code_data/", f"{n} rebuild call(s) in the closures of {list(entries)}", nontrivial=False)


_VALUE_LEAVES = {"int", "str", "float", "bytes", "complex", "bool"}


def identity_rule(an: Analysis, rep, rule: str, entries):
    """`is` / `is not` compares with a singleton, or compares objects - never numbers or strings.

    Identity of ints / strs coincides with equality only for the values the interpreter happens to cache (small ints, interned
    strings); a test that means equality but is spelled `is` works on small programs and fails beyond line 256 / for long names."""
    rep.rule(rule, "identity tests (`is`, `is not`) have a singleton operand or compare objects, never numbers / strings", 1)
    n = n_single = 0
    seen = set()
    from sa.analysis import VERSIONS as _VS
    for entry, _V in [(e_, v_) for e_ in entries for v_ in _VS]:
        it, _ = an.interp(entry, _V)
        for f in an.closure(entry, _V):
            if (entry, f.qual, _V) in seen:
                continue
            seen.add((entry, f.qual, _V))
            for c in ast.walk(f.node):
                if not isinstance(c, ast.Compare):
                    continue
                operands = [c.left] + list(c.comparators)
                for i, op in enumerate(c.ops):
                    if not isinstance(op, (ast.Is, ast.IsNot)):
                        continue
                    n += 1
                    l, r = operands[i], operands[i + 1]
                    if any(isinstance(x, ast.Constant) and (x.value is None or x.value is True or x.value is False or x.value is Ellipsis) for x in (l, r)):
                        n_single += 1
                        continue
                    ev = []
                    for x in (l, r):
                        if isinstance(x, ast.Constant):
                            ev.append(f"`{norm_src(x)}` is a literal {type(x.value).__name__}")
                            continue
                        try:
                            v = it.value_at(x)
                        except Exception:
                            v = frozenset()
                        for a in v:
                            if a[0] == "const" and type(a[1]).__name__ in _VALUE_LEAVES and not isinstance(a[1], bool):
                                ev.append(f"`{norm_src(x)}` may be the {type(a[1]).__name__} {a[1]!r}")
                            elif a[0] == "src":
                                t = it.src_type(a)
                                leaves = {y[1] for y in an.tg.leaves_in(an.tg.unfold_rec(t)) if y[0] == "leaf"} & (_VALUE_LEAVES - {"bool"})
                                if leaves:
                                    ev.append(f"`{norm_src(x)}` holds a value declared {an.tg.show(t)}")
                            elif a[0] == "der":
                                ev.append(f"`{norm_src(x)}` is a computed value")
                    if ev:
                        rep.add(rule, f"{f.qual}::{norm_src(c)}", False, loc(f.module, c),
                                f"identity test between values: {ev[0]}; `is` agrees with `==` only for objects the interpreter caches (ints in -5..256, interned "
                                f"strings), so the test is wrong for e.g. a line number above 256")
    rep.add(rule, "identity tests examined", True, "code_data/", f"{n} identity test(s) in the closures of {list(entries)}, {n_single} against None / True / False / Ellipsis", nontrivial=False)


def _unorderable(an, it, a, depth=0) -> Optional[str]:
    """Why values denoted by atom `a` cannot be compared with `<` (None when they can, as far as known)."""
    if depth > 3:
        return None
    if a[0] == "const":
        return "None" if a[1] is None else None
    if a[0] == "obj":
        k = it.obj_kind(a)
        if k in ("dict", "set", "frozenset", "defaultdict"):
            return k
        if k.startswith("inst:"):
            ci = an.prog.cls(k[5:])
            if "__lt__" not in ci.methods and not ci.dc_args.get("order", False):
                return ci.name
        if k in ("tuple", "list"):
            # a tie on the earlier components falls through to the later ones
            for (o, f), vals in it.heap.items():
                if o == a and (f[0] == "k" or f == ("e",)):
                    for v in vals:
                        r = _unorderable(an, it, v, depth + 1)
                        if r:
                            return f"a tuple holding {r}" if f[0] == "k" and f[1] != 0 else r
        return None
    if a[0] == "src":
        t = an.tg.unfold_rec(it.src_type(a))
        for x in an.tg.leaves_in(t):
            if x[0] == "class":
                ci = an.prog.cls(x[1])
                if "__lt__" not in ci.methods and not ci.dc_args.get("order", False):
                    return ci.name
        # an Optional[...] declaration alone is no evidence: the None case is usually narrowed away before the value gets here
    return None


def ordering_rule(an: Analysis, rep, rule: str, entries):
    """Key-less ordering (sorted / min / max / .sort() / heapq.merge) is applied to orderable values only: a tuple is compared
    component by component, so on a tie of the leading components an unorderable later component (a data-class instance, a dict,
    None) raises TypeError."""
    rep.rule(rule, "key-less sorted / min / max / .sort() / heapq.merge only over orderable values", 0)
    n = 0
    from sa.analysis import VERSIONS as _VS
    for entry, _V in [(e_, v_) for e_ in entries for v_ in _VS]:
        it, _ = an.interp(entry, _V)
        for f in an.closure(entry, _V):
            for c in ast.walk(f.node):
                if not isinstance(c, ast.Call) or any(k.arg == "key" for k in c.keywords):
                    continue
                args = None
                if isinstance(c.func, ast.Name):
                    r = an.prog.resolve_global(f.module, c.func.id, f)
                    ext = r[1] if r and r[0] == "ext" else ("builtins." + c.func.id if r is None else None)
                    if ext in ("builtins.sorted", "builtins.min", "builtins.max") and len(c.args) == 1:
                        args = [c.args[0]]
                    elif ext in ("heapq.merge",):
                        args = list(c.args)
                elif isinstance(c.func, ast.Attribute) and c.func.attr == "sort" and not c.args:
                    args = [c.func.value]
                if not args:
                    continue
                n += 1
                why = None
                for a_ in args:
                    for el in it.elements(it.value_at(a_)):
                        why = why or _unorderable(an, it, el)
                rep.add(rule, f"{f.qual}::{norm_src(c)[:50]}", why is None, loc(f.module, c),
                        "elements are orderable as far as their abstract values show" if why is None else
                        f"`{norm_src(c)[:70]}` compares its elements with `<` and they can be {why}: when the leading components tie (e.g. two nested code objects on one line) "
                        f"the comparison reaches a value that does not support ordering and raises TypeError", config=entry)
    rep.add(rule, "key-less orderings examined", True, "code_data/", f"{n} call(s) in the closures of {list(entries)}", nontrivial=False)


def truthiness_rule(an: Analysis, rep, rule: str, entries, fields, what=None):
    """A value where 0 is meaningful and None means 'absent' is tested for absence with `is None`, never by truthiness.

    `fields` lists (class, field) pairs declared Optional[int] whose 0 is a real value (a line number relative to the first line).
    `x or y`, `if x`, `not x` on such a value treat line 0 like 'no line'."""
    rep.rule(rule, "Optional values whose falsy member is a real value are tested with `is None`, not by truthiness" if what else
             "Optional line numbers are tested with `is None`, not by truthiness (0 is a line)", 1)
    names = {f for _, f in fields}
    n = 0

    def from_field(it, e):
        for a in it.value_at(e):
            if a[0] == "src" and a[2]:
                attrs = [st[1] for st in a[2] if st[0] == "a"]
                if attrs and attrs[-1] in names and a[2][-1][0] in ("a", "nt", "t"):
                    return attrs[-1]
        return None
    from sa.analysis import VERSIONS
    for entry, V in [(e, v) for e in entries for v in VERSIONS]:
        it, _ = an.interp(entry, V)
        # the same lines while they sit in the line mapping (values of the dict held in LineMapping.offset_to_line, shifted copies included)
        held = set()
        if not what:
            for (o, fld), vals in list(it.heap.items()):
                if fld == ("a", "offset_to_line") and o[0] == "obj" and (it.obj_class(o) or "").endswith("::LineMapping"):
                    held |= {a for a in it.dict_values(vals) if a[0] in ("der", "src")}
        for f in an.closure(entry, V):
            for node in ast.walk(f.node):
                operands = []
                if isinstance(node, ast.BoolOp):
                    operands = node.values[:-1]
                elif isinstance(node, (ast.If, ast.While, ast.IfExp)):
                    t = node.test
                    operands = t.values if isinstance(t, ast.BoolOp) else [t]
                elif isinstance(node, ast.UnaryOp) and isinstance(node.op, ast.Not):
                    operands = [node.operand]
                elif isinstance(node, ast.Call) and isinstance(node.func, ast.Name) and node.func.id == "filter" and len(node.args) == 2 \
                        and isinstance(node.args[0], ast.Constant) and node.args[0].value is None:
                    # filter(None, xs) keeps the truthy members of xs
                    xs = node.args[1]
                    operands = [e for e in xs.elts if not isinstance(e, ast.Starred)] if isinstance(xs, (ast.Tuple, ast.List)) else []
                    if not operands:
                        n += 1
                        hit = None
                        for a in it.elements(it.value_at(xs), None) if hasattr(it, "elements") else ():
                            if a[0] == "src" and a[2]:
                                attrs = [st[1] for st in a[2] if st[0] == "a"]
                                if attrs and attrs[-1] in names and a[2][-1][0] in ("a", "nt", "t"):
                                    hit = attrs[-1]
                        if hit:
                            rep.add(rule, f"{f.qual}::truthiness of the members of `{norm_src(xs)}`", False, loc(f.module, node),
                                    f"`{norm_src(node)}` keeps the truthy members of `{norm_src(xs)}`, which can hold {what or 'a value of `' + hit + '`'}: the falsy value is dropped like an absent one", config=entry)
                elif isinstance(node, (ast.ListComp, ast.GeneratorExp, ast.SetComp, ast.DictComp)):
                    operands = [c for g in node.generators for c in g.ifs]
                for x in operands:
                    while isinstance(x, ast.Call) and isinstance(x.func, ast.Name) and x.func.id == "cast" and len(x.args) == 2:
                        x = x.args[1]  # typing.cast(T, v) is v
                    if isinstance(x, (ast.Name, ast.Attribute, ast.Subscript)):
                        n += 1
                        fld = from_field(it, x)
                        if not fld and held and (set(it.value_at(x)) & held):
                            fld = "line_number"
                        if fld:
                            rep.add(rule, f"{f.qual}::truthiness of `{norm_src(x)}`", False, loc(f.module, x),
                                    (f"`{norm_src(x)}` holds {what}: testing it by truthiness treats the falsy value like 'absent', so it is silently dropped" if what else
                                     f"`{norm_src(x)}` can hold a value of `{fld}` (Optional[int], where 0 is the code object's first line): testing it by truthiness treats line 0 like "
                                     f"'no line' - e.g. after a return to the first line the next line delta is computed from a stale line"), config=entry)
    rep.add(rule, "truthiness tests examined", True, "code_data/", f"{n} name / attribute operands of boolean contexts in the closures of {list(entries)}", nontrivial=False)


def field_rewrite_rule(an: Analysis, rep, rule: str):
    """A data class of the model stores what its constructor was given: no __post_init__ / __init__ / __new__ / __setattr__ that replaces a
    field by something else than an order- and value-preserving conversion of itself (`tuple(self.f)`)."""
    rep.rule(rule, "data classes keep the field values they are constructed with (no re-ordering / rewriting in __post_init__)", 1)
    n = 0
    for ci in data_classes(an):
        for mname in ("__post_init__", "__init__", "__new__", "__setattr__"):
            m = ci.methods.get(mname)
            if m is None:
                continue
            self_ = m.params[0] if m.params else None
            for c in ast.walk(m.node):
                fld = val = None
                if isinstance(c, ast.Call) and isinstance(c.func, ast.Attribute) and c.func.attr == "__setattr__" and len(c.args) == 3 and isinstance(c.args[1], ast.Constant):
                    fld, val = c.args[1].value, c.args[2]
                elif isinstance(c, ast.Call) and isinstance(c.func, ast.Name) and c.func.id == "setattr" and len(c.args) == 3 and isinstance(c.args[1], ast.Constant):
                    fld, val = c.args[1].value, c.args[2]
                elif isinstance(c, ast.Assign) and isinstance(c.targets[0], ast.Attribute) and isinstance(c.targets[0].value, ast.Name) and c.targets[0].value.id == self_:
                    fld, val = c.targets[0].attr, c.value
                if fld is None or ci.field(fld) is None:
                    continue
                n += 1
                same = isinstance(val, ast.Attribute) and val.attr == fld
                conv = isinstance(val, ast.Call) and isinstance(val.func, ast.Name) and val.func.id in ("tuple", "list") and len(val.args) == 1 \
                    and isinstance(val.args[0], ast.Attribute) and val.args[0].attr == fld
                rep.add(rule, f"{ci.qual}.{mname}::{fld}", same or conv, loc(ci.module, c),
                        f"{fld} is converted with {norm_src(val)}: same elements, same order" if (same or conv) else
                        f"`{norm_src(c)[:80]}` replaces the value given for `{fld}` by `{norm_src(val)[:50]}`: what the decoder found (e.g. the order in which the compiler listed the names) "
                        f"is not what the data holds, so the data no longer says what CPython says and the encoder writes a different table")
    rep.add(rule, "constructor hooks of the data classes examined", True, "code_data/__init__.py", f"{n} field store(s) in __post_init__ / __init__ / __new__ / __setattr__ of the data classes", nontrivial=False)


def substring_rule(an: Analysis, rep, rule: str, entries):
    """`x in y` where y is a single string (a field declared str / Optional[str]) is a substring test: 'a' in 'args' is true."""
    rep.rule(rule, "no membership test against a single string where a name is meant (substring semantics)", 0)
    n = 0
    from sa.analysis import VERSIONS as _VS
    for entry, _V in [(e_, v_) for e_ in entries for v_ in _VS]:
        it, _ = an.interp(entry, _V)
        for f in an.closure(entry, _V):
            for c in ast.walk(f.node):
                if not (isinstance(c, ast.Compare) and len(c.ops) == 1 and isinstance(c.ops[0], (ast.In, ast.NotIn))):
                    continue
                right = c.comparators[0]
                vals = it.value_at(right)
                srcs = [a for a in vals if a[0] == "src"]
                if not srcs or len(srcs) != len([a for a in vals if a[0] != "const" or a[1] is not None]):
                    continue
                n += 1
                leaves = set()
                for a in srcs:
                    t = an.tg.unfold_rec(it.src_type(a))
                    if t[0] not in ("leaf", "union"):
                        leaves.add(t[0])
                    for y in an.tg.leaves_in(t):
                        leaves.add(y[1] if y[0] == "leaf" else y[0])
                if leaves and leaves <= {"str", "None"} and "str" in leaves and not isinstance(c.left, ast.Constant):
                    rep.add(rule, f"{f.qual}::{norm_src(c)[:50]}", False, loc(f.module, c),
                            f"`{norm_src(right)}` is one string (declared {sorted(leaves)}), so `{norm_src(c)}` asks whether the left side is a *substring* of it: the name 'a' is "
                            f"'in' the name 'args', 'val' in 'values' - a parameter whose name is contained in another's is given the other's kind", config=entry)
    rep.add(rule, "membership tests examined", True, "code_data/", f"{n} `in` tests whose right operand is a part of the argument, in the closures of {list(entries)}", nontrivial=False)


def local_memo_rule(an: Analysis, rep, rule: str, entries):
    """A result remembered in a local dict (`if K in D: x = D[K]` / `else: x = D[K] = f(a, b, c)`) is keyed by everything the call is
    given that changes from one loop iteration to the next: an argument missing from the key makes a later, different call reuse the
    first answer."""
    rep.rule(rule, "a local memo of call results is keyed by every loop-varying argument of the call", 0)
    n = 0
    from .encode_model import parent_map
    for entry in entries:
        for f in an.closure_all(entry):
            pm = parent_map(f.module)
            for st in ast.walk(f.node):
                if not (isinstance(st, ast.Assign) and isinstance(st.value, ast.Call)):
                    continue
                subs = [t for t in st.targets if isinstance(t, ast.Subscript) and isinstance(t.value, ast.Name)]
                if not subs:
                    continue
                D, K = subs[0].value.id, subs[0].slice
                # is D tested with `K in D` / read with D[K] / D.get(K) elsewhere in the function?  (a memo, not just a result table)
                reads = [x for x in ast.walk(f.node) if (isinstance(x, ast.Compare) and isinstance(x.ops[0], ast.In) and isinstance(x.comparators[0], ast.Name) and x.comparators[0].id == D
                                                         and ast.dump(x.left) == ast.dump(K))]
                if not reads:
                    continue
                # loop-varying names: targets of the enclosing loops
                cur, varying, determined = st, set(), {}
                while id(cur) in pm and pm[id(cur)] is not f.node:
                    cur = pm[id(cur)]
                    if isinstance(cur, ast.For):
                        varying |= {x.id for x in ast.walk(cur.target) if isinstance(x, ast.Name)}
                        # `for i, v in enumerate(xs)`: v is a function of i (and of the outer indices)
                        if isinstance(cur.target, ast.Tuple) and len(cur.target.elts) == 2 and isinstance(cur.target.elts[0], ast.Name) and isinstance(cur.iter, ast.Call) \
                                and isinstance(cur.iter.func, ast.Name) and cur.iter.func.id == "enumerate":
                            for x in ast.walk(cur.target.elts[1]):
                                if isinstance(x, ast.Name):
                                    determined[x.id] = cur.target.elts[0].id
                if not varying:
                    continue
                n += 1
                keynames = {x.id for x in ast.walk(K) if isinstance(x, ast.Name)}
                call = st.value
                argnames = {x.id for a in list(call.args) + [k.value for k in call.keywords] for x in ast.walk(a) if isinstance(x, ast.Name)}
                missing = sorted(v for v in (argnames & varying) - keynames if determined.get(v) not in keynames)
                rep.add(rule, f"{f.qual}::memo {D}[{norm_src(K)}]", not missing, loc(f.module, st),
                        f"the key `{norm_src(K)}` names every loop-varying argument of `{norm_src(call.func)}`" if not missing else
                        f"`{norm_src(st)[:70]}` remembers the result under `{norm_src(K)}`, but the call is also given {missing}, which changes from one iteration to the next: a later "
                        f"call with the same key and a different {missing[0]} gets the first result (e.g. two relative jumps with the same operand at different offsets get one target)",
                        config=entry)
    rep.add(rule, "local memos examined", True, "code_data/", f"{n} dict-memoised call(s) in the closures of {list(entries)}", nontrivial=False)


def assert_guard_rule(an: Analysis, rep, rule: str, entries):
    """A check that keeps invalid input from being turned into something else must not be an `assert` statement: under `python -O`
    (PYTHONOPTIMIZE) assert statements are not compiled, the guard is gone and the call goes on silently."""
    rep.rule(rule, "no guard of the API closures is an assert statement (they vanish under python -O)", 0)
    n = 0
    seen = set()
    for entry in entries:
        for f in an.closure_all(entry):
            if f.qual in seen:
                continue
            seen.add(f.qual)
            for st in ast.walk(f.node):
                if isinstance(st, ast.Assert):
                    n += 1
                    rep.add(rule, f"{f.qual}::{norm_src(st.test)[:60]}", False, loc(f.module, st),
                            f"`{norm_src(st)[:80]}` is the only thing that rejects this input, and it is an assert statement: under `python -O` it is not executed, the call "
                            f"continues and returns data / a code object that silently differs from its input")
    rep.add(rule, "assert statements in the API closures", True, "code_data/", f"{n} assert statement(s) in the closures of {list(entries)}", nontrivial=False)


def loop_var_after_loop_rule(an: Analysis, rep, rule: str, entries):
    """A name that is only bound as the target of a `for` loop and is read after the loop is unbound when the loop does not run (an empty
    table, a CodeData without instructions): UnboundLocalError instead of a result."""
    rep.rule(rule, "no loop variable is read after its loop without a binding before it", 0)
    from .encode_model import parent_map
    n = 0
    seen = set()
    for entry in entries:
        for f in an.closure_all(entry):
            if f.qual in seen or not isinstance(f.node, ast.FunctionDef):
                continue
            seen.add(f.qual)
            pm = parent_map(f.module)
            params = set(f.params)
            for lp in ast.walk(f.node):
                if not isinstance(lp, ast.For):
                    continue
                targets = {x.id for x in ast.walk(lp.target) if isinstance(x, ast.Name)}
                par = pm.get(id(lp))
                for suite in ("body", "orelse", "finalbody"):
                    stmts = getattr(par, suite, None)
                    if not (isinstance(stmts, list) and any(s_ is lp for s_ in stmts)):
                        continue
                    idx = [i for i, s_ in enumerate(stmts) if s_ is lp][0]
                    after = stmts[idx + 1:]
                    for v in sorted(targets - params):
                        used = [x for s_ in after for x in ast.walk(s_) if isinstance(x, ast.Name) and x.id == v and isinstance(x.ctx, ast.Load)]
                        if not used:
                            continue
                        # re-bound after the loop before the use?  (another loop with the same target, an assignment)
                        first_use = min(used, key=lambda x: (x.lineno, x.col_offset))
                        rebound = any(isinstance(x, ast.Name) and x.id == v and isinstance(x.ctx, ast.Store) and (x.lineno, x.col_offset) < (first_use.lineno, first_use.col_offset)
                                      for s_ in after for x in ast.walk(s_))
                        if rebound:
                            continue
                        n += 1
                        bound_before = any(isinstance(x, ast.Name) and x.id == v and isinstance(x.ctx, ast.Store) and (x.lineno, x.col_offset) < (lp.lineno, lp.col_offset)
                                           for x in ast.walk(f.node))
                        rep.add(rule, f"{f.qual}::`{v}` read after `for {norm_src(lp.target)} in ...`", bound_before, loc(f.module, first_use),
                                f"`{v}` has a binding before the loop" if bound_before else
                                f"`{v}` is only bound by the loop over `{norm_src(lp.iter)[:50]}`; when that is empty (a CodeData without instructions - what from_code returns for an empty co_code) "
                                f"the read at line {first_use.lineno} raises UnboundLocalError instead of encoding an empty table", config=entry)
    rep.add(rule, "reads of loop variables after their loop examined", True, "code_data/", f"{n} in the closures of {list(entries)}", nontrivial=False)


def rejection_sites(an: Analysis, entries):
    """Every `raise` / `assert` in the closures of the entries, with the conditions of the enclosing `if`s (function-local names replaced by
    v0, v1, ... in order of appearance, so renaming a local does not change the key): [(function, stmt, exception name, conditions)]."""
    from .encode_model import parent_map
    out = []
    seen = set()
    for entry in entries:
        for f in an.closure_all(entry):
            if f.qual in seen or not isinstance(f.node, (ast.FunctionDef, ast.AsyncFunctionDef)):
                continue
            seen.add(f.qual)
            pm = parent_map(f.module)
            a = f.node.args
            local = {x.arg for x in a.posonlyargs + a.args + a.kwonlyargs} | {n.id for n in ast.walk(f.node) if isinstance(n, ast.Name) and isinstance(n.ctx, ast.Store)}
            if a.vararg:
                local.add(a.vararg.arg)
            if a.kwarg:
                local.add(a.kwarg.arg)
            for st in ast.walk(f.node):
                if not isinstance(st, (ast.Raise, ast.Assert)):
                    continue
                conds = []
                cur = st
                inner_fn = False
                while cur is not f.node:
                    par = pm[id(cur)]
                    if isinstance(par, (ast.FunctionDef, ast.AsyncFunctionDef, ast.Lambda)) and par is not f.node:
                        inner_fn = True
                        break
                    if isinstance(par, ast.If):
                        if any(cur is x for x in par.body):
                            conds.append((True, par.test))
                        elif any(cur is x for x in par.orelse):
                            conds.append((False, par.test))
                    cur = par
                if inner_fn:
                    continue  # belongs to a nested function, which is listed on its own when it is reached
                conds.reverse()
                if isinstance(st, ast.Assert):
                    conds.append((False, st.test))
                ren = {}

                class R(ast.NodeTransformer):
                    def visit_Name(self, n):
                        if n.id in local:
                            ren.setdefault(n.id, f"v{len(ren)}")
                            return ast.copy_location(ast.Name(id=ren[n.id], ctx=n.ctx), n)
                        return n
                import copy
                texts = []
                for pol, t in conds:
                    t2 = R().visit(copy.deepcopy(t))
                    texts.append(norm_src(t2) if pol else f"not ({norm_src(t2)})")
                if isinstance(st, ast.Assert):
                    exc = "assert"
                elif st.exc is None:
                    exc = "re-raise"
                else:
                    exc = norm_src(st.exc.func) if isinstance(st.exc, ast.Call) else norm_src(st.exc)
                out.append((f, st, exc, tuple(texts)))
    return out


def rejection_paths_rule(an: Analysis, rep, rule: str, entries, table, what: str):
    """A function that must succeed on every input of its domain can stop only at the places confirmed by reading: `table` maps
    (function, exception) -> (number of such places, why the domain cannot reach them / which rule decides that it can).  The conditions
    are not frozen (rewording a guard is no event here - the rules named in the table decide the guards); a `raise` / `assert` beyond the confirmed
    ones is a new rejection path: whether valid input reaches it is not decided here, and the analysis says so (exit 2) instead of passing."""
    rep.rule(rule, f"every place where {what} can stop with an exception is one confirmed by reading", max(1, len(table) - 2))
    groups = {}
    for f, st, exc, conds in rejection_sites(an, entries):
        groups.setdefault((f.qual, exc), []).append((f, st, conds))
    unknown = []
    for key, sites in sorted(groups.items()):
        n, why = table.get(key, (0, ""))
        f, st, conds = sites[0]
        if len(sites) <= n:
            rep.add(rule, f"{key[0]}::{key[1]}", True, loc(f.module, st), f"{len(sites)} place(s): {why}", nontrivial=False)
        else:
            unknown.append((key, sites, n))
    if unknown:
        key, sites, n = unknown[0]
        listing = " | ".join(f"line {st.lineno} under [{'; '.join(conds)[:110] or 'fall-through'}]" for f, st, conds in sites)
        raise AnalysisError(f"{key[0]}: {len(sites)} place(s) where {what} stops with {key[1]}, {n} confirmed by reading ({listing}): "
                            f"whether valid input can reach the new one is not decided" + (f" (+{len(unknown) - 1} more function(s))" if len(unknown) > 1 else ""))


def old_interpreter_rule(an: Analysis, rep, rule: str, entries):
    """The package supports 3.7 - 3.10, its tests run on the newest interpreter only: a construct that needs a newer Python than 3.7 in code the API
    reaches fails on the older hosts (at import when it is syntax, at run time when it is an operator or a method): walrus / positional-only
    markers (3.8), dict union `|` / `|=`, str.removeprefix / removesuffix (3.9), match statements, zip(strict=), int.bit_count (3.10)."""
    from sa.analysis import VERSIONS as _VS
    rep.rule(rule, "no construct in the API closures needs an interpreter newer than the oldest supported one (3.7)", 0)
    n = 0
    seen = set()
    for entry in entries:
        for V in _VS:
            it, _ = an.interp(entry, V)
            for f in an.closure(entry, V):
                for c in ast.walk(f.node):
                    why = None
                    if isinstance(c, ast.NamedExpr):
                        why = ("an assignment expression `:=`", "3.8", "the module does not even import on 3.7 (SyntaxError)")
                    elif isinstance(c, (ast.FunctionDef, ast.Lambda)) and c.args.posonlyargs:
                        why = ("a positional-only parameter marker `/`", "3.8", "the module does not even import on 3.7 (SyntaxError)")
                    elif hasattr(ast, "Match") and isinstance(c, ast.Match):
                        why = ("a match statement", "3.10", "the module does not import on 3.7 - 3.9 (SyntaxError)")
                    elif isinstance(c, (ast.AugAssign, ast.BinOp)) and isinstance(c.op, ast.BitOr):
                        ops = [c.target, c.value] if isinstance(c, ast.AugAssign) else [c.left, c.right]
                        n += 1

                        def is_dict(e):
                            if isinstance(e, (ast.Dict, ast.DictComp)):
                                return True
                            for a in it.value_at(e):
                                if a[0] == "obj" and it.obj_kind(a) in ("dict", "defaultdict"):
                                    return True
                                if a[0] == "src":
                                    try:
                                        if it.tg.unfold_rec(it.src_type(a))[0] == "dict":
                                            return True
                                    except Exception:
                                        pass
                            return False
                        if any(is_dict(e) for e in ops):
                            why = ("the dict union operator `|` / `|=`", "3.9", "`TypeError: unsupported operand type(s) for |=: 'dict' and 'dict'` on 3.7 and 3.8")
                    elif isinstance(c, ast.Call) and isinstance(c.func, ast.Attribute) and c.func.attr in ("removeprefix", "removesuffix"):
                        why = (f"str.{c.func.attr}", "3.9", "AttributeError on 3.7 and 3.8")
                    elif isinstance(c, ast.Call) and isinstance(c.func, ast.Attribute) and c.func.attr == "bit_count" and not c.args:
                        why = ("int.bit_count", "3.10", "AttributeError on 3.7 - 3.9")
                    elif isinstance(c, ast.Call) and isinstance(c.func, ast.Name) and c.func.id == "zip" and any(k.arg == "strict" for k in c.keywords):
                        why = ("zip(strict=...)", "3.10", "TypeError on 3.7 - 3.9")
                    if why and (f.qual, c.lineno, why[0]) not in seen:
                        seen.add((f.qual, c.lineno, why[0]))
                        rep.add(rule, f"{f.qual}::{norm_src(c)[:50]}", False, loc(f.module, c),
                                f"`{norm_src(c)[:70]}` uses {why[0]}, which exists from Python {why[1]}: {why[2]} - the tests only run on the newest interpreter, so they stay green", config=entry)
    rep.add(rule, "constructs newer than 3.7 in the API closures", True, "code_data/", f"closures of {list(entries)} examined ({n} `|` operators typed)", nontrivial=False)


def set_order_rule(an: Analysis, rep, rule: str, entries):
    """A sequence built from a set made during the call (`tuple(set(xs))`, `list({...})`, `[... for x in seen]`) has the set's iteration order, which for
    strings and for objects hashed through strings changes with PYTHONHASHSEED: the same input gives another result in another process / on another host.
    (A frozenset constant of the INPUT iterated into the JSON list is the listing order the property leaves open; loops that only fold a set into an
    order-independent value are not sequences.)"""
    rep.rule(rule, "no sequence is built from the iteration order of a set made during the call", 0)
    n = 0
    seen = set()
    for entry in entries:
        for V in VERSIONS_ALL:
            it, _ = an.interp(entry, V)
            for f in an.closure(entry, V):
                for node in ast.walk(f.node):
                    srcs = []
                    if isinstance(node, ast.Call) and isinstance(node.func, ast.Name) and node.func.id in ("tuple", "list") and len(node.args) == 1:
                        srcs = [node.args[0]]
                    elif isinstance(node, (ast.ListComp, ast.GeneratorExp)) :
                        srcs = [g.iter for g in node.generators]
                    elif isinstance(node, (ast.Tuple, ast.List)):
                        srcs = [e.value for e in node.elts if isinstance(e, ast.Starred)]
                    for s_ in srcs:
                        key = (f.qual, getattr(s_, "lineno", 0), getattr(s_, "col_offset", 0))
                        if key in seen:
                            continue
                        n += 1
                        made = [a for a in it.value_at(s_) if a[0] == "obj" and it.obj_kind(a) == "set"]
                        direct = isinstance(s_, (ast.Set, ast.SetComp)) or (isinstance(s_, ast.Call) and isinstance(s_.func, ast.Name) and s_.func.id == "set")
                        if made or direct:
                            seen.add(key)
                            rep.add(rule, f"{f.qual}::sequence from `{norm_src(s_)[:50]}`", False, loc(f.module, s_),
                                    f"`{norm_src(node)[:70]}` turns a set made during the call into a sequence: its order is the set's iteration order, which depends on the hash seed for "
                                    f"strings (and for every object hashed through one) - the same input gives another result in another process", config=entry)
    rep.add(rule, "set-to-sequence conversions examined", True, "code_data/", f"{n} conversions / comprehension sources in the closures of {list(entries)}", nontrivial=False)


PROCESS_STATE = {
    "sys": {"flags", "argv", "path", "modules", "stdin", "stdout", "stderr", "warnoptions", "_xoptions", "dont_write_bytecode",
            "getdefaultencoding", "getfilesystemencoding", "executable", "prefix"},  # (getrecursionlimit / gettrace are read to restore a setting afterwards: R12.7)
    "os": {"environ", "getenv", "getcwd", "getpid", "urandom", "times", "cpu_count"},
    "time": None, "random": None, "locale": None, "datetime": None, "getpass": None, "socket": None, "platform": None, "tempfile": None, "uuid": None, "secrets": None,
}


def process_state_rule(an: Analysis, rep, rule: str, entries):
    """The result of an API call is a function of its argument: nothing in the closure reads interpreter options (sys.flags: -O / -OO), the command line, the
    environment, the clock or a random source - a result that changes with `python -OO` or PYTHONHASHSEED is not the value the property describes."""
    rep.rule(rule, "the API closures read no interpreter option, environment variable, clock or random source", 0)
    n = 0
    seen = set()
    for entry in entries:
        for f in an.closure_all(entry):
            if f.qual in seen:
                continue
            seen.add(f.qual)
            shadow = set(f.params)
            for node in ast.walk(f.node):
                hit = None
                if isinstance(node, ast.Attribute) and isinstance(node.value, ast.Name) and node.value.id not in shadow:
                    r = an.prog.resolve_global(f.module, node.value.id, f)
                    if r and r[0] == "ext":
                        top = r[1].split(".")[0]
                        if top in PROCESS_STATE and (PROCESS_STATE[top] is None or node.attr in PROCESS_STATE[top]) and r[1] == top:
                            hit = f"{top}.{node.attr}"
                elif isinstance(node, ast.Name) and isinstance(node.ctx, ast.Load) and node.id not in shadow:
                    r = an.prog.resolve_global(f.module, node.id, f)
                    if r and r[0] == "ext" and "." in r[1]:
                        top, attr = r[1].split(".")[0], r[1].split(".")[1]
                        if top in PROCESS_STATE and (PROCESS_STATE[top] is None or attr in PROCESS_STATE[top]):
                            hit = r[1]
                if hit:
                    n += 1
                    rep.add(rule, f"{f.qual}::{hit}", False, loc(f.module, node),
                            f"`{norm_src(node)}` ({hit}) is read inside a function the API reaches: what the call returns depends on how the interpreter was started or on its "
                            f"surroundings (e.g. `python -OO`), not only on its argument", config=entry)
    rep.add(rule, "process state reads in the API closures", True, "code_data/", f"{len(seen)} functions of the closures of {list(entries)} examined, {n} read(s) found", nontrivial=False)
