# Run with 3.7.16, 3.8.18, 3.9.18 or 3.10.13.
# Three EXTENDED_ARG 0xff prefixes make the arg of LOAD_CONST the C int -1. from_code
# indexes co_consts with it the Python way (last entry) and returns data; to_code()
# of that data raises. from_code had to raise (CPython would read outside the tuple).
import dis
from code_data import CodeData

base = compile("x = 1\n", "f.py", "exec")
E = dis.EXTENDED_ARG
co_code = bytes([E, 255, E, 255, E, 255, dis.opmap["LOAD_CONST"], 255]) + base.co_code[2:]
kw = {"co_linetable": bytes([len(co_code), 1])} if hasattr(base, "co_linetable") else {}
if hasattr(base, "replace"):
    code = base.replace(co_code=co_code, **kw)
else:  # 3.7
    b = base
    code = type(b)(b.co_argcount, b.co_kwonlyargcount, b.co_nlocals, b.co_stacksize,
                   b.co_flags, co_code, b.co_consts, b.co_names, b.co_varnames,
                   b.co_filename, b.co_name, b.co_firstlineno, b.co_lnotab)
data = CodeData.from_code(code)  # does not raise
print(data.blocks[0][0])
try:
    back = data.to_code()
except Exception as e:
    raise AssertionError(f"from_code returned data whose to_code() raises: {e!r}")
assert back.co_code == code.co_code and back.co_consts == code.co_consts
