"""C09 - decoded data carries no redundant override information (DESIGN 5, R09.1-R09.4)."""
from __future__ import annotations

import ast
import copy

from sa.analysis import VERSIONS, Analysis, fmt_atom, vname
from sa.feval import FevalError, feval
from sa.model import AnalysisError, loc, norm_src

from .encode_model import conj, find_docstring_guards, guards_of, inline_locals
from .c05 import _O


MUTATORS = {"add", "update", "append", "extend", "setdefault", "pop", "discard", "remove", "clear", "__setitem__"}


def find_rank_site(an: Analysis):
    """The method of the decoder's table class that records the rank of a newly met index."""
    it, _ = an.interp("from_code")
    for f in an.closure("from_code"):
        if f.cls is None or (f.cls.is_dataclass and f.cls.dc_args.get("frozen")):
            continue
        self_ = f.params[0] if f.params else None
        for st in ast.walk(f.node):
            if not isinstance(st, ast.If):
                continue
            t = st.test
            # `x = self.MAP.get(index)` ... `if x is None: x = self.MAP[index] = RANK`
            if (isinstance(t, ast.Compare) and len(t.ops) == 1 and isinstance(t.ops[0], ast.Is) and isinstance(t.left, ast.Name)
                    and isinstance(t.comparators[0], ast.Constant) and t.comparators[0].value is None):
                gets = [a for a in ast.walk(f.node) if isinstance(a, ast.Assign) and len(a.targets) == 1 and isinstance(a.targets[0], ast.Name) and a.targets[0].id == t.left.id
                        and isinstance(a.value, ast.Call) and isinstance(a.value.func, ast.Attribute) and a.value.func.attr == "get" and len(a.value.args) == 1
                        and isinstance(a.value.func.value, ast.Attribute) and isinstance(a.value.func.value.value, ast.Name) and a.value.func.value.value.id == self_]
                if len(gets) == 1:
                    m = gets[0].value.func.value
                    key = gets[0].value.args[0]
                    for b in st.body:
                        if isinstance(b, ast.Assign) and any(isinstance(tg_, ast.Subscript) and ast.dump(tg_.value) == ast.dump(m) and ast.dump(tg_.slice) == ast.dump(key) for tg_ in b.targets):
                            return f, st, b, m.attr, key
            if not (isinstance(t, ast.Compare) and len(t.ops) == 1 and isinstance(t.ops[0], ast.NotIn)):
                continue
            m = t.comparators[0]
            if not (isinstance(m, ast.Attribute) and isinstance(m.value, ast.Name) and m.value.id == self_):
                continue
            for b in st.body:
                if (isinstance(b, ast.Assign) and len(b.targets) == 1 and isinstance(b.targets[0], ast.Subscript)
                        and ast.dump(b.targets[0].value) == ast.dump(m) and ast.dump(b.targets[0].slice) == ast.dump(t.left)):
                    return f, st, b, m.attr, t.left
    raise AnalysisError("decoder rank bookkeeping (`if index not in self.MAP: self.MAP[index] = RANK`) not found")


def duplicates_key_rule(an: Analysis, rep, f=None, mapattr=None, redundancy=False):
    """Entries that always keep their override (duplicates) are detected with the table's own key function."""
    if f is None:
        f, ifst, assign, mapattr, idx = find_rank_site(an)
    keyattr = next((fl.name for fl in f.cls.fields if "Callable" in ast.dump(fl.annotation)), None)
    dupsites = []
    for m in f.cls.methods.values():
        s_ = m.params[0] if m.params else None
        for n in ast.walk(m.node):
            if isinstance(n, (ast.ListComp, ast.GeneratorExp, ast.SetComp, ast.DictComp)) and len(n.generators) >= 1:
                g0 = n.generators[0]
                src_ok = isinstance(g0.iter, ast.Attribute) and isinstance(g0.iter.value, ast.Name) and g0.iter.value.id == s_ and g0.iter.attr not in (mapattr,)
                if not src_ok or not isinstance(g0.target, ast.Name):
                    continue
                elt = n.elt if not isinstance(n, ast.DictComp) else n.value
                for c in ast.walk(elt):
                    if isinstance(c, ast.Call) and len(c.args) == 1 and isinstance(c.args[0], ast.Name) and c.args[0].id == g0.target.id:
                        dupsites.append((m, c))
            if isinstance(n, ast.Call) and isinstance(n.func, ast.Name) and n.func.id == "map" and len(n.args) == 2 \
                    and isinstance(n.args[1], ast.Attribute) and isinstance(n.args[1].value, ast.Name) and n.args[1].value.id == s_:
                dupsites.append((m, ast.Call(func=n.args[0], args=[ast.Name("x", ast.Load())], keywords=[])))
    # attributes the rank function consults besides the rank map and the table itself (e.g. the set of duplicated indices)
    self_r = f.params[0]
    consulted = {n.attr for n in ast.walk(f.node) if isinstance(n, ast.Attribute) and isinstance(n.value, ast.Name) and n.value.id == self_r} - {mapattr}
    consulted -= {fl.name for fl in f.cls.fields if "Callable" in ast.dump(fl.annotation) or fl.name == (f.cls.fields[0].name if f.cls.fields else "")}
    for attr in sorted(consulted):
        for m in f.cls.methods.values():
            s_ = m.params[0] if m.params else None
            for n in ast.walk(m.node):
                if isinstance(n, ast.Assign) and any(isinstance(t, ast.Attribute) and t.attr == attr and isinstance(t.value, ast.Name) and t.value.id == s_ for t in n.targets):
                    uses_key = keyattr is not None and any(isinstance(c, ast.Attribute) and c.attr == keyattr for c in ast.walk(m.node))
                    rep.add("R09.2", f"{m.qual}::self.{attr} is computed through the table's key function", uses_key, loc(m.module, n),
                            f"self.{attr} (consulted by the rank function) is computed from the entries via self.{keyattr}" if uses_key else
                            f"self.{attr}, which the rank function consults to decide an override, is computed from the raw entries (==/hash) and not through self.{keyattr}, the key the "
                            f"encoder looks values up by: entries that are == but have different keys (1 / True) get needless overrides, entries that are not == but share a key "
                            f"(two NaN constants) get none and are merged on re-encoding")
    # the consulted set is only written where it is computed: an entry added to it from anywhere else is pinned without being a duplicate
    for attr in sorted(consulted):
        computed_in = {m.qual for m in f.cls.methods.values()
                       if any(isinstance(n, ast.Assign) and any(isinstance(t, ast.Attribute) and t.attr == attr for t in n.targets) for n in ast.walk(m.node))}
        for m in f.cls.methods.values():
            s_ = m.params[0] if m.params else None
            for n in ast.walk(m.node):
                if isinstance(n, ast.Call) and isinstance(n.func, ast.Attribute) and n.func.attr in ("add", "update", "append", "extend", "__setitem__", "setdefault") \
                        and isinstance(n.func.value, ast.Attribute) and n.func.value.attr == attr and isinstance(n.func.value.value, ast.Name) and n.func.value.value.id == s_ \
                        and m.qual not in computed_in:
                    rep.add("R09.2", f"{m.qual}::self.{attr} only holds computed duplicates", False, loc(m.module, n),
                            f"`{norm_src(n)}` puts an index into self.{attr} that was not found to be duplicated: the rank function then reports an override for an entry that sits "
                            f"exactly at its first-use rank (e.g. a docstring an instruction also loads) - a redundant override")
    # a pin is only justified at a use where the encoder's look-up by key would resolve to ANOTHER entry, i.e. after a different entry with the same key
    # has been met: a set computed once, before any instruction is looked at, pins the first-met of the duplicates too
    for attr in (sorted(consulted) if redundancy else []):  # a matter of redundant overrides (C09) only: losslessness does not depend on it
        updated_on_discovery = any(
            (isinstance(n, (ast.Assign, ast.AugAssign)) and any(isinstance(t_, (ast.Attribute, ast.Subscript)) and attr in norm_src(t_) for t_ in (n.targets if isinstance(n, ast.Assign) else [n.target])))
            or (isinstance(n, ast.Call) and isinstance(n.func, ast.Attribute) and n.func.attr in MUTATORS and isinstance(n.func.value, ast.Attribute) and n.func.value.attr == attr)
            for n in ast.walk(f.node))
        other_state = [a for a in sorted(consulted) if a != attr]
        rep.add("R09.2", f"{f.qual}::pinning by self.{attr} depends on what has been met", updated_on_discovery or bool(other_state and False), loc(f.module, f.node),
                f"self.{attr} is updated as entries are met" if updated_on_discovery else
                f"self.{attr} is fixed before the first instruction is decoded, so every entry whose key occurs twice is pinned at every use - also the first one met, at its own "
                f"first-use rank, where the encoder's look-up by key still finds exactly that entry: `x = 1e999-1e999; y = 1e999-1e999` (co_consts (nan, nan', None), in first-use "
                f"order) decodes with Constant(nan, _index_override=0), an override that can be removed without changing the re-encoding")
    if keyattr and dupsites:
        for m, c in dupsites:
            fnode = c.func
            ok = isinstance(fnode, ast.Attribute) and isinstance(fnode.value, ast.Name) and fnode.value.id == m.params[0] and fnode.attr == keyattr
            rep.add("R09.2", f"{m.qual}::duplicates keyed by the table's key function", ok, loc(m.module, m.node),
                    f"entries are compared through self.{keyattr}, the key the encoder looks values up by" if ok else
                    f"table entries are keyed with `{norm_src(fnode)}` here, not with self.{keyattr} (the key the encoder looks values up by): entries the encoder keeps apart are "
                    f"treated as duplicates and keep a redundant position override - or real duplicates are missed and the re-encoding merges them")



def _is_rank_call(node, rank_name: str) -> bool:
    return isinstance(node, ast.Call) and isinstance(node.func, ast.Attribute) and node.func.attr == rank_name


def self_attrs(node, self_):
    return {n.attr for n in ast.walk(node) if isinstance(n, ast.Attribute) and isinstance(n.value, ast.Name) and n.value.id == self_}


def _enumerated_sequence(an, g, gen):
    """For `for name, rank in <X>`: the expression whose enumeration yields the ranks - directly `enumerate(E)`, or `.items()` of a dict a
    package function builds as `{name: i for i, name in enumerate(E)}`.  Returns (function, E, name of the Args parameter in that function)."""
    itx = gen.iter
    if isinstance(itx, ast.Call) and isinstance(itx.func, ast.Name) and itx.func.id == "enumerate" and itx.args:
        base = next((x.id for x in ast.walk(itx.args[0]) if isinstance(x, ast.Name) and x.id in g.params), None)
        return (g, itx.args[0], base) if base else None
    if isinstance(itx, ast.Call) and isinstance(itx.func, ast.Attribute) and itx.func.attr == "items" and isinstance(itx.func.value, ast.Call) \
            and isinstance(itx.func.value.func, ast.Name):
        r = an.prog.resolve_global(g.module, itx.func.value.func.id, g)
        if r and r[0] == "func" and len(r[1].params) == 1:
            h = r[1]
            rets = [x for x in ast.walk(h.node) if isinstance(x, ast.Return) and x.value is not None]
            if len(rets) == 1 and isinstance(rets[0].value, ast.DictComp):
                inner = rets[0].value.generators[0].iter
                if isinstance(inner, ast.Call) and isinstance(inner.func, ast.Name) and inner.func.id == "enumerate" and inner.args:
                    return (h, inner.args[0], h.params[0])
    return None


def seed_rules(an: Analysis, rep):
    """What both directions put into a table before the first instruction is looked at (docstring slot, parameter slots) agrees."""
    f, ifst, assign, mapattr, idx = find_rank_site(an)
    # seeds: docstring guard equal on both sides
    it_dec, ret_dec = an.interp("from_code")
    enc_seeds = [g for g in find_docstring_guards(an) if g["kind"] == "seed"]
    dec_seed = None
    for g in an.closure("from_code"):
        for st in ast.walk(g.node):
            if (isinstance(st, ast.Expr) and isinstance(st.value, ast.Call) and isinstance(st.value.func, ast.Attribute)
                    and st.value.func.attr == f.name and len(st.value.args) == 1 and isinstance(st.value.args[0], ast.Constant)
                    and st.value.args[0].value == 0):
                dec_seed = (g, st)
    if dec_seed is None or not enc_seeds:
        raise AnalysisError("docstring seeding sites not found on both sides")
    g, st = dec_seed
    dtest = inline_locals(g.node, conj(guards_of(g.module, g, st)))
    names = {n.id for n in ast.walk(dtest) if isinstance(n, ast.Name)} & set(g.params)
    blockp = [n for n in names]
    es = enc_seeds[0]

    def isinst(o, c):
        cs = c if isinstance(c, tuple) else (c,)
        return any(isinstance(o, _O) and o.cls == x for x in cs)

    diffs = []
    for bt in [None, _O("Function", docstring=None), _O("Function", docstring=""), _O("Function", docstring="doc")]:
        envd = {c.name: c.name for c in an.prog.all_classes()}
        envd.update({"isinstance": isinst})
        enve = dict(envd)
        for p in blockp:
            envd[p] = bt
        enve[es["block"]] = bt
        enve[es["table"]] = ()
        try:
            d = bool(feval(dtest, envd))
            e = bool(feval(es["test"], enve))
        except (FevalError, KeyError, TypeError, AttributeError) as ex:
            if bt is None:
                continue
            raise AnalysisError(f"seed guards not evaluable: {ex}")
        if d != e:
            diffs.append(f"block={bt and dict(bt)}: decoder seeds={d}, encoder seeds={e}")
    rep.add("R09.2", "docstring seed guards agree", not diffs, loc(g.module, st),
            "; ".join(diffs) if diffs else f"decoder guard {norm_src(dtest)} == encoder guard {norm_src(es['test'])} on every block type")
    from . import c04
    # the same two counts folded over Args models: how many leading slots the decoder pre-marks == how many the encoder pre-assigns
    try:
        from sa.feval import FevalError as _FE, Obj as _Obj
        dec_cnt = enc_seq = None
        dfn = efn = None
        for g2 in an.closure("from_code"):
            for n in ast.walk(g2.node):
                if isinstance(n, ast.DictComp) and isinstance(n.key, ast.Name) and isinstance(n.value, ast.Name) and n.key.id == n.value.id \
                        and isinstance(n.generators[0].iter, ast.Call) and getattr(n.generators[0].iter.func, "id", "") == "range" and len(n.generators[0].iter.args) == 1:
                    dec_cnt, dfn = n.generators[0].iter.args[0], g2
        for g2 in an.closure("to_code"):
            for n in ast.walk(g2.node):
                if isinstance(n, ast.For) and isinstance(n.iter, ast.Call) and getattr(n.iter.func, "id", "") == "enumerate" and len(n.body) == 1 \
                        and isinstance(n.body[0], ast.Assign) and isinstance(n.body[0].targets[0], ast.Subscript) and any(isinstance(a, ast.Attribute) and a.attr == "args" for a in ast.walk(n.iter.args[0])):
                    enc_seq, efn = n.iter.args[0], g2
        if dec_cnt is not None and enc_seq is not None:
            dparam = next((x.id for x in ast.walk(dec_cnt) if isinstance(x, ast.Name) and x.id in dfn.params), None)
            ebase = next((a.value.id for a in ast.walk(enc_seq) if isinstance(a, ast.Attribute) and a.attr == "args" and isinstance(a.value, ast.Name)), None)
            models = [{"positional_only": (), "positional_or_keyword": ("a",), "var_positional": None, "keyword_only": ("k",), "var_keyword": None},
                      {"positional_only": ("p",), "positional_or_keyword": ("a", "b"), "var_positional": "va", "keyword_only": ("k",), "var_keyword": "kw"},
                      {"positional_only": (), "positional_or_keyword": (), "var_positional": None, "keyword_only": (), "var_keyword": None},
                      {"positional_only": (), "positional_or_keyword": (), "var_positional": None, "keyword_only": ("k", "l"), "var_keyword": "kw"},
                      # hand-altered co_varnames: two parameters with one name, an empty name - CPython binds every slot
                      {"positional_only": (), "positional_or_keyword": ("a", "a"), "var_positional": None, "keyword_only": (), "var_keyword": None},
                      {"positional_only": (), "positional_or_keyword": ("a", "b"), "var_positional": "b", "keyword_only": ("d",), "var_keyword": "a"},
                      {"positional_only": (), "positional_or_keyword": ("a",), "var_positional": None, "keyword_only": (), "var_keyword": ""}]
            if dparam and ebase:
                dev = c04._args_evaluator(an, dfn)
                eev = c04._args_evaluator(an, efn)
                diffs2 = []
                from sa.analysis import VERSIONS as _VS9, vname as _vn9
                for _V9 in _VS9:
                    for mdl in models:
                        if mdl["positional_only"] and _V9 < (3, 8):
                            continue
                        nd = dev(dec_cnt, dparam, mdl, version=_V9)
                        ne = len(tuple(eev(enc_seq, ebase, {"args": _Obj(mdl)}, version=_V9)))
                        if nd != ne:
                            shown = ", ".join(f"{k}={v!r}" for k, v in mdl.items() if v)
                            diffs2.append(f"[{_vn9(_V9)}] Args({shown}): the decoder pre-marks {nd} slot(s), the encoder pre-assigns {ne}")
                rep.add("R09.2", "parameter seeds have the same length on both sides (folded over Args models)", not diffs2, loc(dfn.module, dec_cnt),
                        f"`{norm_src(dec_cnt)}` == len(`{norm_src(enc_seq)[:40]}`) on {len(models)} models" if not diffs2 else
                        f"{len(diffs2)} of the (version, model) pairs differ, e.g. {diffs2[0]}: the first local after the parameters counts as already met - when no instruction uses it (`return n; a = 1`) it is not listed as unreferenced and vanishes "
                        f"from co_varnames, otherwise every later local gets a position override")
    except (_FE, KeyError, TypeError, AttributeError) as ex:
        raise AnalysisError(f"parameter seed counts not evaluable: {ex}")
    # varnames seeds: the decoder pre-marks as many leading slots as the encoder pre-assigns (same multiset of Args fields)
    dec_fields = enc_fields = None
    dec_order = enc_order = None
    dec_where = loc(f.module, f.node)
    for g2 in an.closure("from_code"):
        for n in ast.walk(g2.node):
            # second form: {<table>.index(name): rank for name, rank in <enumeration of the parameters>}: the rank ORDER matters
            if isinstance(n, ast.DictComp) and isinstance(n.key, ast.Call) and isinstance(n.key.func, ast.Attribute) and n.key.func.attr == "index" and isinstance(n.value, ast.Name):
                seq = _enumerated_sequence(an, g2, n.generators[0])
                if seq is not None:
                    sf, sexpr, sparam = seq
                    dec_order = [fl for fl, k, o in c04.segments(an, sf, sexpr, sparam)]
                    dec_fields = sorted(dec_order)
                    dec_where = loc(g2.module, n)
                continue
            if isinstance(n, ast.DictComp) and isinstance(n.key, ast.Name) and isinstance(n.value, ast.Name) and n.key.id == n.value.id:
                itx = n.generators[0].iter
                if isinstance(itx, ast.Call) and isinstance(itx.func, ast.Name) and itx.func.id == "range" and len(itx.args) == 1:
                    from .encode_model import inline_reaching
                    cnt = inline_reaching(g2.node, n, inline_locals(g2.node, itx.args[0]))
                    # a sum of len(<expression over the Args value>) terms
                    terms, todo, okshape = [], [cnt], True
                    while todo:
                        x = todo.pop()
                        if isinstance(x, ast.BinOp) and isinstance(x.op, ast.Add):
                            todo += [x.right, x.left]
                        elif isinstance(x, ast.Call) and isinstance(x.func, ast.Name) and x.func.id == "len" and len(x.args) == 1:
                            terms.append(x.args[0])
                        elif isinstance(x, ast.IfExp) and isinstance(x.body, ast.Constant) and x.body.value == 1 and isinstance(x.orelse, ast.Constant) and x.orelse.value == 0:
                            # `1 if args.var_positional else 0`: one slot for an optional single name
                            tst = x.test
                            if isinstance(tst, ast.Compare) and len(tst.ops) == 1 and isinstance(tst.ops[0], ast.IsNot) and isinstance(tst.comparators[0], ast.Constant) \
                                    and tst.comparators[0].value is None:
                                tst = tst.left
                            if isinstance(tst, ast.Attribute):
                                terms.append(tst)
                            else:
                                okshape = False
                        elif isinstance(x, ast.Call) and isinstance(x.func, ast.Name) and x.func.id in ("bool", "int") and len(x.args) == 1 and isinstance(x.args[0], ast.Attribute):
                            terms.append(x.args[0])
                        else:
                            okshape = False
                    if not okshape or not terms:
                        continue
                    fl_all = []
                    for src in terms:
                        base = None
                        for a in ast.walk(src):
                            if isinstance(a, ast.Name) and a.id in g2.params:
                                base = a
                        if base is None:
                            fl_all = None
                            break
                        fl_all += [fl for fl, k, o in c04.segments(an, g2, src, base.id)]
                    if fl_all is not None:
                        dec_fields = sorted(fl_all)
                        dec_where = loc(g2.module, n)
    for g2 in an.closure("to_code"):
        for n in ast.walk(g2.node):
            if isinstance(n, ast.For) and isinstance(n.iter, ast.Call) and isinstance(n.iter.func, ast.Name) and n.iter.func.id == "enumerate" \
                    and len(n.body) == 1 and isinstance(n.body[0], ast.Assign) and isinstance(n.body[0].targets[0], ast.Subscript):
                src = n.iter.args[0]
                base = None
                for a in ast.walk(src):
                    if isinstance(a, ast.Attribute) and a.attr == "args":
                        base = a
                if base is not None:
                    enc_order = list(c04._order_from_args_expr(an, g2, src, base))
                    enc_fields = sorted(enc_order)
    if dec_fields is None or enc_fields is None:
        raise AnalysisError("parameter seeding sites not recognised on both sides")
    if dec_order is not None and enc_order is not None and dec_fields == enc_fields and dec_order != enc_order:
        rep.add("R09.2", "parameter seeds rank the parameters in the order the encoder lays them out", False, dec_where,
                f"the decoder ranks the parameters in the order {dec_order} (signature order), the encoder pre-assigns the local slots in the order {enc_order} (co_varnames layout: "
                f"keyword-only names come before *args): for a function with *args and a keyword-only parameter the ranks differ from the slots, so those parameters decode with a "
                f"redundant position override")
    # only the table of locals is pre-filled by the encoder (the parameters) - and slot 0 of the constants through the docstring rule above: a decoder table
    # constructed with pre-marked entries for any other code attribute ranks its entries differently from the encoder
    ci_t, _rank_m, _unref_m = find_decoder_table(an)
    for g3 in an.closure("from_code"):
        for c in ast.walk(g3.node):
            if not (isinstance(c, ast.Call) and isinstance(c.func, ast.Name) and c.func.id == ci_t.name and c.args):
                continue
            seeded = len(c.args) > 1 or any(k.arg == mapattr for k in c.keywords)
            if not seeded:
                continue
            attrs = set()
            for a in it_dec.value_at(c.args[0]):
                for o in it_dec.origins(frozenset([a])):
                    if o[0] == "src" and o[2]:
                        attrs |= {stp[1] for stp in o[2] if stp[0] == "a" and str(stp[1]).startswith("co_")}
            if not attrs:
                raise AnalysisError(f"{g3.qual}: which code attribute the pre-marked table `{norm_src(c.args[0])}` holds is not recognised")
            okattr = attrs <= {"co_varnames"}
            rep.add("R09.2", f"{g3.qual}::only the table of locals is constructed with pre-marked entries ({sorted(attrs)[0]})", okattr, loc(g3.module, c),
                    "the pre-marked table is co_varnames, which the encoder pre-fills with the parameters" if okattr else
                    f"`{norm_src(c)[:80]}` pre-marks entries of {sorted(attrs)} as already met; the encoder pre-assigns nothing in that table, it numbers the entries in order of first use: "
                    f"an entry used before a pre-marked one gets a rank that differs from its position - a position override although the table is in first-use order "
                    f"(`def f(p): a = 1; return lambda: (a, p)`)")
    rep.add("R09.2", "parameter seeds cover the same slots on both sides", dec_fields == enc_fields, dec_where,
            f"decoder pre-marks len({dec_fields}) leading local slots, the encoder pre-assigns exactly those" if dec_fields == enc_fields
            else f"decoder pre-marks the slots of {dec_fields}, encoder pre-assigns {enc_fields}")



def r096(an: Analysis, rep):
    """The decoder pins every entry whose key occurs twice in a table BECAUSE the encoder finds entries by key and would merge them. That
    justification holds only if the encoder registers every entry it stores - pinned ones included - in its key -> index map."""
    from . import c03
    rep.rule("R09.6", "the encoder registers every stored entry for look-up by key (what justifies pinning duplicates)", 1)
    ci = c03.table_class(an)
    imap = c03._index_map_attr(ci)
    # the key -> index map: the other dict attribute stored in __setitem__
    sm = ci.methods["__setitem__"]
    self0 = sm.params[0]
    kmaps = {t.value.attr for n in ast.walk(sm.node) if isinstance(n, ast.Assign) for t in n.targets
             if isinstance(t, ast.Subscript) and isinstance(t.value, ast.Attribute) and isinstance(t.value.value, ast.Name) and t.value.value.id == self0 and t.value.attr != imap}
    if len(kmaps) != 1:
        raise AnalysisError(f"{sm.qual}: key -> index map not recognised ({sorted(kmaps)})")
    kmap = kmaps.pop()
    n = 0
    for m in ci.methods.values():
        s0 = m.params[0] if m.params else None
        st_i = [x for x in ast.walk(m.node) if isinstance(x, ast.Assign) and any(isinstance(t, ast.Subscript) and isinstance(t.value, ast.Attribute) and t.value.attr == imap
                                                                                  and isinstance(t.value.value, ast.Name) and t.value.value.id == s0 for t in x.targets)]
        if not st_i:
            continue
        n += 1
        st_k = [x for x in ast.walk(m.node) if isinstance(x, ast.Assign) and any(isinstance(t, ast.Subscript) and isinstance(t.value, ast.Attribute) and t.value.attr == kmap
                                                                                  and isinstance(t.value.value, ast.Name) and t.value.value.id == s0 for t in x.targets)]
        rep.add("R09.6", f"{m.qual}::stores into {imap} are registered in {kmap}", bool(st_k), loc(m.module, st_i[0]),
                f"`{norm_src(st_k[0])[:60]}` next to it" if st_k else
                f"`{norm_src(st_i[0])[:60]}` stores an entry without registering it in {kmap}: a later use of an equal-key value is no longer merged with it, so the overrides the "
                f"decoder puts on duplicated entries (because the encoder 'would merge them') can be removed without changing the re-encoding - they are redundant")
    if n == 0:
        raise AnalysisError(f"{ci.qual}: no store into {imap} found")


def unreferenced_rules(an: Analysis, rep):
    """Entries no instruction references: listed for exactly the never-met indices, each ranked by the rank function (so that it gets an
    override exactly when its position is not its rank - otherwise the encoder puts it somewhere else)."""
    f, ifst, assign, mapattr, idx = find_rank_site(an)
    # the never-met generator yields the rank function's result and nothing else
    for m in f.cls.methods.values():
        if m is f:
            continue
        for n in ast.walk(m.node):
            if isinstance(n, ast.Yield) and n.value is not None:
                ok6 = _is_rank_call(n.value, f.name)
                rep.add("R09.5", f"{m.qual}::yields the rank function's result", ok6, loc(m.module, n),
                        "unreferenced entries are ranked like referenced ones" if ok6 else
                        f"`yield {norm_src(n.value)}`: unreferenced entries get an override by another rule than the rank function's: an unreferenced entry at its rank is listed with a removable override")

    # R09.3 additional args
    gen = None
    for m in f.cls.methods.values():
        if m is f:
            continue
        if any(isinstance(n, (ast.Yield, ast.YieldFrom)) for n in ast.walk(m.node)):
            gen = m
    if gen is None:
        raise AnalysisError(f"{f.cls.qual}: generator of never-met indices not found")
    s2 = gen.params[0]
    loops = [n for n in ast.walk(gen.node) if isinstance(n, ast.For)]
    ok_range = False
    ok_guard = False
    for lp in loops:
        itx = lp.iter
        if (isinstance(itx, ast.Call) and isinstance(itx.func, ast.Name) and itx.func.id == "range" and len(itx.args) == 1
                and isinstance(itx.args[0], ast.Call) and isinstance(itx.args[0].func, ast.Name) and itx.args[0].func.id == "len"):
            a0 = itx.args[0].args[0]
            if (isinstance(a0, ast.Attribute) and a0.attr != mapattr) or (isinstance(a0, ast.Name) and a0.id == s2):
                ok_range = True
        for n in ast.walk(lp):
            if isinstance(n, ast.If) and isinstance(n.test, ast.Compare) and isinstance(n.test.ops[0], ast.NotIn):
                c = n.test.comparators[0]
                if isinstance(c, ast.Attribute) and c.attr == mapattr and isinstance(lp.target, ast.Name) and isinstance(n.test.left, ast.Name) and n.test.left.id == lp.target.id:
                    if any(isinstance(y, (ast.Yield, ast.YieldFrom)) for b in n.body for y in ast.walk(b)) and not n.orelse:
                        ok_guard = True
    # ... and every entry it yields reaches the data: the consumers do not filter
    n_cons = 0
    for g2 in an.closure("from_code"):
        for c in ast.walk(g2.node):
            if isinstance(c, (ast.GeneratorExp, ast.ListComp, ast.SetComp)):
                for gi in c.generators:
                    if isinstance(gi.iter, ast.Call) and isinstance(gi.iter.func, ast.Attribute) and gi.iter.func.attr == gen.name:
                        n_cons += 1
                        rep.add("R09.3", f"{g2.qual}::every unreferenced entry of {norm_src(gi.iter.func.value)} is kept", not gi.ifs, loc(g2.module, c),
                                "no filter on the entries" if not gi.ifs else
                                f"`{norm_src(c)[:90]}` drops the unreferenced entries for which `{norm_src(gi.ifs[0])}` is false: they are in the code object's table but not in the "
                                f"data, so to_code() rebuilds a shorter table (e.g. an unused cell variable that is also a parameter: co_cellvars becomes (), CO_NOFREE appears)")
            if isinstance(c, ast.For) and isinstance(c.iter, ast.Call) and isinstance(c.iter.func, ast.Attribute) and c.iter.func.attr == gen.name:
                n_cons += 1
                skips = [x for x in ast.walk(c) if isinstance(x, ast.Continue)]
                rep.add("R09.3", f"{g2.qual}::every unreferenced entry of {norm_src(c.iter.func.value)} is kept", not skips, loc(g2.module, c),
                        "no entry is skipped" if not skips else "the loop over the unreferenced entries skips some of them (`continue`)")
    if n_cons == 0:
        raise AnalysisError(f"no consumer of {gen.qual} found in the decode closure")
    # the generator marks what it reports as met (it ranks each entry through the rank function): a table can be walked once
    for g2 in an.closure("from_code"):
        walks = {}
        for c in ast.walk(g2.node):
            if isinstance(c, ast.Call) and isinstance(c.func, ast.Attribute) and c.func.attr == gen.name and not c.args and g2.cls is not f.cls:
                walks.setdefault(norm_src(c.func.value), []).append(c)
        for recv, cs in sorted(walks.items()):
            rep.add("R09.3", f"{g2.qual}::the unreferenced entries of {recv} are walked once", len(cs) == 1, loc(g2.module, cs[-1] if len(cs) > 1 else cs[0]),
                    "one walk" if len(cs) == 1 else
                    f"`{recv}.{gen.name}()` is called {len(cs)} times (lines {[c.lineno for c in cs]}): the generator ranks every entry it reports through `{f.name}`, which marks it as met - "
                    f"the second walk reports nothing, so the unreferenced entries (an unused constant, a nested code object behind a `return`) are missing from the data")
    rep.add("R09.3", f"{gen.qual}::ranges over every index of the table", ok_range, loc(gen.module, gen.node),
            "for i in range(len(table))" if ok_range else "does not range over every index of the table")
    rep.add("R09.3", f"{gen.qual}::yields exactly the never-met indices", ok_guard, loc(gen.module, gen.node),
            f"yields i only under `i not in self.{mapattr}`, nothing otherwise" if ok_guard else "the yield is not guarded by 'index never met'")



def find_decoder_table(an: Analysis):
    """(class, rank method, unreferenced-entries method) of the decoder's table, by role: a non-frozen class used by from_code with a method
    `(self, index) -> (entry, override)` and a generator method without parameters."""
    seen = set()
    for f in an.closure("from_code"):
        ci = f.cls
        if ci is None or ci.qual in seen or (ci.is_dataclass and ci.dc_args.get("frozen")):
            continue
        seen.add(ci.qual)
        rank = unref = None
        for m in ci.methods.values():
            if m.name.startswith("__") or not isinstance(m.node, ast.FunctionDef):
                continue
            rets = [n for n in ast.walk(m.node) if isinstance(n, ast.Return) and n.value is not None]
            gen = any(isinstance(n, (ast.Yield, ast.YieldFrom)) for n in ast.walk(m.node))
            if len(m.params) == 2 and rets and all(isinstance(r.value, ast.Tuple) and len(r.value.elts) == 2 for r in rets) and not gen:
                rank = m
            elif len(m.params) == 1 and gen:
                unref = m
        if rank is not None and unref is not None:
            return ci, rank, unref
    raise AnalysisError("decoder table class (a rank method returning `(entry, override)` plus a generator of the unreferenced entries) not found")


def table_sequences_rule(an: Analysis, rep, rule="R09.7"):
    """The decoder's table evaluated on witness call sequences (finite domain: tables of four distinct entries, six orders of meeting them):
    every call of the rank method returns the entry at the index and an override exactly when the index differs from its first-use rank;
    the unreferenced-entries method lists exactly the indices never met, each with an override exactly when its index differs from its place
    in the listing (counted on from the entries met)."""
    from sa.feval import BlockOutcome, FevalError, Obj, ObjEval
    rep.rule(rule, "rank method and unreferenced-entries method of the decoder's table give first-use ranks on witness call sequences", 2)
    ci, rank, unref = find_decoder_table(an)
    prog = an.prog

    def resolve(name):
        r = prog.resolve_global(ci.module, name, rank)
        if r and r[0] == "func":
            return r[1].node
        return None
    methods = {m.name: m.node for m in ci.methods.values() if isinstance(m.node, ast.FunctionDef)}
    T0 = ("a", "b", "c", "d")
    # (-1, -2, 0, 1): hash(-1) == hash(-2) in CPython - distinct entries whose hashes collide are distinct entries
    RUNS = [(T0, q) for q in ([0, 1, 2, 3], [0, 0, 1, 1], [2, 0, 2, 1, 0], [1], [], [3, 3, 0], [0, 1])] + [((-1, -2, 0, 1), [0, 1, 2, 3])]
    SEQS = RUNS
    bad_rank, bad_unref = [], []
    n_calls = 0
    from .c03 import package_evaluator as _pe
    for T, seq in RUNS:
        ev, _r = _pe(an, ci.module, (3, 10))
        ev.methods = methods
        obj = Obj()
        try:
            first = True
            for fl in ci.fields:
                if fl.default_factory is not None:
                    obj[fl.name] = ev.ev(ast.Call(func=fl.default_factory, args=[], keywords=[]), {})
                elif fl.default is not None:
                    obj[fl.name] = ev.ev(fl.default, {})
                elif first:
                    obj[fl.name] = T
                    first = False
                else:
                    raise AnalysisError(f"{ci.qual}: second field without default ({fl.name}): how the table is constructed is not recognised")
            if "__post_init__" in methods:
                ev.call_method(methods["__post_init__"], obj)
            met = {}
            for k, i in enumerate(seq):
                got = ev.call_method(rank.node, obj, i)
                n_calls += 1
                met.setdefault(i, len(met))
                want = (T[i], i if met[i] != i else None)
                if got != want:
                    bad_rank.append(f"table {T}, indices met in the order {seq}: call #{k + 1} `{rank.name}({i})` gives {got!r}, expected {want!r} "
                                    f"(entry {i} was met {'first' if met[i] == 0 else 'as number ' + str(met[i] + 1)}, so its first-use rank is {met[i]})")
            listed = ev.call_method(unref.node, obj)
            n_calls += 1
            never = [i for i in range(len(T)) if i not in met]
            if not (isinstance(listed, tuple) and all(isinstance(x, tuple) and len(x) == 2 for x in listed)):
                raise AnalysisError(f"{unref.qual}: does not yield (entry, override) pairs on the witness table")
            vals = [x[0] for x in listed]
            if sorted(vals) != sorted(T[i] for i in never):
                bad_unref.append(f"table {T}, indices met {seq}: `{unref.name}()` lists {vals}, the entries never met are {[T[i] for i in never]}")
            else:
                for pos, (v, ov) in enumerate(listed):
                    i = T.index(v)
                    r = len(met) + pos
                    want = i if r != i else None
                    if ov != want:
                        bad_unref.append(f"table {T}, indices met {seq}: `{unref.name}()` gives entry {i} override {ov!r}, expected {want!r} (it is listed as number {r + 1} over all)")
        except BlockOutcome as o:
            bad_rank.append(f"table {T}, indices met {seq}: stops at `{norm_src(o.node)[:70]}`")
        except (FevalError, KeyError, IndexError, TypeError, AttributeError) as e:
            raise AnalysisError(f"{ci.qual}: table methods not evaluable on the witness sequences ({type(e).__name__}: {e})")
    # a value that occurs twice in the table cannot be found again by value: from its second occurrence on it has to keep its position
    # (two equal constants CPython kept apart - 0.0 / -0.0 are not equal, but nan objects are; a hand-altered co_names with a repeated name)
    bad_dup = []
    _ev0, _R0 = _pe(an, ci.module, (3, 10))

    def _cd():
        L = _ev0.lib
        return L["CodeData"](blocks=((L["Instruction"](name="RETURN_VALUE", arg=L["NoArg"](0), line_number=1),),), first_line_number=1, type=None, freevars=(), stacksize=1,
                             filename="f.py", name="<lambda>")
    CD1, CD2 = _cd(), _cd()  # two nested code objects that decode to equal data (CPython keeps equal code objects of different lines / hand-made tables apart)
    for TD, seq in (((CD1, "b", CD2), [0, 1, 2]), (("a", "b", "a"), [0, 1, 2]), (("a", "a"), [1, 0]), (("x", "y", "y", "x"), [0, 1, 2, 3]), (("a", "a", "u", "v"), [0, 1, 2, 3]), (("a", "u", "a", "v"), [0, 2, 1, 3])):
        ev, _r = _pe(an, ci.module, (3, 10))
        ev.methods = methods
        obj = Obj()
        try:
            first = True
            for fl in ci.fields:
                if fl.default_factory is not None:
                    obj[fl.name] = ev.ev(ast.Call(func=fl.default_factory, args=[], keywords=[]), {})
                elif fl.default is not None:
                    obj[fl.name] = ev.ev(fl.default, {})
                elif first:
                    obj[fl.name] = TD
                    first = False
            if "__post_init__" in methods:
                ev.call_method(methods["__post_init__"], obj)
            seen_vals = set()
            met_d = {}
            for i in seq:
                got = ev.call_method(rank.node, obj, i)
                KT = ["<code>" if isinstance(v, Obj) else v for v in TD]
                later = KT[i] in seen_vals
                seen_vals.add(KT[i])
                met_d.setdefault(i, len(met_d))
                if later and (not isinstance(got, tuple) or got[1] != i):
                    bad_dup.append(f"table {tuple(KT)}, indices met in the order {seq}: `{rank.name}({i})` gives {(('<code>' if isinstance(got[0], Obj) else got[0]), got[1]) if isinstance(got, tuple) and len(got) == 2 else got!r} - entry {i} repeats the value of an entry met before and carries no position")
                elif KT.count(KT[i]) == 1 and isinstance(got, tuple) and got[1] != (i if met_d[i] != i else None):
                    # entries that occur once keep their first-use rank, whatever else is in the table: repeated entries met before them count
                    bad_dup.append(f"table {TD}, indices met in the order {seq}: `{rank.name}({i})` gives {got!r}, expected override {(i if met_d[i] != i else None)!r} - entry {i} is met as "
                                   f"number {met_d[i] + 1} (the repeated entries met before it count like any other), so a position is recorded exactly when that differs from its index")
        except BlockOutcome as o:
            bad_dup.append(f"table {TD}: stops at `{norm_src(o.node)[:60]}`")
        except (FevalError, KeyError, IndexError, TypeError, AttributeError) as e:
            raise AnalysisError(f"{ci.qual}: table methods not evaluable on a table with a repeated entry ({type(e).__name__}: {e})")
    rep.add(rule, f"{rank.qual}::a repeated entry keeps its position", not bad_dup, loc(rank.module, rank.node),
            "on tables with a repeated value the later occurrence gets its index as override" if not bad_dup else
            f"{bad_dup[0]}: the encoder finds entries again by value, so both operands are encoded as the first occurrence and the table comes out one entry short "
            f"(two NaN constants; a hand-altered co_names ('print', 'print') - co_names shrinks, silently)")
    rep.add(rule, f"{rank.qual}::first-use rank on witness call sequences", not bad_rank, loc(rank.module, rank.node),
            bad_rank[0] if bad_rank else f"{len(SEQS)} call sequences over tables of distinct entries (one with colliding hashes): entry and override as specified on every call")
    rep.add(rule, f"{unref.qual}::unreferenced entries on witness call sequences", not bad_unref, loc(unref.module, unref.node),
            bad_unref[0] if bad_unref else f"lists exactly the never-met entries with first-use overrides after each of the {len(SEQS)} sequences ({n_calls} calls evaluated)")

def run(an: Analysis, rep):
    rep.explanation = (
        "Decides that the decoder's first-use rank is a function of discovery state (the number of distinct indices met so far - the "
        "mirror of the encoder's next-index rule), that an override is reported exactly when rank != index (finite-domain "
        "evaluation of the returned expression), that both sides seed the same tables under equivalent guards, and that the "
        "additional-argument list is exactly the never-met indices of all four tables. A state-invariant rank has the witness "
        "`x = 1`: every operand gets an override. The disjunct 'or removing the override would change the re-encoding' is not decided."
    )
    rep.rule("R09.1", "rank of a newly met index depends on discovery state; override iff rank != index", 2)
    rep.rule("R09.2", "decoder rank rule mirrors the encoder's next-index rule; seeds agree", 3)
    rep.rule("R09.3", "additional args = exactly the never-met indices", 2)
    rep.rule("R09.4", "additional args collected for all tables, each wrapped in its table's class", 4)
    from .common import purity
    rep.run(purity, an, rep, "R09.P", ["from_code"])
    from .common import identity_rule
    rep.run(identity_rule, an, rep, "R09.I", ["from_code"])
    from .common import assert_guard_rule as _agr9
    rep.run(_agr9, an, rep, "R09.A", ["from_code"])
    rep.run(table_sequences_rule, an, rep)
    rep.run(negative_index_rule, an, rep)
    from . import c08 as _c08k9
    from .common import SharedRules as _SR9k
    rep.run(_c08k9.r084, an, _SR9k(rep, "R09.K", "the key that says which entries of the constants table repeat one another tells apart what CPython tells apart (shared with C08's R08.4): a coarser key pins "
                                                 "entries of a table that is in first-use order"), rule="R09.K")
    f, ifst, assign, mapattr, idx = find_rank_site(an)
    self_ = f.params[0]
    rank = assign.value
    w = loc(f.module, assign)
    used = self_attrs(rank, self_)
    written = set()
    for b in ifst.body:
        for n in ast.walk(b):
            if isinstance(n, (ast.Assign, ast.AugAssign)):
                for t in (n.targets if isinstance(n, ast.Assign) else [n.target]):
                    tt = t.value if isinstance(t, ast.Subscript) else t
                    if isinstance(tt, ast.Attribute) and isinstance(tt.value, ast.Name) and tt.value.id == self_:
                        written.add(tt.attr)
    # is any attribute the rank reads ever modified after construction anywhere in the class?
    ever_written = set()
    for m in f.cls.methods.values():
        s = m.params[0] if m.params else None
        for n in ast.walk(m.node):
            if isinstance(n, (ast.Assign, ast.AugAssign, ast.Delete)):
                ts = n.targets if isinstance(n, (ast.Assign, ast.Delete)) else [n.target]
                for t in ts:
                    tt = t.value if isinstance(t, ast.Subscript) else t
                    if isinstance(tt, ast.Attribute) and isinstance(tt.value, ast.Name) and tt.value.id == s:
                        ever_written.add(tt.attr)
            if isinstance(n, ast.Call) and isinstance(n.func, ast.Attribute) and n.func.attr in ("append", "add", "pop", "update", "setdefault"):
                b = n.func.value
                if isinstance(b, ast.Attribute) and isinstance(b.value, ast.Name) and b.value.id == s:
                    ever_written.add(b.attr)
    stateful = bool(used & written)
    rep.add("R09.1", f"{f.qual}::rank depends on discovery state", stateful, w,
            f"rank {norm_src(rank)} reads {sorted(used & written)}, which this very block updates: it counts the indices met so far" if stateful else
            f"rank {norm_src(rank)} reads only {sorted(used)}; the guarded block writes {sorted(written)}"
            + ("" if used & ever_written else f" and no method ever modifies {sorted(used)}")
            + ": the rank is the same for every index (a state-invariant), it can never equal a valid index, so every operand of every "
              "decoded instruction carries an _index_override (e.g. `x = 1` decodes with overrides on all operands)")
    # exact mirror form: len(self.MAP) (number of distinct indices met)
    is_len_map = (isinstance(rank, ast.Call) and isinstance(rank.func, ast.Name) and rank.func.id == "len" and len(rank.args) == 1
                  and isinstance(rank.args[0], ast.Attribute) and rank.args[0].attr == mapattr)
    counter = stateful and not is_len_map
    # encoder side: next index = len(self)
    it_enc, _ = an.interp("to_code")
    enc_len_ok = False
    enc_where = ""
    for g in an.closure("to_code"):
        if g.cls is not None and "to_tuple" in g.cls.methods and len(g.params) == 3 and g.name != "__setitem__":
            for n in ast.walk(g.node):
                if isinstance(n, ast.Assign) and isinstance(n.value, ast.Call) and isinstance(n.value.func, ast.Name) and n.value.func.id == "len":
                    enc_len_ok = True
                    enc_where = loc(g.module, n)
    rep.add("R09.2", f"{f.qual}::rank mirrors encoder next-index", (is_len_map or counter) and enc_len_ok, w,
            f"decoder rank = number of distinct indices met ({norm_src(rank)}); encoder next index = number of entries ({enc_where})"
            if (is_len_map or counter) and enc_len_ok else f"decoder rank {norm_src(rank)} is not the mirror of the encoder's `len(table)` rule")
    # override iff rank != index : evaluate the returned pair over a finite domain
    rets = [n for n in ast.walk(f.node) if isinstance(n, ast.Return) and n.value is not None]
    if len(rets) != 1 or not isinstance(rets[0].value, ast.Tuple) or len(rets[0].value.elts) != 2:
        raise AnalysisError(f"{f.qual}: expected a single `return value, override` pair")
    ov = inline_locals(f.node, rets[0].value.elts[1])
    idxname = idx.id if isinstance(idx, ast.Name) else None
    bad = []
    n_eval = 0
    extra_attrs = sorted((self_attrs(ov, self_) | used | {"_args"}) - {mapattr})
    for dup in (frozenset(), frozenset({1}), frozenset({0, 2})):
        for i in range(4):
            for r in range(5):
                # every other self attribute the override expression reads is taken as the set of pinned (duplicated) indices; a
                # sequence-valued one (the table itself) as a generic sequence
                got = err = None
                for filler in (dup, tuple(range(6))):
                    env = {self_: {mapattr: {i: r}}, idxname: i}
                    for a in extra_attrs:
                        env[self_].setdefault(a, filler if a != "_args" else tuple(range(6)))
                    try:
                        got = feval(ov, env)
                        err = None
                        break
                    except (FevalError, KeyError, TypeError) as e:
                        err = e
                if err is not None:
                    raise AnalysisError(f"{f.qual}: override expression {norm_src(ov)} not evaluable: {err}")
                n_eval += 1
                want = i if (r != i or i in dup) else None
                if got != want:
                    bad.append(f"index={i} rank={r} pinned duplicates={sorted(dup)}: override={got!r}, expected {want!r}")
    rep.add("R09.1", f"{f.qual}::override iff rank != index", not bad, loc(f.module, rets[0]),
            (f"{len(bad)} of {n_eval} domain points wrong, e.g. {bad[0]}") if bad else f"override == (index if rank != index or index is a pinned duplicate else None) on all {n_eval} (index, rank, duplicates) points")

    rep.run(seed_rules, an, rep)

    rep.run(duplicates_key_rule, an, rep, f, mapattr, True)

    # R09.5: nothing but the rank function decides an override
    rep.rule("R09.5", "position overrides of decoded operands come from the rank function only", 4)
    over_classes = {c.name for c in an.prog.all_classes() if c.is_dataclass and c.field("_index_override") is not None}
    n55 = 0
    for g2 in an.closure("from_code"):
        # names bound by unpacking a call of the rank function, and never assigned otherwise
        rank_names = {}
        assigned = {}
        for n in ast.walk(g2.node):
            if isinstance(n, ast.Assign):
                for t in n.targets:
                    for x in ast.walk(t):
                        if isinstance(x, ast.Name) and isinstance(x.ctx, ast.Store):
                            assigned[x.id] = assigned.get(x.id, 0) + 1
                if len(n.targets) == 1 and isinstance(n.targets[0], ast.Tuple) and len(n.targets[0].elts) == 2 and _is_rank_call(n.value, f.name) \
                        and all(isinstance(e, ast.Name) for e in n.targets[0].elts):
                    rank_names[n.targets[0].elts[1].id] = n
        for n in ast.walk(g2.node):
            if isinstance(n, ast.Call):
                fname = n.func.id if isinstance(n.func, ast.Name) else None
                if fname in over_classes:
                    n55 += 1
                    ov = None
                    kind = "default"
                    if len(n.args) == 1 and isinstance(n.args[0], ast.Starred):
                        ok5 = _is_rank_call(n.args[0].value, f.name) or (isinstance(n.args[0].value, ast.Name))  # `*xs` with xs yielded by the never-met generator
                        kind = "starred"
                    else:
                        if len(n.args) >= 2:
                            ov = n.args[1]
                        for k in n.keywords:
                            if k.arg == "_index_override":
                                ov = k.value
                        ok5 = ov is None or (isinstance(ov, ast.Name) and ov.id in rank_names and assigned.get(ov.id, 0) == 1)
                    rep.add("R09.5", f"{g2.qual}::{fname}(...) override argument", ok5, loc(g2.module, n),
                            "the override is the rank function's verdict" if ok5 else
                            f"`{norm_src(n)}`: the position override is `{norm_src(ov) if ov is not None else '?'}`, which is not (only) what the rank function returned - an entry sitting at its "
                            f"first-use rank can be given an override that can be stripped without changing the re-encoding")
                if fname == "replace" and any(k.arg == "_index_override" for k in n.keywords):
                    n55 += 1
                    rep.add("R09.5", f"{g2.qual}::replace(..., _index_override=...)", False, loc(g2.module, n),
                            f"`{norm_src(n)}` sets a position override after the rank function has decided that none is needed: the decoded data carries redundant overrides")
    rep.run(unreferenced_rules, an, rep)
    rep.run(r096, an, rep)
    from .common import SharedRules
    from . import c02
    shx = SharedRules(rep, "R09.X", "the index an instruction references is reassembled from all its EXTENDED_ARG prefixes (shared with C02's R02.6/R02.7): a table position beyond 255 misread gives a wrong entry, a wrong override and a wrong 'never referenced' list")
    rep.run(c02.jump_rules, an, SharedRules(rep, "R09.C", "every instruction that indexes a table is decoded as a reference into that table (shared with C02's R02.1 - R02.4): an opcode left out of its category "
                                                         "leaves the entry it references 'never met' - it is listed as an additional argument and every later entry gets an override"))
    from . import c04
    rep.run(c04.r045, an, SharedRules(rep, "R09.D", "the decoder takes the docstring from co_consts[0] whenever that is a str (shared with C04's R04.5): 'a docstring counting first' - a docstring the data "
                                                   "does not hold is not pre-marked as used, so every constant gets an override and the docstring is listed as unreferenced"))
    from . import c11
    rep.run(c11.width_rule, an, SharedRules(rep, "R09.W", "code objects that differ only in a redundant EXTENDED_ARG prefix decode to different data (shared with C11's R11.W): decoded alike, two such "
                                                          "constants of one table count as a repeated entry and both are pinned without need"), "R11.W")
    rep.run(c02.r02f, an, SharedRules(rep, "R09.F", "the decoder's instruction function folded over witness code units (shared with C02's R02.F): an entry carries a position exactly when its "
                                                   "index differs from its first-use rank, and the entries no instruction uses are the ones listed"))
    rep.run(c02.r026, an, shx)
    rep.run(c02.r027, an, shx)
    rep.run(c02.r028, an, shx)
    # R09.4: each member of the AdditionalArg union is produced from the same table as the instruction operand of that class
    tg = an.tg
    cd = an.prog.cls("code_data::CodeData")
    at = tg.field_type(cd.field("_additional_args"))
    members = sorted(tg.classes_in(at))
    interps = []
    for V in VERSIONS:
        itv, retv = an.interp("from_code", V)
        interps.append(itv)
        for cq in members:
            ci = an.prog.cls(cq)
            payload = ci.fields[0].name
            va = itv.navigate(retv, [("a", "_additional_args"), ("e",), ("t", (ci.name,)), ("a", payload)])
            vi = itv.navigate(retv, [("a", "blocks"), ("e",), ("e",), ("a", "arg"), ("t", (ci.name,)), ("a", payload)])
            oa = {a[2][0] for a in itv.origins(va) if a[0] == "src" and a[2]}
            oi = {a[2][0] for a in itv.origins(vi) if a[0] == "src" and a[2] and a[2][0] != ("a", "co_code")}
            ok = bool(oa) and oa == oi
            rep.add("R09.4", f"_additional_args::{ci.name}", ok, loc(cd.module, cd.field("_additional_args").node),
                    f"unreferenced entries of {sorted(x[1] for x in oa)} are listed as {ci.name}" if ok else
                    f"additional {ci.name} entries come from {sorted(x[1] for x in oa)} but instruction operands of that class from {sorted(x[1] for x in oi)}",
                    config=vname(V))
    rep.stats.update(an.stats(interps))


def negative_index_rule(an: Analysis, rep, rule="R09.7"):
    """An operand that wrapped around to a negative number (three EXTENDED_ARG prefixes with the top bit set, hand-written bytecode) is not an
    index into a table: Python would count it from the end, the data would hold an entry pinned at -1 and to_code() could not build the table."""
    from sa.feval import BlockOutcome
    from .c03 import package_evaluator as _pe
    ci, rank, unref = find_decoder_table(an)
    methods = {m.name: m.node for m in ci.methods.values() if isinstance(m.node, ast.FunctionDef)}
    bad = []
    for idx in (-1, -3):
        ev, _r = _pe(an, ci.module, (3, 10))
        ev.methods = methods
        try:
            obj = ev.lib[ci.name](("a", "b", "c"))
            got = ev.call_method(rank.node, obj, idx)
            bad.append(f"`{rank.name}({idx})` on a table of three entries returns {got!r}")
        except BlockOutcome:
            pass
        except Exception as ex:  # noqa: BLE001 - a gap of the evaluator, never a verdict
            raise AnalysisError(f"{rank.qual}: not evaluable on a negative index ({type(ex).__name__}: {ex})")
    rep.add(rule, f"{rank.qual}::a negative index is refused", not bad, loc(rank.module, rank.node),
            "indices -1 and -3 raise" if not bad else
            bad[0] + ": an operand that wrapped around to a negative number is counted from the end of the table - from_code returns an entry pinned at a negative position, "
            "and to_code() of that data raises ('the indices leave gaps')")
