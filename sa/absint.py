"""
Context-sensitive abstract interpreter over the package's ASTs.

It never runs repository code.  It computes, for every expression reached from
an entry point, a set of abstract atoms:

  ('src', root, path)     object reached from an entry parameter by `path`
  ('obj', site, ctx)      object allocated at `site` in call context `ctx`
  ('const', v)            literal
  ('func', qual) ('class', qual) ('bound', qual, selfatom) ('lam', id, ctx)
  ('module', name) ('ext', dotted)
  ('der', key)            value computed from other values; deps[key] = operands

plus a field-sensitive heap for allocated objects, the list of mutation sites with
the abstract target of each, the attribute reads, and the call edges.  Rules query
those tables; see rules/*.py.
"""
from __future__ import annotations

import ast
import os
from typing import Dict, FrozenSet, Iterable, List, Optional, Set, Tuple

from .model import AnalysisError, ClassInfo, FunctionInfo, Module, Program
from .typegraph import TypeGraph

Atom = tuple
Value = FrozenSet[Atom]
EMPTY: Value = frozenset()
MODULE_CTX = ("<module>",)
MAX_PATH = 9
MAX_CTX = 12

E = ("e",)  # generic element field
KEYS = ("keys",)
COPYOF = ("<copyof>",)
INIT_E = ("<inite>",)  # values a dict comprehension put under keys that are not known: later stores under a constant key shadow them

MUTATING_METHODS = {
    "append", "extend", "insert", "pop", "remove", "add", "update", "clear",
    "setdefault", "sort", "reverse", "discard", "popitem", "__setitem__",
    "__delitem__", "appendleft", "popleft", "move_to_end", "difference_update",
    "intersection_update", "symmetric_difference_update",
}
_EXT_MUTABLE_CACHE: Dict[str, bool] = {}


def _ext_is_mutable_container(name: str) -> bool:
    """Whether `module.attr` of the standard library names a list / dict / set that lives in that module (dis.hasjabs, opcode.opmap, sys.path):
    an augmented assignment through an alias changes it for the whole process.  Decided on the checker's own copy of the library module."""
    if name not in _EXT_MUTABLE_CACHE:
        res = False
        parts = name.split(".")
        if len(parts) >= 2 and parts[0] in ("dis", "opcode", "sys", "warnings", "keyword", "token", "types", "collections", "itertools", "enum", "dataclasses", "typing", "math", "ast", "copy", "base64", "json", "inspect"):
            try:
                import importlib
                o = importlib.import_module(parts[0])
                for p_ in parts[1:]:
                    o = getattr(o, p_)
                res = isinstance(o, (list, dict, set, bytearray))
            except Exception:  # noqa: BLE001 - unknown name: not decided as a container
                res = False
        _EXT_MUTABLE_CACHE[name] = res
    return _EXT_MUTABLE_CACHE[name]


_CONTAINER_METHODS = MUTATING_METHODS | {"get", "items", "keys", "values", "copy", "index", "count", "union", "intersection", "difference"}
CONTAINER_KINDS = {"dict", "list", "set", "tuple", "frozenset", "gen", "defaultdict"}
BUILTIN_KIND = {
    "tuple": "tuple", "list": "list", "dict": "dict", "set": "set", "frozenset": "frozenset",
}
CONST_TYPES = {"int": int, "str": str, "float": float, "bool": bool, "bytes": bytes, "complex": complex}


def const(v) -> Value:
    return frozenset([("const", v)])


def vjoin(*vs: Value) -> Value:
    out: Set[Atom] = set()
    for v in vs:
        out |= v
    return frozenset(out)


class Env:
    def __init__(self, parent: Optional["Env"] = None):
        self.vars: Dict[str, Value] = {}
        self.facts: Dict[str, Tuple] = {}
        self.parent = parent
        self.nonlocals: Set[str] = set()

    def copy(self) -> "Env":
        e = Env(self.parent)
        e.vars = dict(self.vars)
        e.facts = dict(self.facts)
        e.nonlocals = set(self.nonlocals)
        return e

    def lookup(self, name: str) -> Optional[Value]:
        e: Optional[Env] = self
        while e is not None:
            if name in e.vars and name not in e.nonlocals:
                return e.vars[name]
            e = e.parent
        return None

    def assign(self, name: str, v: Value):
        e: Env = self
        if name in self.nonlocals:
            p = self.parent
            while p is not None:
                if name in p.vars:
                    e = p
                    break
                p = p.parent
        e.vars[name] = v
        for k in [k for k in e.facts if k == name or k.startswith(name + ".") or k.startswith(name + "[")]:
            del e.facts[k]

    def state(self):
        return (tuple(sorted((k, v) for k, v in self.vars.items())), tuple(sorted(self.facts.items())),
                self.parent.state() if self.parent and self.nonlocals else None)


def join_envs(envs: List[Optional[Env]]) -> Optional[Env]:
    live = [e for e in envs if e is not None]
    if not live:
        return None
    out = live[0].copy()
    for e in live[1:]:
        for k, v in e.vars.items():
            out.vars[k] = vjoin(out.vars.get(k, EMPTY), v)
        for k in list(out.vars):
            if k not in e.vars:
                pass
        for k in list(out.facts):
            if e.facts.get(k) != out.facts[k]:
                del out.facts[k]
    return out


class Frame:
    def __init__(self, fn: Optional[FunctionInfo], module: Module, ctx: tuple, env: Env):
        self.fn = fn
        self.module = module
        self.ctx = ctx
        self.env = env
        self.returns: Value = EMPTY
        self.yields: Value = EMPTY
        self.is_gen = False
        self.loop_breaks: List[List[Env]] = []
        self.loop_continues: List[List[Env]] = []


class Interp:
    def __init__(self, prog: Program, tg: TypeGraph, version: Tuple[int, int] = (3, 10)):
        self.prog = prog
        self.tg = tg
        self.version = version
        self.heap: Dict[Tuple[Atom, tuple], Set[Atom]] = {}
        self.deps: Dict[object, Set[Atom]] = {}
        self.node_values: Dict[Tuple[tuple, int], Set[Atom]] = {}
        self.node_index: Dict[int, ast.AST] = {}
        self.roots: Dict[str, tuple] = {}  # src root -> type term
        self.mutations: List[dict] = []
        self._mut_seen: Set = set()
        self.attr_reads: Dict[Tuple[str, str], Set[Tuple[str, int]]] = {}
        self.call_edges: Set[Tuple[str, str]] = set()
        self.calls_resolved = 0
        self.calls_external = 0
        self.unresolved: Set[Tuple[str, int, str]] = set()
        self.reached: Set[str] = set()
        self.reached_ctx: Set[Tuple[str, tuple]] = set()
        self.ctor_sites: Dict[str, Set[Atom]] = {}
        self.call_args: Dict[Tuple[tuple, int], dict] = {}
        self.ver = 0
        self.pending_redo = False
        self.origin_stop_classes = {"code_data::CodeData"}
        self.unresolved_final: Set[Tuple[str, int, str]] = set()
        self.callees: Dict[int, Set[str]] = {}
        self._changed = False
        self.stack: List[Tuple[str, tuple]] = []
        self.summaries: Dict[Tuple[str, tuple], dict] = {}
        self._glob_cache: Dict[Tuple[str, str], Value] = {}
        self._glob_busy: Set[Tuple[str, str]] = set()
        self.lambdas: Dict[int, Tuple[ast.Lambda, Module, Optional[FunctionInfo], Env]] = {}
        self.nested_envs: Dict[str, Env] = {}
        self.dictmaps: Dict[Atom, tuple] = {}
        self.explicit_keys: Dict[Atom, set] = {}
        self.passes = 0

    # ------------------------------------------------------------ primitives
    def hadd(self, obj: Atom, fld: tuple, v: Iterable[Atom]):
        s = self.heap.setdefault((obj, fld), set())
        n = len(s)
        s.update(v)
        if len(s) != n:
            self.changed = True

    def hget(self, obj: Atom, fld: tuple) -> Value:
        return frozenset(self.heap.get((obj, fld), ()))

    def der(self, key, *operands: Value) -> Value:
        s = self.deps.setdefault(key, set())
        n = len(s)
        for o in operands:
            s.update(o)
        if len(s) != n:
            self.changed = True
        return frozenset([("der", key)])

    SYNTH = ("iter", "values", "getitem", "attr")

    def synth(self, kind: str, a: Atom, *operands: Value) -> Value:
        """Derived value 'an element / item of a'; idempotent on already synthetic atoms (widening: elem(elem(x)) = elem(x))."""
        if a[0] == "der" and isinstance(a[1], tuple) and a[1] and a[1][0] in self.SYNTH:
            if operands:
                self.der(a[1], *operands)
            return frozenset([a])
        return self.der((kind, a), frozenset([a]), *operands)

    def site(self, fr: Frame, node: ast.AST, kind: str) -> tuple:
        return (fr.module.name, getattr(node, "lineno", 0), getattr(node, "col_offset", 0), kind)

    def alloc(self, fr: Frame, node: ast.AST, kind: str) -> Atom:
        return ("obj", self.site(fr, node, kind), fr.ctx)

    def record(self, fr: Frame, node: ast.AST, v: Value) -> Value:
        key = (fr.ctx, id(node))
        s = self.node_values.setdefault(key, set())
        s.update(v)
        self.node_index[id(node)] = node
        return v

    def value_at(self, node: ast.AST, ctx: Optional[tuple] = None) -> Value:
        out: Set[Atom] = set()
        for (c, i), v in self.node_values.items():
            if i == id(node) and (ctx is None or c == ctx):
                out |= v
        return frozenset(out)

    def obj_kind(self, a: Atom) -> str:
        return a[1][3] if a[0] == "obj" else ""

    def obj_class(self, a: Atom) -> Optional[str]:
        k = self.obj_kind(a)
        return k[5:] if k.startswith("inst:") else None

    # ----------------------------------------------------------- src typing
    def src_type(self, a: Atom) -> tuple:
        t = self.roots.get(a[1], ("leaf", "object"))
        for st in a[2]:
            t = self._step_type(t, st)
        return t

    def _step_type(self, t: tuple, st: tuple) -> tuple:
        tg = self.tg
        t = tg.unfold_rec(t)
        if t[0] == "union":
            parts = [self._step_type(x, st) for x in t[1]]
            parts = [p for p in parts if p != ("none",)]
            if not parts:
                return ("none",)
            return tg._union(parts)
        k = st[0]
        if k == "nt":
            if t[0] == "class" and t[1].split("::")[1] in st[1]:
                return ("none",)
            if t[0] == "leaf" and (t[1] in st[1] or (t[1] == "None" and "NoneType" in st[1])):
                return ("none",)
            if t[0] in ("tuple", "tuplefix") and "tuple" in st[1]:
                return ("none",)
            if t[0] in BUILTIN_KIND and t[0] in st[1]:
                return ("none",)
            return t
        if k == "t":
            names = st[1]
            if t[0] == "class":
                return t if t[1].split("::")[1] in names else ("none",)
            if t[0] == "leaf" and t[1] == "object":
                cands = []
                for n in names:
                    for c in self.prog.all_classes():
                        if c.name == n:
                            cands.append(("class", c.qual))
                    if n in CONST_TYPES or n in ("NoneType",):
                        cands.append(("leaf", "None" if n == "NoneType" else n))
                    if n == "dict":
                        cands.append(("dict", ("leaf", "object"), ("leaf", "object")))
                    elif n in BUILTIN_KIND:
                        cands.append((BUILTIN_KIND[n], ("leaf", "object")))
                return tg._union(cands) if cands else t
            if t[0] == "typevar" or t[0] == "unknown":
                return self._step_type(("leaf", "object"), st)
            if t[0] == "leaf":
                return t if (t[1] in names or (t[1] == "None" and "NoneType" in names)) else ("none",)
            if t[0] in ("tuple", "tuplefix"):
                return t if "tuple" in names else ("none",)
            if t[0] in BUILTIN_KIND:
                return t if t[0] in names else ("none",)
            return t
        if k == "a":
            if t[0] == "class":
                f = self.prog.cls(t[1]).field(st[1])
                if f is not None:
                    return tg.field_type(f)
                return ("unknown", st[1])
            if t[0] == "leaf" and t[1] != "object":
                return ("none",)
            if t[0] in ("tuple", "tuplefix", "list", "set", "frozenset", "dict", "literal"):
                return ("none",)
            return ("leaf", "object")
        if k in ("e", "k", "v"):
            if t[0] in ("tuple", "list", "set", "frozenset"):
                return t[1]
            if t[0] == "tuplefix":
                if k == "k" and isinstance(st[1], int) and st[1] < len(t[1]):
                    return t[1][st[1]]
                return tg._union(list(t[1])) if t[1] else ("leaf", "object")
            if t[0] == "dict":
                return t[2] if len(t) > 2 else ("leaf", "object")
            if t[0] == "leaf" and t[1] in ("int", "bool", "float", "complex", "None", "ellipsis"):
                return ("none",)
            if t[0] == "leaf" and t[1] in ("str", "bytes"):
                return ("leaf", "int" if t[1] == "bytes" else "str")
            if t[0] in ("literal", "class"):
                return ("none",) if t[0] == "literal" else ("leaf", "object")
            return ("leaf", "object")
        return ("leaf", "object")

    def src_classes(self, a: Atom) -> List[ClassInfo]:
        t = self.src_type(a)
        return [self.prog.cls(q) for q in sorted(self.tg.classes_in(t)) if self._top_level_class(t, q)]

    def _top_level_class(self, t, q) -> bool:
        t = self.tg.unfold_rec(t)
        if t[0] == "class":
            return t[1] == q
        if t[0] == "union":
            return any(self._top_level_class(x, q) for x in t[1])
        return False

    def src_ext(self, a: Atom, st: tuple) -> Atom:
        path = a[2]
        if len(path) >= MAX_PATH:
            if path and path[-1] == ("...",):
                return a
            return ("src", a[1], path[: MAX_PATH - 1] + (("...",),))
        return ("src", a[1], path + (st,))

    # ------------------------------------------------------------ reading
    def elements(self, v: Value, fr: Optional[Frame] = None) -> Value:
        """Abstract elements obtained by iterating the values in v."""
        out: Set[Atom] = set()
        for a in v:
            k = a[0]
            if k == "obj":
                kind = self.obj_kind(a)
                if kind in ("dict", "defaultdict"):
                    out |= self.hget(a, KEYS)
                    for s in self.hget(a, COPYOF):
                        out |= self.elements(frozenset([s]))
                    if a in self.dictmaps:
                        for s in self.hget(a, ("<mapsrc>",)):
                            out |= self.elements(frozenset([s]))
                elif kind.startswith("inst:"):
                    ci = self.prog.cls(kind[5:])
                    it = self._find_method(ci, "__iter__")
                    if it is not None and fr is not None:
                        g = self.call_function(fr, it, [frozenset([a])], {}, None)
                        out |= self.elements(g)
                    else:
                        out |= self.synth("iter", a)
                else:
                    for (o, f), vals in list(self.heap.items()):
                        if o == a and (f == E or f[0] == "k"):
                            out |= vals
                    for s in self.hget(a, COPYOF):
                        out |= self.elements(frozenset([s]))
            elif k == "src":
                cls = self.src_classes(a)
                done = False
                for ci in cls:
                    it = self._find_method(ci, "__iter__")
                    if it is not None and fr is not None:
                        g = self.call_function(fr, it, [frozenset([a])], {}, None)
                        out |= self.elements(g)
                        done = True
                if not done:
                    t = self.tg.unfold_rec(self.src_type(a))
                    if t[0] == "dict":
                        out.add(self.src_ext(a, ("keyof",)))
                    else:
                        out.add(self.src_ext(a, E))
            elif k == "const":
                if isinstance(a[1], (tuple, frozenset)):
                    for x in a[1]:
                        out.add(("const", x))
                elif isinstance(a[1], str):
                    out |= self.synth("iter", a)
            elif k in ("der", "ext"):
                out |= self.synth("iter", a)
        return frozenset(out)

    def dict_values(self, v: Value, fr: Optional[Frame] = None) -> Value:
        out: Set[Atom] = set()
        for a in v:
            if a[0] == "obj":
                for (o, f), vals in list(self.heap.items()):
                    if o == a and (f == E or f == INIT_E or f[0] == "k"):
                        out |= vals
                for s in self.hget(a, COPYOF):
                    out |= self.dict_values(frozenset([s]))
                if a in self.dictmaps:
                    out |= self.read_key(frozenset([a]), None, fr)
            elif a[0] == "src":
                out.add(self.src_ext(a, E))
            elif a[0] in ("der", "ext"):
                out |= self.synth("values", a)
        return frozenset(out)

    def read_key(self, v: Value, key, fr: Optional[Frame] = None, keyval: Value = EMPTY) -> Value:
        """v[key]; key is a python constant or None when unknown."""
        out: Set[Atom] = set()
        for a in v:
            k = a[0]
            if k == "obj":
                kind = self.obj_kind(a)
                if kind.startswith("inst:"):
                    ci = self.prog.cls(kind[5:])
                    gi = self._find_method(ci, "__getitem__")
                    if gi is not None and fr is not None:
                        out |= self.call_function(fr, gi, [frozenset([a]), keyval], {}, None)
                    else:
                        out |= self.synth("getitem", a, keyval)
                    continue
                shadowed = key is not None and (bool(self.hget(a, ("k", key))) or key in self.explicit_keys.get(a, ()))
                if a in self.dictmaps and not shadowed:
                    out |= self._dictmap_read(a, key, fr)
                if key is None:
                    for (o, f), vals in list(self.heap.items()):
                        if o == a and (f == E or f == INIT_E or f[0] == "k"):
                            out |= vals
                else:
                    out |= self.hget(a, ("k", key))
                    out |= self.hget(a, E)
                    if not shadowed:
                        out |= self.hget(a, INIT_E)
                for s in self.hget(a, COPYOF):
                    if not shadowed:
                        out |= self.read_key(frozenset([s]), key, fr, keyval)
                if kind == "defaultdict":
                    d = ("obj", a[1][:3] + ("list",), a[2] + ("dd",))
                    self.hadd(a, E, [d])
                    out.add(d)
            elif k == "src":
                out.add(self.src_ext(a, ("k", key) if key is not None else E))
                if key is not None:
                    out |= self.hget(a, ("k", key))
            elif k == "const":
                if isinstance(a[1], tuple) and isinstance(key, int) and -len(a[1]) <= key < len(a[1]):
                    out.add(("const", a[1][key]))
                elif isinstance(a[1], tuple):
                    for x in a[1]:
                        out.add(("const", x))
                else:
                    out |= self.synth("getitem", a, keyval)
            elif k in ("der", "ext"):
                out |= self.synth("getitem", a, keyval)
            elif k == "class":
                out.add(a)  # Generic[T] subscription
        return frozenset(out)

    def _dictmap_read(self, a: Atom, key, fr: Optional[Frame]) -> Value:
        node, mfr_module, mfn, menv, ctx, kname, vname = self.dictmaps[a]
        srcs = self.hget(a, ("<mapsrc>",))
        vin = self.read_key(srcs, key, fr) if key is not None else self.dict_values(srcs, fr)
        env = Env(menv)
        env.vars[kname] = const(key) if key is not None else self.der(("mapkey", a), srcs)
        env.vars[vname] = vin
        sub = Frame(mfn, mfr_module, (ctx + (("mapkey", key),))[-MAX_CTX:], env)
        return self.eval(sub, node)

    def _find_method(self, ci: ClassInfo, name: str) -> Optional[FunctionInfo]:
        seen = set()
        todo = [ci]
        while todo:
            c = todo.pop(0)
            if c.qual in seen:
                continue
            seen.add(c.qual)
            if name in c.methods:
                return c.methods[name]
            for b in c.bases:
                bn = b.id if isinstance(b, ast.Name) else (b.value.id if isinstance(b, ast.Subscript) and isinstance(b.value, ast.Name) else None)
                if bn:
                    r = self.prog.resolve_global(c.module, bn)
                    if r and r[0] == "class":
                        todo.append(r[1])
        return None

    def read_attr(self, fr: Frame, v: Value, attr: str, node: Optional[ast.AST] = None, for_call: bool = False) -> Value:
        out: Set[Atom] = set()
        if attr == "__dict__":  # same object state as vars(x)
            for a in v:
                if a[0] == "src":
                    out.add(self.src_ext(a, ("a", "__dict__")))
                elif a[0] == "der" and node is not None:
                    out |= self.der(("vars", self.site(fr, node, "vars"), fr.ctx), frozenset([a]))
                else:
                    out.add(a)
            return frozenset(out)
        for a in v:
            k = a[0]
            if k == "obj":
                cq = self.obj_class(a)
                if cq is not None:
                    ci = self.prog.cls(cq)
                    self._note_read(fr, cq, attr, node)
                    m = self._find_method(ci, attr)
                    if m is not None and not (ci.field(attr)):
                        if m.is_property:
                            out |= self.call_function(fr, m, [frozenset([a])], {}, node)
                        else:
                            out.add(("bound", m.qual, a))
                    else:
                        hv = self.hget(a, ("a", attr))
                        out |= hv if hv else self.class_attr(ci, attr)
                else:
                    out.add(("extm", attr, a)) if for_call else out.update(self.synth("attr", a))
            elif k == "src":
                clss = self.src_classes(a)
                handled = False
                for ci in clss:
                    self._note_read(fr, ci.qual, attr, node)
                    m = self._find_method(ci, attr)
                    if m is not None and not ci.field(attr):
                        handled = True
                        if m.is_property:
                            out |= self.call_function(fr, m, [frozenset([a])], {}, node)
                        else:
                            out.add(("bound", m.qual, a))
                    elif ci.field(attr):
                        handled = True
                        out.add(self.src_ext(a, ("a", attr)))
                if not handled:
                    t = self.tg.unfold_rec(self.src_type(a))
                    if for_call and not clss and attr in _CONTAINER_METHODS:
                        out.add(("extm", attr, a))  # method of a dict / list reached from an argument of unknown static type
                    elif clss or t[0] in ("tuple", "tuplefix", "list", "dict", "set", "frozenset") or (t[0] == "leaf" and t[1] in ("str", "int", "bytes", "float")):
                        out.add(("extm", attr, a)) if for_call else out.update(self.synth("attr", a))
                    else:
                        out.add(self.src_ext(a, ("a", attr)))
            elif k == "class":
                ci = self.prog.cls(a[1])
                m = self._find_method(ci, attr)
                if m is not None:
                    out.add(("bound", m.qual, a) if m.is_classmethod else ("func", m.qual))
                else:
                    out |= self.der(("classattr", a[1], attr), frozenset([a]))
            elif k == "module":
                out |= self.global_value(self.prog.module(a[1]), attr, None)
            elif k == "ext":
                if a[1] == "sys" and attr == "version_info":
                    out.add(("const", self.version))
                elif a[1].count(".") >= 4:
                    # widening: attribute chains on an external object are cut (x.a.b.c.d.e... of a value that came out of a library call)
                    out |= self.synth("attr", a)
                else:
                    out.add(("ext", a[1] + "." + attr))
            elif k in ("der", "const", "func", "bound", "lam", "extm"):
                if for_call and k != "extm":
                    out.add(("extm", attr, a))
                else:
                    out |= self.synth("attr", a[2] if k == "extm" else a)
        return frozenset(out)

    def class_attr(self, ci: ClassInfo, attr: str) -> Value:
        """Value of a plain class-body assignment `attr = <expr>`: one object shared by every instance (allocated in MODULE_CTX)."""
        key = (ci.qual, "<classattr>", attr)
        if key in self._glob_cache:
            return self._glob_cache[key]
        v = EMPTY
        for st in ci.node.body:
            tgt = None
            if isinstance(st, ast.Assign) and len(st.targets) == 1 and isinstance(st.targets[0], ast.Name):
                tgt, val = st.targets[0].id, st.value
            elif isinstance(st, ast.AnnAssign) and isinstance(st.target, ast.Name) and st.value is not None and not ci.is_dataclass:
                tgt, val = st.target.id, st.value
            elif isinstance(st, ast.AnnAssign) and isinstance(st.target, ast.Name) and st.value is not None and ci.is_dataclass \
                    and "ClassVar" in ast.dump(st.annotation):
                tgt, val = st.target.id, st.value
            if tgt == attr:
                v = vjoin(v, self.eval(Frame(None, ci.module, MODULE_CTX, Env()), val))
        self._glob_cache[key] = v
        return v

    def _note_read(self, fr: Frame, cq: str, attr: str, node):
        if node is not None:
            self.attr_reads.setdefault((cq, attr), set()).add((fr.module.name, id(node)))
            self.node_index[id(node)] = node

    # -------------------------------------------------------------- globals
    def global_value(self, m: Module, name: str, fn: Optional[FunctionInfo]) -> Value:
        r = self.prog.resolve_global(m, name, fn)
        if r is None:
            if name in ("True", "False", "None"):
                return const({"True": True, "False": False, "None": None}[name])
            return frozenset([("ext", "builtins." + name)])
        if r[0] == "func":
            return frozenset([("func", r[1].qual)])
        if r[0] == "class":
            return frozenset([("class", r[1].qual)])
        if r[0] == "module":
            return frozenset([("module", r[1])])
        if r[0] == "ext":
            return frozenset([("ext", r[1])])
        tm, nm = r[1], r[2]
        key = (tm.name, nm)
        if key in self._glob_busy:
            return self._glob_cache.get(key, EMPTY)
        exprs = tm.assigns.get(nm, [])
        self._glob_busy.add(key)
        try:
            fr = Frame(None, tm, MODULE_CTX, Env())
            v = vjoin(*[self.eval(fr, e) for e in exprs]) if exprs else EMPTY
        finally:
            self._glob_busy.discard(key)
        old = self._glob_cache.get(key, EMPTY)
        self._glob_cache[key] = vjoin(old, v)
        return self._glob_cache[key]

    # ---------------------------------------------------------- expressions
    def eval(self, fr: Frame, node: ast.AST) -> Value:
        m = getattr(self, "_e_" + type(node).__name__, None)
        if m is None:
            v = self.der((self.site(fr, node, type(node).__name__), fr.ctx),
                         *[self.eval(fr, c) for c in ast.iter_child_nodes(node) if isinstance(c, ast.expr)])
        else:
            v = m(fr, node)
        return self.record(fr, node, v)

    def _e_Constant(self, fr, node):
        return const(node.value)

    def _e_Name(self, fr, node):
        v = fr.env.lookup(node.id)
        if v is None:
            v = self.global_value(fr.module, node.id, fr.fn)
        return self.apply_facts(fr, node.id, v)

    def apply_facts(self, fr: Frame, key: str, v: Value) -> Value:
        e: Optional[Env] = fr.env
        fact = None
        while e is not None and fact is None:
            fact = e.facts.get(key)
            e = e.parent
        if fact is None:
            return v
        return self.filter_value(v, fact)

    def filter_value(self, v: Value, fact: tuple, strict: bool = False) -> Value:
        kind = fact[0]
        out: Set[Atom] = set()
        for a in v:
            if kind in ("isa", "nota"):
                names = fact[1]
                if a[0] == "obj":
                    cq = self.obj_class(a)
                    k = self.obj_kind(a)
                    is_in = (cq is not None and cq.split("::")[1] in names) or (
                        cq is None and (k in names or (k == "defaultdict" and "dict" in names)))
                    if is_in == (kind == "isa"):
                        out.add(a)
                elif a[0] == "const":
                    tn = "NoneType" if a[1] is None else type(a[1]).__name__
                    is_in = tn in names or (tn == "bool" and "int" in names)
                    if is_in == (kind == "isa"):
                        out.add(a)
                elif a[0] == "src":
                    if kind == "isa":
                        if a[2] and a[2][-1][0] == "t":
                            if _names_compatible(a[2][-1][1], names):
                                out.add(a)
                        elif a[2] and a[2][-1][0] == "nt" and set(names) <= set(a[2][-1][1]):
                            pass  # already known not to be an instance of these
                        else:
                            n = self.src_ext(a, ("t", tuple(names)))
                            if self.src_type(n) != ("none",):
                                out.add(n)
                    elif a[2] and a[2][-1][0] == "t" and _names_subsumed(a[2][-1][1], names):
                        pass  # narrowed to one of these classes: the negative branch is infeasible
                    else:
                        n = self.src_ext(a, ("nt", tuple(names)))
                        out.add(n)
                elif a[0] == "der" and kind == "isa" and _scalar_der(a) and not (set(names) & _SCALAR_NAMES):
                    continue
                elif strict and kind == "isa":
                    continue
                else:
                    out.add(a)
            elif kind == "notnone":
                if a != ("const", None):
                    out.add(a)
            elif kind == "isnone":
                if a[0] == "const" and a[1] is not None:
                    continue
                if a[0] == "obj":
                    continue
                out.add(a)
            else:
                out.add(a)
        return frozenset(out)

    def _e_Attribute(self, fr, node):
        base = self.eval(fr, node.value)
        v = self.read_attr(fr, base, node.attr, node)
        key = _expr_key(node)
        if key:
            v = self.apply_facts(fr, key, v)
        return v

    def _e_Subscript(self, fr, node):
        base = self.eval(fr, node.value)
        sl = node.slice
        if isinstance(sl, ast.Slice):
            bc = _single_const(base)
            if isinstance(bc, tuple):
                parts = []
                okc = True
                for p in (sl.lower, sl.upper, sl.step):
                    if p is None:
                        parts.append(None)
                    else:
                        pc = _single_const(self.eval(fr, p))
                        if pc is _NOCONST or not isinstance(pc, int):
                            okc = False
                        parts.append(pc)
                if okc:
                    return const(bc[slice(*parts)])
            bounds = [self.eval(fr, p) for p in (sl.lower, sl.upper, sl.step) if p is not None]
            res = self.shallow_copy(fr, node, base, sliced=True)
            for n in res:
                if n[0] == "obj":  # the slice's extent depends on its bounds
                    self.der(("setop", n), *bounds)
            return res
        kv = self.eval(fr, sl)
        key = _single_const(kv)
        if isinstance(sl, ast.Tuple):
            key = None
        v = self.read_key(base, key if key is not _NOCONST else None, fr, kv)
        k = _expr_key(node)
        if k:
            v = self.apply_facts(fr, k, v)
        return v

    def shallow_copy(self, fr, node, base: Value, sliced=False, kind=None) -> Value:
        out: Set[Atom] = set()
        for a in base:
            if a[0] == "obj" and self.obj_kind(a) in CONTAINER_KINDS:
                k = kind or self.obj_kind(a)
                if k == "gen":
                    k = "list"
                n = self.alloc(fr, node, k)
                for (o, f), vals in list(self.heap.items()):
                    if o == a and (f == E or f == INIT_E or f == KEYS or f[0] == "k"):
                        self.hadd(n, E if (sliced and f[0] == "k") else f, vals)
                for s in self.hget(a, COPYOF):
                    self.hadd(n, COPYOF, [s])
                if a in self.dictmaps:
                    self.hadd(n, COPYOF, [a])
                out.add(n)
            elif a[0] == "src":
                t = self.tg.unfold_rec(self.src_type(a))
                k = kind or (t[0] if t[0] in CONTAINER_KINDS else ("tuple" if t[0] == "tuplefix" else "copy"))
                if kind is None and sliced and self.roots.get(a[1]) == ("ext", "types.CodeType"):
                    k = "tuple"  # co_* sequences are tuples/bytes: a slice of one is immutable
                n = self.alloc(fr, node, k)
                self.hadd(n, COPYOF, [a])
                out.add(n)
            elif a[0] == "const" and isinstance(a[1], (tuple, str, bytes)):
                out.add(a if not sliced else ("der", ("slice", a)))
                if sliced:
                    self.der(("slice", a), frozenset([a]))
            elif a[0] == "obj":
                # copy() of an instance: new instance sharing field values
                n = self.alloc(fr, node, self.obj_kind(a))
                for (o, f), vals in list(self.heap.items()):
                    if o == a:
                        self.hadd(n, f, vals)
                out.add(n)
            else:
                out |= self.der((self.site(fr, node, "copy"), fr.ctx), frozenset([a]))
        return frozenset(out)

    def _display(self, fr, node, kind):
        n = self.alloc(fr, node, kind)
        i = 0
        exact = True
        for e in node.elts:
            if isinstance(e, ast.Starred):
                v = self.eval(fr, e.value)
                self.hadd(n, E, self.elements(v, fr))
                exact = False
            else:
                v = self.eval(fr, e)
                if kind in ("tuple", "list") and exact:
                    self.hadd(n, ("k", i), v)
                else:
                    self.hadd(n, E, v)
                i += 1
        return frozenset([n])

    def _e_Tuple(self, fr, node):
        if all(isinstance(e, ast.Constant) for e in node.elts):
            return const(tuple(e.value for e in node.elts))
        return self._display(fr, node, "tuple")

    def _e_List(self, fr, node):
        return self._display(fr, node, "list")

    def _e_Set(self, fr, node):
        return self._display(fr, node, "set")

    def _e_Dict(self, fr, node):
        n = self.alloc(fr, node, "dict")
        for k, v in zip(node.keys, node.values):
            vv = self.eval(fr, v)
            if k is None:
                self.hadd(n, COPYOF, vv)
                continue
            kv = self.eval(fr, k)
            self.hadd(n, KEYS, kv)
            kc = _single_const(kv)
            self.hadd(n, ("k", kc) if kc is not _NOCONST else E, vv)
            if kc is not _NOCONST:
                # the display gives this key a value of its own, whatever `**other` holds under it - also while that value is still empty in the fixpoint iteration
                self.explicit_keys.setdefault(n, set()).add(kc)
        return frozenset([n])

    def _e_JoinedStr(self, fr, node):
        ops = []
        for v in node.values:
            if isinstance(v, ast.FormattedValue):
                ops.append(self.eval(fr, v.value))
        return self.der((self.site(fr, node, "fstr"), fr.ctx), *ops)

    def _e_Lambda(self, fr, node):
        self.lambdas[id(node)] = (node, fr.module, fr.fn, fr.env)
        return frozenset([("lam", id(node), fr.ctx)])

    def _e_IfExp(self, fr, node):
        t = self.eval(fr, node.test)
        tv = self.truth(fr, t)
        out = EMPTY
        if tv is not False:
            sub = Frame(fr.fn, fr.module, fr.ctx, self.narrow(fr, fr.env.copy(), node.test, True))
            self._share(fr, sub)
            out = vjoin(out, self.eval(sub, node.body))
        if tv is not True:
            sub = Frame(fr.fn, fr.module, fr.ctx, self.narrow(fr, fr.env.copy(), node.orelse and node.test, False))
            self._share(fr, sub)
            out = vjoin(out, self.eval(sub, node.orelse))
        return out

    def _share(self, fr, sub):
        sub.loop_breaks, sub.loop_continues = fr.loop_breaks, fr.loop_continues
        sub._parent_frame = fr

    def _e_BoolOp(self, fr, node):
        env = fr.env.copy()
        out = EMPTY
        pos = isinstance(node.op, ast.And)
        for i, v in enumerate(node.values):
            sub = Frame(fr.fn, fr.module, fr.ctx, env)
            self._share(fr, sub)
            val = self.eval(sub, v)
            tv = self.truth(fr, val)
            out = vjoin(out, val)
            if pos and tv is False:
                return val
            if not pos and tv is True:
                return val
            env = self.narrow(fr, env.copy(), v, pos)
        return out

    def _e_UnaryOp(self, fr, node):
        v = self.eval(fr, node.operand)
        if isinstance(node.op, ast.Not):
            tv = self.truth(fr, v)
            if tv is not None:
                return const(not tv)
        c = _single_const(v)
        if c is not _NOCONST and isinstance(node.op, ast.USub) and isinstance(c, (int, float)):
            return const(-c)
        return self.der((self.site(fr, node, "unary"), fr.ctx), v)

    def _e_BinOp(self, fr, node):
        l = self.eval(fr, node.left)
        r = self.eval(fr, node.right)
        lc, rc = _single_const(l), _single_const(r)
        if lc is not _NOCONST and rc is not _NOCONST:
            try:
                return const(_BINOPS[type(node.op)](lc, rc))
            except Exception:
                pass
        kinds = {self.obj_kind(a) for a in vjoin(l, r) if a[0] == "obj" and self.obj_kind(a) in CONTAINER_KINDS}
        if kinds and isinstance(node.op, (ast.Add, ast.BitOr, ast.BitAnd, ast.Sub, ast.BitXor)):
            kind = "tuple" if "tuple" in kinds else ("list" if "list" in kinds else ("frozenset" if kinds == {"frozenset"} else "set"))
            n = self.alloc(fr, node, kind)
            self.hadd(n, E, self.elements(l, fr))
            if not isinstance(node.op, ast.Sub):
                self.hadd(n, E, self.elements(r, fr))
            self.der(("setop", n), l, r)
            return frozenset([n])
        return self.der((self.site(fr, node, "binop"), fr.ctx), l, r)

    def _e_Compare(self, fr, node):
        vals = [self.eval(fr, node.left)] + [self.eval(fr, c) for c in node.comparators]
        if len(node.ops) == 1:
            lc, rc = _single_const(vals[0]), _single_const(vals[1])
            op = node.ops[0]
            if lc is not _NOCONST and rc is not _NOCONST and type(op) in _CMPOPS:
                try:
                    return const(_CMPOPS[type(op)](lc, rc))
                except Exception:
                    pass
            if isinstance(op, (ast.Is, ast.IsNot)) and rc is None and rc is not _NOCONST:
                isn = self._is_none(vals[0])
                if isn is not None:
                    return const(isn if isinstance(op, ast.Is) else not isn)
            if isinstance(op, (ast.Eq, ast.NotEq)):
                for a in vals[0]:
                    cq = self.obj_class(a) if a[0] == "obj" else None
                    clss = [self.prog.cls(cq)] if cq else (self.src_classes(a) if a[0] == "src" else [])
                    for ci in clss:
                        eqm = ci.methods.get("__eq__")
                        if eqm is not None and not self._on_stack(eqm.qual):
                            self.call_function(fr, eqm, [frozenset([a]), vals[1]], {}, node)
        return self.der((self.site(fr, node, "cmp"), fr.ctx), *vals)

    def _on_stack(self, qual):
        return any(q == qual for q, _ in self.stack)

    def _is_none(self, v: Value) -> Optional[bool]:
        if not v:
            return None
        if all(a == ("const", None) for a in v):
            return True
        if all((a[0] in ("obj", "func", "class", "bound", "lam")) or (a[0] == "const" and a[1] is not None) for a in v):
            return False
        return None

    def truth(self, fr, v: Value) -> Optional[bool]:
        if not v:
            return None
        res = set()
        for a in v:
            if a[0] == "const":
                try:
                    res.add(bool(a[1]))
                except Exception:
                    return None
            elif a[0] in ("func", "class", "bound", "lam", "module"):
                res.add(True)
            else:
                if a[0] == "obj" and self.obj_class(a):
                    ci = self.prog.cls(self.obj_class(a))
                    bm = self._find_method(ci, "__bool__") or self._find_method(ci, "__len__")
                    if bm is not None and fr is not None and not self._on_stack(bm.qual):
                        self.call_function(fr, bm, [frozenset([a])], {}, None)
                    elif bm is None:
                        res.add(True)
                        continue
                return None
        return res.pop() if len(res) == 1 else None

    def _e_NamedExpr(self, fr, node):
        v = self.eval(fr, node.value)
        fr.env.assign(node.target.id, v)
        return v

    def _e_Starred(self, fr, node):
        return self.elements(self.eval(fr, node.value), fr)

    def _e_Yield(self, fr, node):
        f = _root_frame(fr)
        f.is_gen = True
        if node.value is not None:
            f.yields = vjoin(f.yields, self.eval(fr, node.value))
        return const(None)

    def _e_YieldFrom(self, fr, node):
        f = _root_frame(fr)
        f.is_gen = True
        f.yields = vjoin(f.yields, self.elements(self.eval(fr, node.value), fr))
        return const(None)

    def _comp(self, fr, node, kind):
        env = Env(fr.env)
        sub = Frame(fr.fn, fr.module, fr.ctx, env)
        self._share(fr, sub)
        for g in node.generators:
            it = self.eval(sub, g.iter)
            self.bind_target(sub, g.target, self.elements(it, sub))
            for c in g.ifs:
                self.eval(sub, c)
                sub.env = self.narrow(sub, sub.env, c, True)
        n = self.alloc(fr, node, kind)
        if kind == "dict":
            kv = self.eval(sub, node.key)
            self.hadd(n, KEYS, kv)
            g0 = node.generators[0]
            if (len(node.generators) == 1 and isinstance(node.key, ast.Name) and isinstance(g0.target, ast.Tuple)
                    and len(g0.target.elts) == 2 and all(isinstance(e, ast.Name) for e in g0.target.elts)
                    and g0.target.elts[0].id == node.key.id and isinstance(g0.iter, ast.Call)
                    and isinstance(g0.iter.func, ast.Attribute) and g0.iter.func.attr == "items" and not g0.ifs):
                srcs = self.eval(sub, g0.iter.func.value)
                self.hadd(n, ("<mapsrc>",), srcs)
                self.dictmaps[n] = (node.value, fr.module, fr.fn, fr.env, fr.ctx, g0.target.elts[0].id, g0.target.elts[1].id)
                self.eval(sub, node.value)
            else:
                self.hadd(n, INIT_E, self.eval(sub, node.value))
        else:
            self.hadd(n, E, self.eval(sub, node.elt))
        return frozenset([n])

    def _e_ListComp(self, fr, node):
        return self._comp(fr, node, "list")

    def _e_SetComp(self, fr, node):
        return self._comp(fr, node, "set")

    def _e_GeneratorExp(self, fr, node):
        return self._comp(fr, node, "gen")

    def _e_DictComp(self, fr, node):
        return self._comp(fr, node, "dict")

    # ------------------------------------------------------------ narrowing
    def narrow(self, fr, env: Env, test: ast.AST, positive: bool) -> Env:
        if test is None:
            return env
        if isinstance(test, ast.UnaryOp) and isinstance(test.op, ast.Not):
            return self.narrow(fr, env, test.operand, not positive)
        if isinstance(test, ast.BoolOp):
            if isinstance(test.op, ast.And) and positive or isinstance(test.op, ast.Or) and not positive:
                for v in test.values:
                    env = self.narrow(fr, env, v, positive)
            return env
        if isinstance(test, ast.Call) and isinstance(test.func, ast.Name) and test.func.id == "isinstance" and len(test.args) == 2:
            key = _expr_key(test.args[0])
            names = _class_names(test.args[1])
            if key and names:
                old = env.facts.get(key)
                if not positive and old is not None and old[0] == "nota":
                    # `if isinstance(x, A): return ...` followed by `if isinstance(x, B): return ...`: x is neither afterwards
                    names = list(old[1]) + [n for n in names if n not in old[1]]
                env.facts[key] = ("isa" if positive else "nota", tuple(names))
            return env
        if isinstance(test, ast.Compare) and len(test.ops) == 1 and isinstance(test.comparators[0], ast.Constant) and test.comparators[0].value is None:
            key = _expr_key(test.left)
            if key and isinstance(test.ops[0], (ast.Is, ast.IsNot)):
                isnot = isinstance(test.ops[0], ast.IsNot)
                env.facts[key] = ("notnone",) if (isnot == positive) else ("isnone",)
            return env
        key = _expr_key(test)
        if key and positive:
            old = env.facts.get(key)
            if old is None:
                env.facts[key] = ("notnone",)
        return env

    # ------------------------------------------------------------------ calls
    def _e_Call(self, fr, node: ast.Call):
        if isinstance(node.func, ast.Attribute):
            base = self.eval(fr, node.func.value)
            fv = self.read_attr(fr, base, node.func.attr, node.func, for_call=True)
            fkey = _expr_key(node.func)
            if fkey:
                fv = self.apply_facts(fr, fkey, fv)
            self.record(fr, node.func, fv)
        else:
            fv = self.eval(fr, node.func)
        pos: List[Tuple[str, Value]] = []
        for a in node.args:
            if isinstance(a, ast.Starred):
                pos.append(("star", self.eval(fr, a.value)))
                self.record(fr, a, self.elements(self.value_of(fr, a.value), fr))
            else:
                pos.append(("pos", self.eval(fr, a)))
        kw: Dict[str, Value] = {}
        starkw: Value = EMPTY
        for k in node.keywords:
            v = self.eval(fr, k.value)
            if k.arg is None:
                starkw = vjoin(starkw, v)
            else:
                kw[k.arg] = v
        out = EMPTY
        callees = self.callees.setdefault(id(node), set())
        self.node_index[id(node)] = node
        for f in fv:
            out = vjoin(out, self.call_atom(fr, node, f, pos, kw, starkw, callees))
        if not fv:
            self.unresolved.add((fr.module.name, node.lineno, _safe_unparse(node.func)))
        return out

    def value_of(self, fr, node) -> Value:
        return frozenset(self.node_values.get((fr.ctx, id(node)), ()))

    def call_atom(self, fr, node, f: Atom, pos, kw, starkw, callees) -> Value:
        k = f[0]
        if k == "func":
            fi = self.prog.find_function(f[1]) or self._nested_fn(f[1])
            if fi is None:
                raise AnalysisError(f"function {f[1]} vanished")
            callees.add(fi.qual)
            return self.call_function(fr, fi, pos, kw, node, starkw=starkw)
        if k == "bound":
            fi = self.prog.find_function(f[1])
            callees.add(fi.qual)
            return self.call_function(fr, fi, [("pos", frozenset([f[2]]))] + list(pos), kw, node, starkw=starkw)
        if k == "class":
            callees.add(f[1])
            return self.construct(fr, node, self.prog.cls(f[1]), pos, kw, starkw)
        if k == "lam":
            lnode, lmod, lfn, lenv = self.lambdas[f[1]]
            env = Env(lenv)
            params = [a.arg for a in lnode.args.args]
            flat = self._flatten_pos(fr, pos, len(params))
            for p, v in zip(params, flat):
                env.vars[p] = v
            sub = Frame(lfn, lmod, f[2], env)
            callees.add(f"<lambda@{lmod.name}:{lnode.lineno}>")
            self.calls_resolved += 1
            return self.eval(sub, lnode.body)
        if k == "ext":
            callees.add(f[1])
            self.calls_external += 1
            return self.call_ext(fr, node, f[1], pos, kw, starkw)
        if k == "extm":
            callees.add("." + f[1])
            self.calls_external += 1
            return self.call_method(fr, node, f[2], f[1], pos, kw, starkw)
        if k in ("der", "src", "const"):
            self.calls_external += 1
            return self.der((self.site(fr, node, "call"), fr.ctx), frozenset([f]), *[v for _, v in pos], *kw.values(), starkw)
        return EMPTY

    def _nested_fn(self, qual: str) -> Optional[FunctionInfo]:
        for f in self.prog.all_functions(include_tests=True):
            if f.qual == qual:
                return f
        return None

    def _flatten_pos(self, fr, pos, n: int) -> List[Value]:
        out: List[Value] = []
        for kind, v in pos:
            if kind == "pos":
                out.append(v)
            else:
                i = 0
                # expand a starred tuple positionally as far as parameters remain
                known = self._tuple_len(v)
                cnt = known if known is not None else max(0, n - len(out))
                for i in range(cnt):
                    out.append(self.read_key(v, i, fr) if known is not None else self.elements(v, fr))
        return out

    def _tuple_len(self, v: Value) -> Optional[int]:
        lens = set()
        for a in v:
            if a[0] == "obj" and self.obj_kind(a) == "tuple":
                ks = [f[1] for (o, f) in self.heap if o == a and f[0] == "k" and isinstance(f[1], int)]
                if (a, E) in self.heap or not ks:
                    return None
                lens.add(max(ks) + 1)
            elif a[0] == "const" and isinstance(a[1], tuple):
                lens.add(len(a[1]))
            else:
                return None
        return lens.pop() if len(lens) == 1 else None

    def call_function(self, fr, fi: FunctionInfo, pos, kw, node, starkw: Value = EMPTY) -> Value:
        pos = [p if isinstance(p, tuple) and len(p) == 2 and p[0] in ("pos", "star") else ("pos", p) for p in pos]
        self.calls_resolved += 1
        if self.calls_resolved % 256 == 0 and getattr(self, "_deadline", None) is not None:
            import time as _time
            if _time.time() > self._deadline:
                raise AnalysisError(f"abstract interpretation exceeded its time budget while analysing {fi.qual}: the fixpoint does not settle (a widening is missing) - not decided")
        caller = fr.fn.qual if fr.fn is not None else f"{fr.module.name}::<module>"
        self.call_edges.add((caller, fi.qual))
        site = (fr.module.name, getattr(node, "lineno", 0), getattr(node, "col_offset", 0)) if node is not None else ("implicit", fi.qual)
        ctx = None
        for q, c in self.stack:
            if q == fi.qual:
                ctx = c
                break
        recursive = ctx is not None
        if ctx is None:
            base = fr.ctx if fr.ctx != MODULE_CTX else ()
            ctx = (base + (site,))[-MAX_CTX:]
        a = fi.node.args
        params = [x.arg for x in a.posonlyargs + a.args]
        flat = self._flatten_pos(fr, pos, len(params))
        bound: Dict[str, Value] = {}
        for p, v in zip(params, flat):
            bound[p] = v
        if a.vararg:
            rest = flat[len(params):]
            t = ("obj", (fi.module.name, fi.node.lineno, 0, "tuple"), ctx)
            for v in rest:
                self.hadd(t, E, v)
            bound[a.vararg.arg] = frozenset([t])
        allp = params + [x.arg for x in a.kwonlyargs]
        for k, v in kw.items():
            if k in allp:
                bound[k] = v
        if starkw:
            for p in allp:
                if p not in bound:
                    bound[p] = self.read_key(starkw, p, fr)
        # defaults
        defaults = dict(zip(params[len(params) - len(a.defaults):], a.defaults))
        for x, d in zip(a.kwonlyargs, a.kw_defaults):
            if d is not None:
                defaults[x.arg] = d
        for p, d in defaults.items():
            if p not in bound:
                bound[p] = self.eval(Frame(None, fi.module, MODULE_CTX, Env()), d)
        key = (fi.qual, ctx)
        summ = self.summaries.setdefault(key, {"args": {}, "ret": EMPTY, "memo": None})
        grew = False
        if recursive:
            # structural recursion on a sub-object of the same kind as the generic root the activation is already
            # analysed for (nested code object / nested JSON document): the generic analysis covers it
            bound = {p: self._drop_same_kind(v, summ["args"].get(p, EMPTY)) for p, v in bound.items()}
        for p, v in bound.items():
            old = summ["args"].get(p, EMPTY)
            new = vjoin(old, v)
            if new != old:
                summ["args"][p] = new
                grew = True
        if grew:
            self.changed = True
        if recursive:
            summ["recursed"] = True
            return summ["ret"]
        memo = summ["memo"]
        if memo is not None and memo[0] == self.ver and not grew:
            return summ["ret"]
        self.reached.add(fi.qual)
        self.reached_ctx.add(key)
        if fi.parent is not None:
            if fr.fn is not None and fi.parent.qual == fr.fn.qual:
                penv = fr.env
            else:
                penv = self.nested_envs.get(fi.qual, Env())
            env = Env(penv)
            for sub in ast.walk(fi.node):
                if isinstance(sub, ast.Nonlocal):
                    env.nonlocals.update(sub.names)
        else:
            env = Env()
        for p, v in summ["args"].items():
            env.vars[p] = v
        nf = Frame(fi, fi.module, ctx, env)
        ver_start = self.ver
        self.stack.append((fi.qual, ctx))
        try:
            self.exec_stmts(nf, fi.node.body)
        finally:
            self.stack.pop()
        if nf.is_gen:
            g = ("obj", (fi.module.name, fi.node.lineno, fi.node.col_offset, "gen"), ctx)
            self.hadd(g, E, nf.yields)
            ret = frozenset([g])
        else:
            ret = nf.returns if (nf.returns or nf.env is None) else const(None)
            if nf.env is not None and nf.returns:
                ret = vjoin(ret, const(None)) if not _always_returns(fi.node.body) else ret
        new = vjoin(summ["ret"], ret)
        grew_ret = new != summ["ret"]
        if grew_ret:
            summ["ret"] = new
            self.changed = True
        # a self-recursive activation consumed its own (then stale) summary: if the summary grew, redo it next time
        if grew_ret and summ.get("recursed"):
            self.pending_redo = True  # callers up the stack consumed the stale value too: redo the whole pass
        summ["memo"] = None if (grew_ret and summ.get("recursed")) else (self.ver,)
        summ["recursed"] = False
        return summ["ret"]

    def _drop_same_kind(self, v: Value, existing: Value) -> Value:
        roots = [r for r in existing if r[0] == "src"]
        if not roots:
            return v
        out = set()
        for a in v:
            drop = False
            if a[0] == "src" and a not in existing:
                for r in roots:
                    if r[1] != a[1] or len(r[2]) >= len(a[2]):
                        continue
                    rt = self.src_type(r)
                    path = a[2]
                    while path and path[-1][0] in ("t", "nt"):
                        path = path[:-1]
                    if rt != ("none",) and rt in (self.src_type(a), self.src_type(("src", a[1], path))):
                        drop = True
                    elif a[2] and a[2][-1][0] == "t":
                        nm = rt[1].split("::")[-1].split(".")[-1] if rt[0] in ("class", "ext") else None
                        if nm and nm in a[2][-1][1]:
                            drop = True
                    if drop:
                        break
            if not drop:
                out.add(a)
        return frozenset(out)

    def construct(self, fr, node, ci: ClassInfo, pos, kw, starkw: Value = EMPTY) -> Value:
        self.calls_resolved += 1
        obj = self.alloc(fr, node, "inst:" + ci.qual)
        self.ctor_sites.setdefault(ci.qual, set()).add(obj)
        if ci.is_dataclass:
            flds = ci.fields
            flat = self._flatten_pos(fr, pos, len(flds))
            given: Set[str] = set()
            for f, v in zip(flds, flat):
                self.hadd(obj, ("a", f.name), v)
                given.add(f.name)
            for k, v in kw.items():
                self.hadd(obj, ("a", k), v)
                given.add(k)
            if starkw:
                for f in flds:
                    if f.name not in given:
                        v = self.read_key(starkw, f.name, fr)
                        self.hadd(obj, ("a", f.name), v)
            for f in flds:
                if f.name in given and not starkw:
                    continue
                if f.name in given:
                    continue
                dfr = Frame(None, ci.module, MODULE_CTX, Env())
                if f.default is not None:
                    self.hadd(obj, ("a", f.name), self.eval(dfr, f.default))
                elif f.default_factory is not None:
                    fv = self.eval(dfr, f.default_factory)
                    sub = Frame(fr.fn, fr.module, fr.ctx, fr.env)
                    for fa in fv:
                        self.hadd(obj, ("a", f.name), self.call_atom(sub, node, fa, [], {}, EMPTY, set()))
            pi = self._find_method(ci, "__post_init__")
            if pi is not None:
                self.call_function(fr, pi, [frozenset([obj])], {}, node)
        else:
            init = self._find_method(ci, "__init__")
            if init is not None:
                self.call_function(fr, init, [("pos", frozenset([obj]))] + list(pos), kw, node, starkw=starkw)
        return frozenset([obj])

    def mutate(self, fr, node, target: Value, kind: str):
        objs = frozenset(a for a in target if a[0] in ("obj", "src", "class", "module", "func", "ext"))
        if not objs:
            return
        key = (id(node), fr.ctx, kind)
        for m in self.mutations:
            if m["key"] == key:
                m["targets"] = vjoin(m["targets"], objs)
                return
        self.node_index[id(node)] = node
        self.mutations.append({
            "key": key, "fn": fr.fn.qual if fr.fn else f"{fr.module.name}::<module>", "module": fr.module.name,
            "ctx": fr.ctx, "node": id(node), "lineno": getattr(node, "lineno", 0), "kind": kind, "targets": objs,
        })

    def new_container(self, fr, node, kind: str, elems: Value = EMPTY) -> Value:
        n = self.alloc(fr, node, kind)
        if elems:
            self.hadd(n, E, elems)
        return frozenset([n])

    def call_ext(self, fr, node, name: str, pos, kw, starkw) -> Value:
        short = name.split(".")[-1]
        args = self._flatten_pos(fr, pos, 8)
        a0 = args[0] if args else EMPTY
        generic = lambda: self.der((self.site(fr, node, "call:" + short), fr.ctx), frozenset([("ext", name)]), *args, *kw.values(), starkw)
        parts = name.split(".")
        if short in MUTATING_METHODS and len(parts) >= 3 and parts[0] != "builtins":
            # a mutating method of an object that lives in an imported library module (dis.opmap.setdefault, warnings.filters.append, sys.path.insert)
            self.mutate(fr, node, frozenset([("ext", ".".join(parts[:-1]))]), "call:" + short)
        if name in ("builtins.tuple", "builtins.list", "builtins.set", "builtins.frozenset", "builtins.sorted",
                    "builtins.reversed", "builtins.iter"):
            kind = {"sorted": "list", "reversed": "list", "iter": "gen"}.get(short, short)
            return self.new_container(fr, node, kind, self.elements(a0, fr))
        if name == "builtins.dict":
            if args:
                return self.shallow_copy(fr, node, a0, kind="dict")
            n = self.alloc(fr, node, "dict")
            for k, v in kw.items():
                self.hadd(n, KEYS, const(k))
                self.hadd(n, ("k", k), v)
            return frozenset([n])
        if short == "OrderedDict" or short == "defaultdict" and False:
            n = self.alloc(fr, node, "dict")
            if args:
                el = self.elements(a0, fr)
                self.hadd(n, KEYS, self.read_key(el, 0, fr))
                self.hadd(n, E, self.read_key(el, 1, fr))
                for s in a0:
                    if s[0] == "obj" and self.obj_kind(s) == "dict":
                        self.hadd(n, COPYOF, [s])
            return frozenset([n])
        if short == "defaultdict":
            return frozenset([self.alloc(fr, node, "defaultdict")])
        if short in ("WeakKeyDictionary", "WeakValueDictionary", "ChainMap") and not args:
            return frozenset([self.alloc(fr, node, "dict")])  # (a mapping kept by the library: stores into it are stores into a container)
        if short in ("WeakSet",) and not args:
            return frozenset([self.alloc(fr, node, "set")])
        if short == "deque" and not args:
            return frozenset([self.alloc(fr, node, "list")])
        if name == "builtins.enumerate":
            t = self.alloc(fr, node, "tuple")
            self.hadd(t, ("k", 0), self.der(("enum-index", self.site(fr, node, "i"), fr.ctx), EMPTY))
            self.hadd(t, ("k", 1), self.elements(a0, fr))
            return self.new_container(fr, node, "gen", frozenset([t]))
        if name == "builtins.zip":
            t = self.alloc(fr, node, "tuple")
            for i, a in enumerate(args):
                self.hadd(t, ("k", i), self.elements(a, fr))
            return self.new_container(fr, node, "gen", frozenset([t]))
        if name in ("builtins.map", "builtins.filter"):
            res = EMPTY
            el = [self.elements(a, fr) for a in args[1:]]
            for f in a0:
                if f == ("const", None):
                    continue
                res = vjoin(res, self.call_atom(fr, node, f, [("pos", e) for e in el], {}, EMPTY, self.callees.setdefault(id(node), set())))
            return self.new_container(fr, node, "gen", res if short == "map" else (el[0] if el else EMPTY))
        if name == "builtins.len":
            out = EMPTY
            for a in a0:
                cq = self.obj_class(a) if a[0] == "obj" else None
                clss = [self.prog.cls(cq)] if cq else (self.src_classes(a) if a[0] == "src" else [])
                for ci in clss:
                    lm = self._find_method(ci, "__len__")
                    if lm is not None:
                        out = vjoin(out, self.call_function(fr, lm, [frozenset([a])], {}, node))
            return vjoin(out, generic())
        if name == "builtins.getattr":
            nm = _single_const(args[1]) if len(args) > 1 else _NOCONST
            if isinstance(nm, str):
                return vjoin(self.read_attr(fr, a0, nm, node), args[2] if len(args) > 2 else EMPTY)
            return generic()
        if name == "builtins.setattr" or name.endswith(".__setattr__"):
            # setattr(o, "name", v) / object.__setattr__(o, "name", v): a field store on o
            tgt = a0
            nm = _single_const(args[1]) if len(args) > 1 else _NOCONST
            self.mutate(fr, node, tgt, "setattr")
            if isinstance(nm, str) and len(args) > 2:
                for a in tgt:
                    if a[0] == "obj":
                        self.hadd(a, ("a", nm), args[2])
            return const(None)
        if short == "cast" and len(args) >= 2:
            return args[1]
        if name == "copy.copy":
            # the copy protocol: a class's own __copy__ decides what copy() returns (e.g. `return self`)
            out_c: Set[Atom] = set()
            plain: Set[Atom] = set()
            for a in a0:
                cq = self.obj_class(a) if a[0] == "obj" else None
                clss = [self.prog.cls(cq)] if cq else (self.src_classes(a) if a[0] == "src" else [])
                cm = [m for m in (self._find_method(ci, "__copy__") for ci in clss) if m is not None]
                if cm:
                    for m in cm:
                        out_c |= self.call_function(fr, m, [frozenset([a])], {}, node)
                    if len(cm) < len(clss):
                        plain.add(a)
                else:
                    plain.add(a)
            return vjoin(frozenset(out_c), self.shallow_copy(fr, node, frozenset(plain)) if plain else EMPTY)
        if name == "builtins.vars" and args:
            # vars(x) is x's own attribute dictionary: writing to it writes x; handing it out hands out x's state
            out_v: Set[Atom] = set()
            for a in a0:
                if a[0] == "src":
                    out_v.add(self.src_ext(a, ("a", "__dict__")))
                elif a[0] == "der":
                    out_v |= self.der(("vars", self.site(fr, node, "vars"), fr.ctx), frozenset([a]))
                else:
                    out_v.add(a)
            return frozenset(out_v)
        if name == "dataclasses.replace":
            out: Set[Atom] = set()
            for a in a0:
                clss: List[ClassInfo] = []
                if a[0] == "obj" and self.obj_class(a):
                    clss = [self.prog.cls(self.obj_class(a))]
                elif a[0] == "src":
                    clss = self.src_classes(a)
                for ci in clss:
                    n = self.alloc(fr, node, "inst:" + ci.qual)
                    self.ctor_sites.setdefault(ci.qual, set()).add(n)
                    for f in ci.fields:
                        if f.name in kw:
                            self.hadd(n, ("a", f.name), kw[f.name])
                        elif a[0] == "obj":
                            self.hadd(n, ("a", f.name), self.hget(a, ("a", f.name)))
                        else:
                            self.hadd(n, ("a", f.name), [self.src_ext(a, ("a", f.name))])
                    self.der(("replace", n), frozenset([a]))
                    out.add(n)
                if not clss:
                    out |= generic()
            return frozenset(out)
        if name == "heapq.merge":
            return self.new_container(fr, node, "gen", vjoin(*[self.elements(a, fr) for a in args]) if args else EMPTY)
        if short in ("chain", "from_iterable"):
            if short == "from_iterable":
                return self.new_container(fr, node, "gen", self.elements(self.elements(a0, fr), fr))
            return self.new_container(fr, node, "gen", vjoin(*[self.elements(a, fr) for a in args]) if args else EMPTY)
        if name == "builtins.range":
            return self.new_container(fr, node, "gen", generic())
        if short in ("shuffle", "heappush", "heappop", "heapify"):
            self.mutate(fr, node, a0, "ext-mutator:" + short)
        return generic()

    def call_method(self, fr, node, recv: Atom, attr: str, pos, kw, starkw) -> Value:
        args = self._flatten_pos(fr, pos, 4)
        a0 = args[0] if args else EMPTY
        rv = frozenset([recv])
        generic = lambda: self.der((self.site(fr, node, "m:" + attr), fr.ctx), rv, *args, *kw.values(), starkw)
        is_container = (recv[0] == "obj" and not self.obj_class(recv)) or recv[0] == "src"
        if not is_container:
            return generic()
        if attr in MUTATING_METHODS:
            self.mutate(fr, node, rv, "call:" + attr)
        isobj = recv[0] == "obj"
        if attr in ("append", "add", "appendleft"):
            if isobj:
                self.hadd(recv, E, a0)
            return const(None)
        if attr == "insert":
            if isobj and len(args) > 1:
                self.hadd(recv, E, args[1])
            return const(None)
        if attr in ("extend", "update"):
            if isobj:
                kind = self.obj_kind(recv)
                if kind in ("dict", "defaultdict"):
                    self.hadd(recv, KEYS, self.elements(a0, fr))
                    self.hadd(recv, E, self.dict_values(a0, fr))
                    for k, v in kw.items():
                        self.hadd(recv, ("k", k), v)
                else:
                    self.hadd(recv, E, self.elements(a0, fr))
            return const(None)
        if attr in ("remove", "discard", "clear", "sort", "reverse"):
            return const(None)
        if attr == "pop":
            kind = self.obj_kind(recv) if isobj else "?"
            kc = _single_const(a0) if args else _NOCONST
            if kind in ("dict", "defaultdict", "?") and args:
                r = self.read_key(rv, kc if kc is not _NOCONST else None, fr, a0)
            else:
                r = self.read_key(rv, None, fr)
            return vjoin(r, args[1] if len(args) > 1 else EMPTY)
        if attr == "popitem":
            t = self.alloc(fr, node, "tuple")
            self.hadd(t, ("k", 0), self.elements(rv, fr))
            self.hadd(t, ("k", 1), self.dict_values(rv, fr))
            return frozenset([t])
        if attr == "setdefault":
            kc = _single_const(a0)
            d = args[1] if len(args) > 1 else const(None)
            if isobj:
                self.hadd(recv, KEYS, a0)
                self.hadd(recv, ("k", kc) if kc is not _NOCONST else E, d)
            return vjoin(self.read_key(rv, kc if kc is not _NOCONST else None, fr, a0), d)
        if attr == "get":
            kc = _single_const(a0)
            return vjoin(self.read_key(rv, kc if kc is not _NOCONST else None, fr, a0), args[1] if len(args) > 1 else const(None))
        if attr == "items":
            t = self.alloc(fr, node, "tuple")
            self.hadd(t, ("k", 0), self.elements(rv, fr))
            self.hadd(t, ("k", 1), self.dict_values(rv, fr))
            return self.new_container(fr, node, "list", frozenset([t]))
        if attr == "keys":
            return self.new_container(fr, node, "list", self.elements(rv, fr))
        if attr == "values":
            res = self.new_container(fr, node, "list", self.dict_values(rv, fr))
            # how many values there are (and how often each occurs) is decided by the keys: Counter(d.values()) depends on them
            for n in res:
                if n[0] == "obj":
                    self.der(("setop", n), self.elements(rv, fr))
            return res
        if attr == "copy":
            return self.shallow_copy(fr, node, rv)
        if attr in ("union", "intersection", "difference", "symmetric_difference"):
            n = self.alloc(fr, node, "set")
            self.hadd(n, E, self.elements(rv, fr))
            for a in args:
                self.hadd(n, E, self.elements(a, fr))
            return frozenset([n])
        return generic()

    # ------------------------------------------------------------ statements
    def exec_stmts(self, fr: Frame, stmts):
        for st in stmts:
            if fr.env is None:
                return
            m = getattr(self, "_s_" + type(st).__name__, None)
            if m is None:
                raise AnalysisError(f"unsupported statement {type(st).__name__} at {fr.module.relpath}:{st.lineno}")
            m(fr, st)

    def _s_Expr(self, fr, st):
        self.eval(fr, st.value)

    def _s_Pass(self, fr, st):
        pass

    def _s_Import(self, fr, st):
        pass

    _s_ImportFrom = _s_Import
    _s_Global = _s_Import
    _s_Nonlocal = _s_Import

    def _s_FunctionDef(self, fr, st):
        fi = None
        if fr.fn is not None:
            fi = fr.fn.nested.get(st.name)
        if fi is None:
            fi = fr.module.functions.get(st.name)
        if fi is not None:
            self.nested_envs[fi.qual] = fr.env
            fr.env.assign(st.name, frozenset([("func", fi.qual)]))

    def _s_ClassDef(self, fr, st):
        ci = fr.module.classes.get(st.name)
        if ci is not None:
            fr.env.assign(st.name, frozenset([("class", ci.qual)]))

    def _s_Return(self, fr, st):
        v = self.eval(fr, st.value) if st.value is not None else const(None)
        f = _root_frame(fr)
        f.returns = vjoin(f.returns, v)
        fr.env = None

    def _s_Raise(self, fr, st):
        if st.exc is not None:
            self.eval(fr, st.exc)
        fr.env = None

    def _s_Assert(self, fr, st):
        t = self.eval(fr, st.test)
        if st.msg is not None:
            self.eval(fr, st.msg)
        if self.truth(fr, t) is False:
            fr.env = None
            return
        fr.env = self.narrow(fr, fr.env, st.test, True)

    def _s_Assign(self, fr, st):
        v = self.eval(fr, st.value)
        for t in st.targets:
            self.bind_target(fr, t, v, st)

    def _s_AnnAssign(self, fr, st):
        if st.value is not None:
            self.bind_target(fr, st.target, self.eval(fr, st.value), st)

    def bind_target(self, fr, t, v: Value, st=None):
        if isinstance(t, ast.Name):
            fr.env.assign(t.id, v)
            self.record(fr, t, v)
        elif isinstance(t, (ast.Tuple, ast.List)):
            n = len(t.elts)
            for i, e in enumerate(t.elts):
                if isinstance(e, ast.Starred):
                    self.bind_target(fr, e.value, self.new_container(fr, e, "list", self.elements(v, fr)), st)
                else:
                    has_star = any(isinstance(x, ast.Starred) for x in t.elts)
                    self.bind_target(fr, e, self.elements(v, fr) if has_star else self.read_key(v, i, fr), st)
        elif isinstance(t, ast.Attribute):
            base = self.eval(fr, t.value)
            self.mutate(fr, st or t, base, "attr-store:" + t.attr)
            for a in base:
                if a[0] == "obj":
                    self.hadd(a, ("a", t.attr), v)
        elif isinstance(t, ast.Subscript):
            base = self.eval(fr, t.value)
            kv = self.eval(fr, t.slice) if not isinstance(t.slice, ast.Slice) else EMPTY
            kc = _single_const(kv) if not isinstance(t.slice, (ast.Slice, ast.Tuple)) else _NOCONST
            handled: Set[Atom] = set()
            for a in base:
                cq = self.obj_class(a) if a[0] == "obj" else None
                clss = [self.prog.cls(cq)] if cq else (self.src_classes(a) if a[0] == "src" else [])
                for ci in clss:
                    sm = self._find_method(ci, "__setitem__")
                    if sm is not None:
                        self.call_function(fr, sm, [frozenset([a]), kv, v], {}, st or t)
                        handled.add(a)
            rest = frozenset(a for a in base if a not in handled)
            self.mutate(fr, st or t, rest, "subscript-store")
            for a in rest:
                if a[0] == "obj":
                    if self.obj_kind(a) in ("dict", "defaultdict"):
                        self.hadd(a, KEYS, kv)
                    self.hadd(a, ("k", kc) if kc is not _NOCONST else E, v)
                elif a[0] == "src" and kc is not _NOCONST:
                    self.hadd(a, ("k", kc), v)
        elif isinstance(t, ast.Starred):
            self.bind_target(fr, t.value, v, st)
        else:
            raise AnalysisError(f"unsupported assignment target {type(t).__name__} at {fr.module.relpath}:{t.lineno}")

    def _s_AugAssign(self, fr, st):
        rhs = self.eval(fr, st.value)
        t = st.target
        load = _as_load(t)
        old = self.eval(fr, load)
        if isinstance(t, ast.Attribute) and self._attr_is_scalar_field(fr, t):
            old = frozenset(a for a in old if a[0] != "src")
        conts = frozenset(a for a in old if (a[0] == "obj" and self.obj_kind(a) in CONTAINER_KINDS) or
                          (a[0] == "src" and self._src_maybe_mutable(a)) or (a[0] == "ext" and _ext_is_mutable_container(a[1])))
        scal = frozenset(a for a in old if a not in conts)
        new = EMPTY
        if conts:
            self.mutate(fr, st, conts, "augassign:" + type(st.op).__name__)
            if not isinstance(st.op, (ast.Sub, ast.BitAnd)):
                for a in conts:
                    if a[0] == "obj":
                        self.hadd(a, E, self.elements(rhs, fr))
            new = vjoin(new, conts)
        if scal or not old:
            new = vjoin(new, self.der((self.site(fr, st, "aug"), fr.ctx), scal, rhs))
        if isinstance(t, ast.Name):
            fr.env.assign(t.id, new)
            self.record(fr, t, new)
        else:
            self.bind_target(fr, t, new, st)

    def _attr_is_scalar_field(self, fr, t: ast.Attribute) -> bool:
        base = self.value_of(fr, t.value)
        ok = False
        for a in base:
            cq = self.obj_class(a) if a[0] == "obj" else None
            clss = [self.prog.cls(cq)] if cq else (self.src_classes(a) if a[0] == "src" else [])
            for ci in clss:
                f = ci.field(t.attr)
                if f is None:
                    return False
                ft = self.tg.field_type(f)
                if self.tg.mutable_parts(ft) or any(x[0] == "class" for x in self.tg.leaves_in(ft)):
                    return False
                ok = True
            if not clss:
                return False
        return ok

    def _src_maybe_mutable(self, a: Atom) -> bool:
        if self.roots.get(a[1]) == ("ext", "types.CodeType"):
            return False  # code objects and everything reachable from their attributes are immutable
        t = self.tg.unfold_rec(self.src_type(a))
        alts = list(t[1]) if t[0] == "union" else [t]
        for x in alts:
            x = self.tg.unfold_rec(x)
            if x[0] in ("list", "set", "dict", "unknown", "typevar", "ext"):
                return True
            if x[0] == "leaf" and x[1] == "object":
                return True
            if x[0] == "class":
                ci = self.prog.cls(x[1])
                if any(n.startswith("__i") and n.endswith("__") and n not in ("__init__", "__iter__") for n in ci.methods):
                    return True
        return False

    def _s_Delete(self, fr, st):
        for t in st.targets:
            if isinstance(t, ast.Name):
                fr.env.vars.pop(t.id, None)
            elif isinstance(t, ast.Subscript):
                base = self.eval(fr, t.value)
                if not isinstance(t.slice, ast.Slice):
                    self.eval(fr, t.slice)
                self.mutate(fr, st, base, "del-subscript")
            elif isinstance(t, ast.Attribute):
                base = self.eval(fr, t.value)
                self.mutate(fr, st, base, "del-attr:" + t.attr)

    def _s_If(self, fr, st):
        t = self.eval(fr, st.test)
        tv = self.truth(fr, t)
        env0 = fr.env
        outs: List[Optional[Env]] = []
        if tv is not False:
            fr.env = self.narrow(fr, env0.copy(), st.test, True)
            self.exec_stmts(fr, st.body)
            outs.append(fr.env)
        if tv is not True:
            fr.env = self.narrow(fr, env0.copy(), st.test, False)
            self.exec_stmts(fr, st.orelse)
            outs.append(fr.env)
        fr.env = join_envs(outs)

    def _loop(self, fr, st, head):
        env_in = fr.env
        fr.loop_breaks.append([])
        fr.loop_continues.append([])
        exit_envs: List[Optional[Env]] = []
        for _ in range(12):
            state0 = env_in.state()
            ver0 = self.ver
            fr.env = env_in.copy()
            fr.loop_continues[-1] = []
            cont = head(fr)  # returns False if loop cannot be entered
            exit_env = fr._exit_env if hasattr(fr, "_exit_env") else None
            if cont:
                self.exec_stmts(fr, st.body)
                after = join_envs([fr.env] + fr.loop_continues[-1])
            else:
                after = None
            new_in = join_envs([env_in, after])
            if new_in.state() == state0 and self.ver == ver0:
                env_in = new_in
                break
            env_in = new_in
        breaks = fr.loop_breaks.pop()
        fr.loop_continues.pop()
        fr.env = env_in
        return breaks

    def _s_For(self, fr, st):
        itv = self.eval(fr, st.iter)

        def head(f):
            self.bind_target(f, st.target, self.elements(itv, f), st)
            return True

        breaks = self._loop(fr, st, head)
        if fr.env is not None and st.orelse:
            self.exec_stmts(fr, st.orelse)
        fr.env = join_envs([fr.env] + breaks)

    def _s_While(self, fr, st):
        always = [False]

        def head(f):
            t = self.eval(f, st.test)
            tv = self.truth(f, t)
            always[0] = tv is True
            if tv is False:
                return False
            f.env = self.narrow(f, f.env, st.test, True)
            return True

        breaks = self._loop(fr, st, head)
        if always[0]:
            fr.env = None
        if fr.env is not None:
            fr.env = self.narrow(fr, fr.env, st.test, False)
            if st.orelse:
                self.exec_stmts(fr, st.orelse)
        fr.env = join_envs([fr.env] + breaks)

    def _s_Break(self, fr, st):
        if fr.loop_breaks:
            fr.loop_breaks[-1].append(fr.env)
        fr.env = None

    def _s_Continue(self, fr, st):
        if fr.loop_continues:
            fr.loop_continues[-1].append(fr.env)
        fr.env = None

    def _s_Try(self, fr, st):
        env0 = fr.env.copy()
        self.exec_stmts(fr, st.body)
        body_env = fr.env
        outs: List[Optional[Env]] = []
        if body_env is not None:
            fr.env = body_env
            self.exec_stmts(fr, st.orelse)
            outs.append(fr.env)
        for h in st.handlers:
            fr.env = join_envs([env0.copy(), body_env])
            if h.type is not None:
                self.eval(fr, h.type)
            if h.name:
                fr.env.assign(h.name, self.der((self.site(fr, h, "exc"), fr.ctx), EMPTY))
            self.exec_stmts(fr, h.body)
            outs.append(fr.env)
        fr.env = join_envs(outs)
        if st.finalbody:
            if fr.env is None:
                fr.env = env0
                self.exec_stmts(fr, st.finalbody)
                fr.env = None
            else:
                self.exec_stmts(fr, st.finalbody)

    def _s_With(self, fr, st):
        for it in st.items:
            v = self.eval(fr, it.context_expr)
            if it.optional_vars is not None:
                self.bind_target(fr, it.optional_vars, self.der((self.site(fr, it.context_expr, "with"), fr.ctx), v), st)
        self.exec_stmts(fr, st.body)

    # ------------------------------------------------------------------ entry
    @property
    def changed(self):
        return self._changed

    @changed.setter
    def changed(self, v):
        self._changed = v
        if v:
            self.ver = getattr(self, "ver", 0) + 1

    def run_entry(self, fi: FunctionInfo, roots: Dict[str, tuple], extra: Optional[Dict[str, Value]] = None,
                  max_passes: int = 12) -> Value:
        """Analyse `fi` with each parameter p bound to ('src', p, ()) typed roots[p]."""
        self.ver = getattr(self, "ver", 0)
        for p, t in roots.items():
            self.roots[p] = t
        args = {p: frozenset([("src", p, ())]) for p in roots}
        if extra:
            args.update(extra)
        fr = Frame(None, fi.module, (), Env())
        ret = EMPTY
        import time as _time
        self._deadline = _time.time() + float(os.environ.get("VERIF_ENTRY_BUDGET_S", "240"))
        for i in range(max_passes):
            self.passes += 1
            v0 = self.ver
            self.unresolved = set()
            if self.pending_redo:
                for sm in self.summaries.values():
                    sm["memo"] = None
                self.pending_redo = False
            ret = self.call_function(fr, fi, [], dict(args), None)
            if self.ver == v0 and not self.pending_redo:
                self.unresolved_final |= self.unresolved
                return ret
        raise AnalysisError(f"abstract interpretation of {fi.qual} did not converge in {max_passes} passes")

    # ---------------------------------------------------------------- queries
    def origins(self, v: Value, deep: bool = True, through_obj: bool = True, stop_kinds: Tuple[str, ...] = (),
                through_inst: bool = True) -> Set[Atom]:
        """Leaf atoms (src/const/ext/func/class/...) that v is built from."""
        out: Set[Atom] = set()
        seen: Set[Atom] = set()
        todo = list(v)
        while todo:
            a = todo.pop()
            if a in seen:
                continue
            seen.add(a)
            k = a[0]
            if k == "der":
                if stop_kinds:
                    try:
                        if a[1][0][3] in stop_kinds:
                            continue
                    except Exception:
                        pass
                todo.extend(self.deps.get(a[1], ()))
            elif k == "obj":
                if self.obj_class(a) in self.origin_stop_classes:
                    out.add(a)  # a nested code object is a value of its own, not a carrier of its parent's tables
                elif not through_inst and self.obj_class(a):
                    out.add(a)
                elif through_obj:
                    for (o, f), vals in self.heap.items():
                        if o == a:
                            todo.extend(vals)
                    todo.extend(self.deps.get(("setop", a), ()))
                    todo.extend(self.deps.get(("replace", a), ()))
                    if a in self.dictmaps:
                        todo.extend(self._dictmap_read(a, None, None))
                else:
                    out.add(a)
            elif k in ("extm", "bound"):
                todo.append(a[2])
            else:
                out.add(a)
        return out

    def navigate(self, v: Value, steps: Iterable[tuple], fr: Optional[Frame] = None) -> Value:
        """Follow src-path style steps through abstract values."""
        fr = fr or Frame(None, next(iter(self.prog.modules.values())), (), Env())
        for st in steps:
            k = st[0]
            if k == "a":
                v = self.read_attr(fr, v, st[1], None)
            elif k == "e":
                v = self.elements(v, fr)
            elif k == "k":
                v = self.read_key(v, st[1], fr)
            elif k == "t":
                v = self.filter_value(v, ("isa", st[1]), strict=True)
            elif k == "...":
                break
        return v

    def obj_fields(self, a: Atom) -> Dict[tuple, Value]:
        return {f: frozenset(vals) for (o, f), vals in self.heap.items() if o == a}


_NOCONST = object()
_SCALAR_NAMES = {"int", "float", "str", "bool", "bytes", "complex", "object"}


_SUBTYPES = {"bool": {"int"}}


def _names_compatible(have, want) -> bool:
    """Could a value known to be an instance of one of `have` be an instance of one of `want`?"""
    for h in have:
        for w in want:
            if h == w or w in _SUBTYPES.get(h, ()) or h in _SUBTYPES.get(w, ()) or w == "object":
                return True
    return False


def _names_subsumed(have, want) -> bool:
    """Every class in `have` is (a subclass of) a class in `want`."""
    return all(any(h == w or w in _SUBTYPES.get(h, ()) or w == "object" for w in want) for h in have)


def _scalar_der(a) -> bool:
    key = a[1]
    try:
        return key[0][3] in ("aug", "binop", "cmp", "unary", "fstr")
    except Exception:
        return False


def _single_const(v: Value):
    if len(v) == 1:
        (a,) = v
        if a[0] == "const":
            return a[1]
    return _NOCONST


def _expr_key(node) -> Optional[str]:
    if isinstance(node, ast.Name):
        return node.id
    if isinstance(node, ast.Attribute):
        b = _expr_key(node.value)
        return f"{b}.{node.attr}" if b else None
    if isinstance(node, ast.Subscript) and isinstance(node.slice, ast.Constant):
        b = _expr_key(node.value)
        return f"{b}[{node.slice.value!r}]" if b else None
    return None


def _class_names(node) -> List[str]:
    if isinstance(node, ast.Tuple):
        out: List[str] = []
        for e in node.elts:
            out += _class_names(e)
        return out
    if isinstance(node, ast.Name):
        return [node.id]
    if isinstance(node, ast.Attribute):
        return [node.attr]
    if isinstance(node, ast.Call) and isinstance(node.func, ast.Name) and node.func.id == "type" and node.args:
        a = node.args[0]
        if isinstance(a, ast.Constant) and a.value is None:
            return ["NoneType"]
        if isinstance(a, ast.Constant) and a.value is Ellipsis:
            return ["ellipsis"]
    return []


def _root_frame(fr: Frame) -> Frame:
    while hasattr(fr, "_parent_frame"):
        fr = fr._parent_frame
    return fr


def _as_load(t):
    import copy as _c
    n = _c.copy(t)
    n.ctx = ast.Load()
    return n


def _always_returns(stmts) -> bool:
    for st in stmts:
        if isinstance(st, (ast.Return, ast.Raise)):
            return True
        if isinstance(st, ast.If) and st.orelse and _always_returns(st.body) and _always_returns(st.orelse):
            return True
        if isinstance(st, ast.While) and isinstance(st.test, ast.Constant) and st.test.value is True:
            return True
    return False


def _safe_unparse(n):
    try:
        return ast.unparse(n)
    except Exception:
        return type(n).__name__


import operator as _op

_BINOPS = {ast.Add: _op.add, ast.Sub: _op.sub, ast.Mult: _op.mul, ast.FloorDiv: _op.floordiv, ast.Mod: _op.mod,
           ast.Pow: _op.pow, ast.LShift: _op.lshift, ast.RShift: _op.rshift, ast.BitOr: _op.or_,
           ast.BitAnd: _op.and_, ast.BitXor: _op.xor}
_CMPOPS = {ast.Eq: _op.eq, ast.NotEq: _op.ne, ast.Lt: _op.lt, ast.LtE: _op.le, ast.Gt: _op.gt, ast.GtE: _op.ge}
