# Run with 3.7.16 / 3.8.18 / 3.9.18 / 3.10.13 (PYTHONPATH=/tmp/shim:/tmp/hunt3_C06)
# A <listcomp> code object has no docstring (its function object is created and called at once, nothing can
# read __doc__), so the position of a string in its co_consts is a pure serialization artefact.
# The library reads co_consts[0] as Function.docstring for it, so two comprehension code objects that differ only
# in the order of co_consts (operands renumbered) / in an unreferenced extra entry do NOT normalize to equal CodeData.
import dis, types
from code_data import CodeData

def replace(code, **kw):
    if hasattr(code, "replace"):
        return code.replace(**kw)
    f = ["co_argcount", "co_kwonlyargcount", "co_nlocals", "co_stacksize", "co_flags", "co_code", "co_consts",
         "co_names", "co_varnames", "co_filename", "co_name", "co_firstlineno", "co_lnotab", "co_freevars", "co_cellvars"]
    return types.CodeType(*[kw.get(k, getattr(code, k)) for k in f])

def with_comp(module, fn):
    """apply fn to the <listcomp> code object of the module"""
    consts = tuple(fn(c) if isinstance(c, types.CodeType) else c for c in module.co_consts)
    return replace(module, co_consts=consts)

def swap_consts(comp):
    assert comp.co_name == "<listcomp>" and comp.co_consts == (1, "x"), comp.co_consts
    code = bytearray(comp.co_code)
    for i in range(0, len(code), 2):
        if code[i] == dis.opmap["LOAD_CONST"]:
            code[i + 1] = 1 - code[i + 1]  # renumber the operands consistently
    return replace(comp, co_consts=("x", 1), co_code=bytes(code))

def run(code):
    ns = {}
    exec(code, ns)
    return ns["y"]

# 1. order of the constant table
a = compile("y = [v + 1 if v else 'x' for v in (0, 1, 2)]", "f", "exec")
b = with_comp(a, swap_consts)
assert run(a) == run(b) == ["x", 2, 3]
# 2. an extra unreferenced entry
c = compile("y = [v for v in (0, 1, 2)]", "f", "exec")
d = with_comp(c, lambda comp: replace(comp, co_consts=comp.co_consts + ("unused",)))
assert [k.co_consts for k in c.co_consts if isinstance(k, types.CodeType)] == [()]
assert run(c) == run(d) == [0, 1, 2]

na, nb = CodeData.from_code(a).normalize(), CodeData.from_code(b).normalize()
nc, nd = CodeData.from_code(c).normalize(), CodeData.from_code(d).normalize()
print("docstrings:", [[x.type.docstring for x in n if x.type] for n in (na, nb, nc, nd)])
print("permuted equal:", na == nb, " extra entry equal:", nc == nd)
assert na == nb and nc == nd, "<listcomp> variants: normal forms differ"
