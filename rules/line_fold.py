"""R10.F - the line-table codec folded over witness tables.

The two drivers of the codec (the function that reads co_lnotab / co_linetable into a mapping and the one that writes a mapping back) and every stage
they call are folded by `sa.feval.ObjEval` over witness tables.  The tables are produced here by a transcription of CPython's own assemblers
(`assemble_lnotab` of 3.7/3.8 and of 3.9, `assemble_line_range` of 3.10, and the offset rewriting the 3.7-3.9 peephole pass applies after removing
unreachable code) from (offset, line) sequences that hit every limit of the formats: line steps of +-127, +-128, +-129, several hundred; bytecode gaps
of 254, 256, 510, 512, 1020; both at once; entries of width zero; runs without a line (3.10); entries behind the last instruction.  The expectation is
CPython's reader (`PyCode_Addr2Line` / `co_lines`), transcribed here as well: every instruction offset gets the line the reader gives, and writing the
decoded mapping gives the witness table byte for byte.

This is partial evaluation of the library's statements by the checker's evaluator on a finite witness set - the nearest thing to a test a static rule
can be; nothing of /repo is imported or run.
"""
from __future__ import annotations

import ast
import collections
import itertools

from sa.analysis import Analysis, VERSIONS
from sa.feval import BlockOutcome, FevalError, Obj, ObjEval
from sa.model import AnalysisError, loc, norm_src


from reference.line_tables import asm_linetable, asm_lnotab, peephole_lnotab, read_linetable, read_lnotab  # noqa: E402


# --- witnesses ------------------------------------------------------------------------------------------------------------------

# (name, [(offset, line)], code length); lines are relative to the first line of the code object
LNOTAB_SEQS = [
    ("three statements", [(0, 0), (4, 1), (10, 4)], 16),
    ("first statement below the def line", [(0, 2), (6, 3)], 10),
    ("first statement 254 lines below the def line", [(0, 254), (4, 255)], 8),
    ("first statement 300 lines below the def line", [(0, 300), (4, 1)], 8),
    ("backward step", [(0, 3), (6, 1), (8, 2), (12, 0)], 16),
    ("line steps of exactly +127 and -128", [(0, 0), (2, 127), (4, -1), (8, 126)], 12),
    ("line steps of +128 and -129", [(0, 0), (2, 128), (4, -1), (6, 300)], 10),
    ("line steps of +254, +255 and back", [(0, 0), (2, 254), (6, 509), (8, 253), (10, -3), (12, -259)], 16),
    ("line steps of several hundred", [(0, 0), (4, 700), (8, 2), (10, 385), (12, 1)], 16),
    ("bytecode gap of 254 and 256", [(0, 0), (254, 1), (510, 2)], 514),
    ("bytecode gap of 510, 512 and 1020", [(0, 0), (510, 1), (1022, 2), (2042, 3)], 2046),
    ("large gap and large step at once", [(0, 0), (600, 400), (1300, 2), (1310, -300)], 1320),
    ("gap of 256 with a step of -128", [(0, 200), (256, 72), (258, 73)], 262),
    ("one line for all of a long body", [(0, 1)], 700),
]
LNOTAB_ZERO_SEQS = [  # 3.7 / 3.8 only: the line is recorded per statement, a second statement on the same line writes a zero line delta
    ("two statements on one line", [(0, 0), (4, 0), (8, 1), (12, 1)], 16),
    ("every statement on the first line", [(0, 0), (6, 0), (12, 0)], 16),
    ("a statement on the same line 300 bytes on", [(0, 1), (300, 1), (302, 2)], 306),
]
# (name, [(offset, line)], length before removal, [removed (from, to) ranges]): the peephole pass removed unreachable code
PEEPHOLE_SEQS = [
    ("two dead statements behind the last instruction", [(0, 0), (4, 1), (8, 2), (12, 3)], 16, [(8, 16)]),
    ("dead statements in the middle", [(0, 0), (4, 1), (8, 2), (12, 5), (16, 6)], 20, [(6, 12)]),
    ("a dead statement 300 lines on, behind the last instruction", [(0, 0), (4, 1), (8, 301)], 12, [(8, 12)]),
    ("a long removed stretch below a split entry", [(0, 0), (300, 1), (304, 2)], 310, [(20, 280)]),
]
LINETABLE_SEQS = [
    ("three statements", [(0, 0), (4, 1), (10, 4)], 16),
    ("first statement below the def line", [(0, 2), (6, 3)], 10),
    ("first statement 254 lines below the def line", [(0, 254), (4, 255)], 8),
    ("first statement 300 lines below the def line", [(0, 300), (4, 1)], 8),
    ("backward step", [(0, 3), (6, 1), (8, 2), (12, 0)], 16),
    ("line steps of exactly +127 and -127", [(0, 0), (2, 127), (4, 0), (8, 126)], 12),
    ("line steps of +128 and -128", [(0, 0), (2, 128), (4, 0), (6, 300), (8, 172)], 12),
    ("line steps of +254, +255 and back", [(0, 0), (2, 254), (6, 509), (8, 255), (10, 1), (12, -254)], 16),
    ("line steps of several hundred", [(0, 0), (4, 700), (8, 2), (10, 385), (12, 1)], 16),
    ("bytecode gap of 254 and 256", [(0, 0), (254, 1), (510, 2)], 514),
    ("bytecode gap of 508, 510 and 1020", [(0, 0), (508, 1), (1018, 2), (2038, 3)], 2046),
    ("large gap and large step at once", [(0, 0), (600, 400), (1300, 2), (1310, -300)], 1320),
    ("instructions without a line", [(0, 0), (4, None), (8, 0), (10, None), (12, 3), (14, None)], 18),
    ("a run without a line longer than one entry", [(0, 1), (4, None), (600, 2), (604, None)], 1200),
    ("a run without a line of exactly 254 and of exactly 508 bytes", [(0, 0), (6, None), (260, 1), (262, None), (770, 2)], 774),
    ("a line of exactly 254 and of exactly 508 bytes of code", [(0, 0), (254, 1), (762, 2), (764, 5)], 770),
    ("no line from the start", [(0, None), (6, 2)], 10),
    ("a step of 300 after a run without a line", [(0, 0), (2, None), (6, 300), (8, None), (10, 2)], 14),
    ("one line for all of a long body", [(0, 1)], 700),
]


def generated_seqs(is_lt, zero_ok):
    """Thorough tier: every one-step table over a grid of line steps x bytecode gaps that brackets every limit of the formats, and every
    two-step table over a coarser grid (the second step starts where an entry of the first was split or merged)."""
    D1 = [-700, -300, -257, -256, -255, -254, -130, -129, -128, -127, -126, -2, -1, 1, 2, 126, 127, 128, 129, 253, 254, 255, 256, 300, 381, 700]
    G1 = [2, 4, 252, 254, 256, 258, 508, 510, 512, 762, 764, 766, 1020, 1022]
    D2 = [-300, -129, -128, -127, -1, 1, 127, 128, 255, 300]
    G2 = [2, 254, 256, 510]
    if zero_ok:
        D1, D2 = D1 + [0], D2 + [0]
    out = []
    base = 1000  # lines stay positive relative to the first line only where the assembler needs it: the table holds signed steps
    for d in D1:
        for g in G1:
            out.append((f"one step of {d:+d} lines after {g} bytes", [(0, 0), (g, d)], g + 4))
    for d1 in D2:
        for g1 in G2:
            for d2 in D2:
                for g2 in G2:
                    out.append((f"steps of {d1:+d} after {g1} bytes and {d2:+d} after {g2} more", [(0, 0), (g1, d1), (g1 + g2, d1 + d2)], g1 + g2 + 2))
    if is_lt:
        for g in G1:
            for d in (-300, -128, -1, 1, 127, 300):
                out.append((f"{g} bytes without a line, then a step of {d:+d}", [(0, 0), (2, None), (2 + g, d)], g + 6))
                out.append((f"{g} bytes on a line {d:+d} away, then no line", [(0, 0), (2, d), (2 + g, None)], g + 6))
    return out


def witnesses(version, deep=False):
    out = []
    if version >= (3, 10):
        for name, seq, n in LINETABLE_SEQS + (generated_seqs(True, False) if deep else []):
            out.append((name, asm_linetable(seq, n), n))
        return out
    if deep:
        for name, seq, n in generated_seqs(False, version < (3, 9)):
            out.append((name, asm_lnotab(seq, version < (3, 9)), n))
    for name, seq, n in LNOTAB_SEQS:
        out.append((name, asm_lnotab(seq, version < (3, 9)), n))
    if version < (3, 9):
        for name, seq, n in LNOTAB_ZERO_SEQS:
            out.append((name, asm_lnotab(seq, True), n))
    for name, seq, n, removed in PEEPHOLE_SEQS:
        def new_offset(o, removed=removed):
            gone = 0
            for a, b in removed:
                if o >= b:
                    gone += b - a
                elif o > a:
                    gone += o - a
            return o - gone
        out.append((name, peephole_lnotab(asm_lnotab(seq, version < (3, 9)), new_offset), new_offset(n)))
    return out


# --- the fold -------------------------------------------------------------------------------------------------------------------


def _ctor(ci):
    names = [fl.name for fl in ci.fields]

    def make(*a, **kw):
        if len(a) > len(names):
            raise FevalError("too many positional arguments")
        kw = dict(zip(names, a), **kw)
        if set(kw) - set(names):
            raise FevalError(f"unexpected keyword for {ci.name}")
        for fl in ci.fields:
            if fl.name not in kw:
                d = fl.default_factory
                if isinstance(d, ast.Name) and d.id in ("dict", "list", "tuple", "set"):
                    kw[fl.name] = {"dict": dict, "list": list, "tuple": tuple, "set": set}[d.id]()
                elif fl.default is not None:
                    kw[fl.name] = ast.literal_eval(fl.default)
                else:
                    raise FevalError(f"{ci.name}() without {fl.name}")
        return Obj({"__cls__": ci.name, **kw})
    return make


def evaluator(an: Analysis, m, version):
    def resolve(name):
        f = m.functions.get(name)
        return f.node if f is not None and f.cls is None else None
    extra = {}
    for mod in an.prog.modules.values():
        if mod.name.startswith("code_data") and not mod.is_test:
            for ci in mod.classes.values():
                if ci.is_dataclass:
                    extra[ci.name] = _ctor(ci)
    extra.update({"sys": {"version_info": tuple(version) + (0, "final", 0)}, "collections": {"defaultdict": collections.defaultdict, "OrderedDict": dict},
                  "defaultdict": collections.defaultdict, "chain": itertools.chain, "itertools": {"chain": itertools.chain},
                  "NotImplementedError": NotImplementedError, "ValueError": ValueError})
    ev = ObjEval(resolve, extra=extra)
    ev.module_assigns = m.assigns
    ev.MAX_ITER = 4096
    ev.MAX_STEPS = 2_000_000
    ev.methods = {}
    for ci in m.classes.values():
        for name, f in ci.methods.items():
            ev.methods[name] = f.node
    return ev


def _fold_tables(an, version, ws, lines_matter=True):
    """Fold the codec over the tables `ws` under interpreter `version`: (tables with wrong lines, tables written back differently, gap or None)."""
    from .c10 import find_stages
    st = find_stages(an)
    dec, enc = st["decode"], st["encode"]
    m = dec.module
    is_lt = version >= (3, 10)
    reader = read_linetable if is_lt else read_lnotab
    bad_lines, bad_bytes = [], []
    for name, tab, n in ws:
        ev = evaluator(an, m, version)
        code = Obj({"__cls__": "code", "co_code": bytes(n), "co_lnotab": tab})
        if is_lt:
            code["co_linetable"] = tab
            del code["co_lnotab"]  # (3.10 computes an old-format table for this attribute; a codec that reads it under 3.10 is not decided here)
        try:
            mapping = ev.call_method(dec.node, code)
            lines = mapping.get("offset_to_line") if isinstance(mapping, Obj) else None
            if not isinstance(lines, dict):
                return bad_lines, bad_bytes, f"{dec.qual}: the decoded mapping has no offset -> line table the fold can read"
            why = None
            for off in range(0, n, 2):
                want = reader(tab, off)
                got = lines.get(off, "<no entry>")
                if got != want or (got is None) != (want is None):
                    why = f"offset {off} gets line {got!r}, CPython reads {want!r}"
                    break
            if why and lines_matter:
                bad_lines.append(f"{name} ({tab.hex()[:40]}): {why}")
                continue
            back = ev.call_method(enc.node, mapping)
            if not isinstance(back, (bytes, bytearray)):
                return bad_lines, bad_bytes, f"{enc.qual}: the encoder's result on the witness mapping is not bytes"
            if bytes(back) != tab:
                i = next((i for i in range(0, max(len(back), len(tab)), 2) if back[i:i + 2] != tab[i:i + 2]), 0)
                bad_bytes.append(f"{name}: entry {i // 2} is written as {list(back[i:i + 2])}, CPython wrote {list(tab[i:i + 2])} (table {tab.hex()[:40]})")
        except BlockOutcome as o:
            bad_lines.append(f"{name} ({tab.hex()[:40]}): the codec stops at `{norm_src(o.node)[:70]}`")
        except AnalysisError as ex:
            return bad_lines, bad_bytes, str(ex)
        except (ValueError, ArithmeticError, IndexError, KeyError) as ex:
            bad_lines.append(f"{name} ({tab.hex()[:40]}): the codec raises {type(ex).__name__}: {str(ex)[:60]}")
        except Exception as ex:  # noqa: BLE001 - a gap of the evaluator, never a verdict
            return bad_lines, bad_bytes, f"{dec.qual} / {enc.qual}: not evaluable on the witness table '{name}' ({type(ex).__name__}: {ex})"
    return bad_lines, bad_bytes, None


def _fold_chunk(args):
    repo, version, ws = args
    from sa import model
    model.REPO = repo
    return _fold_tables(Analysis(repo), version, ws)


# Tables the 3.10 assembler writes only for instructions whose line numbers are negative and DIFFERENT (an ast with rewritten line numbers: the
# assembler opens a new range whenever the line changes and writes every negative line as 'no line'): two adjacent ranges without a line.
RAW_LINETABLES = [
    ("two adjacent ranges without a line (instructions with different negative line numbers)", bytes([14, 0x80, 2, 0x80]), 16),
    ("a line, then two adjacent ranges without a line, then a line", bytes([4, 1, 6, 0x80, 2, 0x80, 4, 2]), 16),
]


def _raw_lnotabs():
    """co_lnotab as the 3.7-3.9 peephole pass leaves it when the code between two line changes was removed: a full step at one address followed, at the
    same address, by a step of any size and sign (`+127` whose code went away, then `-327`)."""
    out = []
    for first in (127, -128, 5):
        for total in (-327, -256, -255, -128, -1, 1, 127, 128, 300):
            tail = asm_lnotab([(0, total)], False)
            out.append((f"a step of {first:+d} at offset 2 and, at the same address, a step of {total:+d}", bytes([2, first & 255]) + tail + bytes([2, 1]), 6))
    return out


def raw_lnotab_rule(an: Analysis, rep, rule="R10.F"):
    from .c10 import find_stages
    st = find_stages(an)
    dec, enc = st["decode"], st["encode"]
    ws = _raw_lnotabs()
    for version in [v for v in VERSIONS if v < (3, 10)]:
        vs = ".".join(map(str, version))
        bad_lines, bad_bytes, gap = _fold_tables(an, version, ws)
        if gap:
            raise AnalysisError(gap)
        rep.add(rule, f"{enc.qual}::tables with two steps at one address are decoded and written back [{vs}]", not bad_lines and not bad_bytes, loc(enc.module, enc.node),
                f"{len(ws)} tables (a full step whose code the peephole pass removed, followed at the same address by a step of any size and sign)" if not bad_lines and not bad_bytes else
                (bad_lines + bad_bytes)[0] + (f" (+{len(bad_lines) + len(bad_bytes) - 1} more)" if len(bad_lines) + len(bad_bytes) > 1 else ""))


def raw_tables_rule(an: Analysis, rep, rule="R10.F"):
    """Only under C10, whose quantifier is every table the assembler can emit (C01 speaks of code compiled from a valid program's source)."""
    from .c10 import find_stages
    st = find_stages(an)
    dec, enc = st["decode"], st["encode"]
    bad_lines, bad_bytes, gap = _fold_tables(an, (3, 10), RAW_LINETABLES)
    if gap:
        raise AnalysisError(gap)
    rep.add(rule, f"{dec.qual}::adjacent ranges without a line decode to CPython's lines [3.10]", not bad_lines, loc(dec.module, dec.node),
            f"{len(RAW_LINETABLES)} tables" if not bad_lines else bad_lines[0])
    rep.add(rule, f"{enc.qual}::adjacent ranges without a line are written back byte for byte [3.10]", not bad_bytes, loc(enc.module, enc.node),
            f"{len(RAW_LINETABLES)} tables" if not bad_bytes else bad_bytes[0] + ": the mapping holds None for both ranges, the boundary between them has no place in it")


# 3.10 tables nobody's assembler writes but `code.replace(co_linetable=...)` can: the same lines cut into other entries.
HAND_LINETABLES = [
    ("one line cut into two entries", bytes([2, 1, 6, 0]), 8),
    ("an empty entry in front", bytes([0, 1, 8, 0]), 8),
    ("an empty entry in the middle that is taken back", bytes([2, 1, 0, 3, 6, 0xFD]), 8),
    ("a last entry of odd length", bytes([4, 1, 3, 1]), 8),
    ("a table that ends before the code does", bytes([4, 1]), 8),
]


def hand_tables_rule(an: Analysis, rep, rule="R11.H2"):
    """C11: for a hand-altered 3.10 line table from_code either raises or the decoded mapping is written back as the same bytes."""
    from .c10 import find_stages
    rep.rule(rule, "a 3.10 line table the mapping cannot hold is refused or reproduced, never silently rewritten", 1)
    st = find_stages(an)
    dec, enc = st["decode"], st["encode"]
    bad = []
    for name, tab, n in HAND_LINETABLES:
        bl, bb, gap = _fold_tables(an, (3, 10), [(name, tab, n)], lines_matter=False)
        if gap:
            raise AnalysisError(gap)
        if bb:
            bad.append(bb[0])
    rep.add(rule, f"{dec.qual}::hand-altered 3.10 tables are refused or reproduced", not bad, loc(dec.module, dec.node),
            f"{len(HAND_LINETABLES)} tables (one line cut into two entries, empty entries, odd length, a table that ends early): refused, or written back byte for byte" if not bad else
            bad[0] + (f" (+{len(bad) - 1} more)" if len(bad) > 1 else "") + " - from_code returns data whose to_code() has another co_linetable, silently")


def fold_rule(an: Analysis, rep, rule="R10.F"):
    from .c10 import find_stages
    rep.rule(rule, "the line-table codec folded over witness tables written by CPython's assemblers: every instruction gets CPython's line, and the table is written back byte for byte", 8)
    st = find_stages(an)
    dec, enc = st["decode"], st["encode"]
    m = dec.module
    # thorough tier of C10 itself: a generated grid of about 2 000 more tables per interpreter version, folded on all cores
    deep = getattr(rep, "tier", "quick") == "thorough" and getattr(rep, "pid", "") == "C10"
    for version in VERSIONS:
        vs = ".".join(map(str, version))
        is_lt = version >= (3, 10)
        ws = witnesses(version, deep=deep)
        if deep:
            import concurrent.futures as cf
            import os
            n_w = max(1, min(16, os.cpu_count() or 1))
            chunks = [ws[i::n_w] for i in range(n_w)]
            bad_lines, bad_bytes, gap = [], [], None
            with cf.ProcessPoolExecutor(max_workers=n_w) as ex:
                for bl, bb, g in ex.map(_fold_chunk, [(an.prog.repo, version, c) for c in chunks]):
                    bad_lines += bl
                    bad_bytes += bb
                    gap = gap or g
        else:
            bad_lines, bad_bytes, gap = _fold_tables(an, version, ws)
        if gap:
            raise AnalysisError(gap)
        fmt = "co_linetable" if is_lt else "co_lnotab"
        rep.add(rule, f"{dec.qual}::every witness table decodes to CPython's lines [{vs}]", not bad_lines, loc(m, dec.node),
                f"{len(ws)} {fmt} tables as the {vs} assembler writes them" if not bad_lines else bad_lines[0] + (f" (+{len(bad_lines) - 1} more)" if len(bad_lines) > 1 else ""))
        rep.add(rule, f"{enc.qual}::every decoded witness table is written back byte for byte [{vs}]", not bad_bytes, loc(m, enc.node),
                f"{len(ws) - len(bad_lines)} {fmt} tables" if not bad_bytes else bad_bytes[0] + (f" (+{len(bad_bytes) - 1} more)" if len(bad_bytes) > 1 else ""))
